"""C12 helper: EQUAL values with a different construction history.

``tokenize`` promises the same token for equal values.  Copies, pickles and identical constructions keep whatever an
object carries besides its value (the payload under a missing slot, the block layout of a frame, which elements are one
Python object).  The descriptions made here reach the SAME value — the structural oracle of ``c12_values.diff`` decides:
values, dtype, index, names — by different routes:

* ``masked``      nullable Int*/UInt*/Float*/boolean arrays whose missing slots were masked after holding other payloads
                  (setitem NA, the public ``IntegerArray(values, mask)`` constructors, arithmetic, ``where`` / ``mask``,
                  take with fill, reindex, concat, conversion from float / object, a strided slice of a larger array);
* ``cat``         Categoricals with the same categories (same order), codes and ordered flag built by the constructor,
                  ``from_codes`` (other code dtypes), ``astype``, reorder / set / rename / add+remove categories, take, a
                  strided slice, ``union_categoricals``;
* ``strings``     object / ``str`` / ``string`` arrays whose equal elements are one shared Python object, or distinct
                  equal objects (with and without missing elements);
* ``blocks``      DataFrames with equal columns, dtypes and index whose columns sit in one consolidated block, in one
                  block per column (inserted one by one, ``concat(axis=1)``) or come from a C / F ordered 2-D array.

Each recipe is put into a carrier (bare, Series, Series with an index, DataFrame column, Index, inside a list / dict).
Nothing here imports dask.  ``feature(v, w)`` names what differs between two equal values in terms of the inputs (private
pandas attributes are read for that label only, never for a verdict).
"""
from __future__ import annotations

INT_DTYPES = ["Int64", "Int64", "Int32", "Int8", "UInt8", "UInt64", "Int16"]
FLOAT_DTYPES = ["Float64", "Float64", "Float32"]
MASKED_ROUTES = {
    "int": ["literal", "setitem-na", "setitem-na-mask", "constructor", "arith", "where", "mask", "mul-na", "take-fill", "from-float",
            "astype-from-float", "reindex", "concat", "slice-of-larger", "from-object", "copy-of-setitem"],
    "float": ["literal", "setitem-na", "setitem-na-mask", "constructor", "arith", "where", "mask", "mul-na", "take-fill", "nan-literal",
              "reindex", "concat", "slice-of-larger", "from-object", "copy-of-setitem"],
    "bool": ["literal", "setitem-na", "setitem-na-mask", "constructor", "invert", "where", "mask", "take-fill", "reindex", "concat",
             "slice-of-larger", "from-object", "copy-of-setitem"],
}
CAT_ROUTES = ["constructor", "from_codes", "from_codes-int64", "astype", "reorder", "set_categories", "rename", "add-remove", "take",
              "slice-of-larger", "union", "ordered-roundtrip", "series-cat"]
STRING_STORES = ["object", "object", "str", "string", "index-object", "index-str"]
BLOCK_ROUTES = ["dict", "insert-each", "concat-axis1", "dict-copy", "assign", "from-2d-C", "from-2d-F", "setitem-replace"]
CARRIERS = ["bare", "bare", "series", "series-index", "df-col", "df-only", "index", "list", "dict"]


class Refused(Exception):
    """pandas / numpy refuse the recipe (the description carries no requirement)"""


# ---------------------------------------------------------------------------------------------------------------
# builders

def _np_dtype(dt):
    import numpy as np

    if dt == "boolean":
        return np.dtype(bool)
    return np.dtype(dt.lower())


def _masked(p):
    import numpy as np
    import pandas as pd

    dt, vals, hidden, route = p["dtype"], p["vals"], p["hidden"], p["route"]
    n = len(vals)
    na = [v is None for v in vals]
    full = [h if v is None else v for v, h in zip(vals, hidden)]
    keep = [not m for m in na]
    lit = lambda xs: pd.array([pd.NA if x is None else x for x in xs], dtype=dt)     # noqa: E731
    if route == "literal":
        return lit(vals)
    if route in ("setitem-na", "copy-of-setitem"):
        a = lit(full)
        for i, m in enumerate(na):
            if m:
                a[i] = pd.NA
        return a.copy() if route == "copy-of-setitem" else a
    if route == "setitem-na-mask":
        a = lit(full)
        a[np.array(na, dtype=bool)] = pd.NA
        return a
    if route == "constructor":
        cls = pd.arrays.BooleanArray if dt == "boolean" else pd.arrays.FloatingArray if dt.startswith("Float") else pd.arrays.IntegerArray
        return cls(np.array(full, dtype=_np_dtype(dt)), np.array(na, dtype=bool))
    if route == "arith":
        c = p.get("c", 1)
        return lit([None if v is None else v - c for v in vals]) + c
    if route == "invert":
        return ~lit([None if v is None else (not v) for v in vals])
    if route == "where":
        return pd.Series(lit(full)).where(pd.Series(keep)).array
    if route == "mask":
        return pd.Series(lit(full)).mask(pd.Series(na)).array
    if route == "mul-na":
        return lit(full) * lit([None if m else 1 for m in na])
    if route == "take-fill":
        compact = [v for v in vals if v is not None]
        idx, k = [], 0
        for m in na:
            if m:
                idx.append(-1)
            else:
                idx.append(k)
                k += 1
        return lit(compact).take(idx, allow_fill=True)
    if route == "from-float":
        return pd.array(np.array([np.nan if v is None else float(v) for v in vals], dtype="float64"), dtype=dt)
    if route == "astype-from-float":
        return pd.array(np.array([np.nan if v is None else float(v) for v in vals], dtype="float64")).astype(dt)
    if route == "nan-literal":
        return pd.array([np.nan if v is None else v for v in vals], dtype=dt)
    if route == "reindex":
        pos = [i for i, m in enumerate(na) if not m]
        return pd.Series(lit([vals[i] for i in pos]), index=pos).reindex(range(n)).array
    if route == "concat":
        cut = p.get("cut", n // 2)
        a1, a2 = lit(vals[:cut]), lit(full[cut:])
        if any(na[cut:]):
            a2[np.array(na[cut:], dtype=bool)] = pd.NA
        return pd.concat([pd.Series(a1), pd.Series(a2)], ignore_index=True).array
    if route == "slice-of-larger":
        big_vals, big_na = [], []
        for v, h in zip(vals, hidden):
            big_vals += [h if v is None else v, h]
            big_na += [v is None, False]
        a = lit(big_vals)
        a[np.array(big_na, dtype=bool)] = pd.NA
        return a[::2]
    if route == "from-object":
        o = np.empty(n, dtype=object)
        for i, v in enumerate(vals):
            o[i] = pd.NA if v is None else v
        return pd.array(o, dtype=dt)
    raise ValueError(route)


def _cat(p):
    import numpy as np
    import pandas as pd
    from pandas.api.types import union_categoricals

    cats, codes, ordered, route = p["cats"], p["codes"], bool(p["ordered"]), p["route"]
    vals = [None if c < 0 else cats[c] for c in codes]
    n = len(codes)
    if route == "constructor":
        return pd.Categorical(vals, categories=cats, ordered=ordered)
    if route == "from_codes":
        return pd.Categorical.from_codes(codes, categories=cats, ordered=ordered)
    if route == "from_codes-int64":
        return pd.Categorical.from_codes(np.array(codes, dtype="int64"), categories=cats, ordered=ordered)
    if route == "astype":
        return pd.Series(vals, dtype=object).astype(pd.CategoricalDtype(cats, ordered=ordered)).array
    if route == "series-cat":
        return pd.Series(pd.Categorical(vals, categories=cats, ordered=ordered)).iloc[:].array
    perm = list(reversed(cats)) if len(cats) > 1 else list(cats)
    if route == "reorder":
        return pd.Categorical(vals, categories=perm, ordered=ordered).reorder_categories(cats, ordered=ordered)
    if route == "set_categories":
        return pd.Categorical(vals, categories=perm + [p["extra"]], ordered=ordered).set_categories(cats, ordered=ordered)
    if route == "rename":
        tmp = ["tmp%d" % i for i in range(len(cats))]
        return pd.Categorical([None if c < 0 else tmp[c] for c in codes], categories=tmp, ordered=ordered).rename_categories(cats)
    if route == "add-remove":
        return pd.Categorical(vals, categories=cats, ordered=ordered).add_categories([p["extra"]]).remove_categories([p["extra"]]) \
            .reorder_categories(cats, ordered=ordered)        # remove_categories sorts the categories of an unordered one
    if route == "take":
        base = pd.Categorical(list(reversed(vals)), categories=cats, ordered=ordered)
        return base.take(list(range(n - 1, -1, -1)))
    if route == "slice-of-larger":
        big = []
        for c in codes:
            big += [c, 0 if cats else -1]
        return pd.Categorical.from_codes(big, categories=cats, ordered=ordered)[::2]
    if route == "union":
        cut = n // 2
        a = pd.Categorical(vals[:cut], categories=cats, ordered=ordered)
        b = pd.Categorical(vals[cut:], categories=cats, ordered=ordered)
        return union_categoricals([a, b])
    if route == "ordered-roundtrip":
        c = pd.Categorical(vals, categories=cats, ordered=ordered)
        return c.as_unordered().as_ordered() if ordered else c.as_ordered().as_unordered()
    raise ValueError(route)


def _fresh(s):
    """an equal str that is a new object (CPython keeps the empty and one-character strings as singletons)"""
    return (s + "\x00")[:-1]


def _strings(p):
    import numpy as np
    import pandas as pd

    vals, store, sharing = p["vals"], p["store"], p["sharing"]
    pool = {}
    elems = []
    for i, v in enumerate(vals):
        if v is None:
            elems.append(None)
        elif sharing == "shared" or (sharing == "mixed" and i % 2 == 0):
            elems.append(pool.setdefault(v, _fresh(v)))
        else:
            elems.append(_fresh(v))
    if store in ("object", "index-object"):
        o = np.empty(len(elems), dtype=object)
        for i, e in enumerate(elems):
            o[i] = e
        return o if store == "object" else pd.Index(o, dtype=object)
    if store in ("str", "string"):
        return pd.array(elems, dtype=store)
    if store == "index-str":
        return pd.Index(pd.array(elems, dtype="str"))
    raise ValueError(store)


def _column(c):
    import numpy as np
    import pandas as pd

    kind, vals = c["kind"], c["vals"]
    if kind in ("int64", "float64", "bool", "int32"):
        return np.array(vals, dtype=kind)
    if kind == "object":
        o = np.empty(len(vals), dtype=object)
        for i, v in enumerate(vals):
            o[i] = v
        return o
    if kind == "Int64":
        return pd.array([pd.NA if v is None else v for v in vals], dtype="Int64")
    raise ValueError(kind)


def _blocks(p):
    import numpy as np
    import pandas as pd

    cols, route = p["cols"], p["route"]
    names = [c["name"] for c in cols]
    arrays = [_column(c) for c in cols]
    n = len(cols[0]["vals"])
    index = pd.Index(p["index"]) if p.get("index") is not None else pd.RangeIndex(n)
    if route in ("dict", "dict-copy"):
        df = pd.DataFrame(dict(zip(names, arrays)), index=index)
        return df.copy() if route == "dict-copy" else df
    if route == "insert-each":
        df = pd.DataFrame(index=index)
        for nm, a in zip(names, arrays):
            df[nm] = a
        return df
    if route == "concat-axis1":
        return pd.concat([pd.Series(a, index=index, name=nm) for nm, a in zip(names, arrays)], axis=1)
    if route == "assign":
        df = pd.DataFrame({names[0]: arrays[0]}, index=index)
        return df.assign(**{nm: a for nm, a in list(zip(names, arrays))[1:]})
    if route == "setitem-replace":
        df = pd.DataFrame({nm: (a[::-1].copy() if i % 2 else a) for i, (nm, a) in enumerate(zip(names, arrays))}, index=index)
        for i, (nm, a) in enumerate(zip(names, arrays)):
            if i % 2:
                df[nm] = a
        return df
    if route in ("from-2d-C", "from-2d-F"):
        kinds = {c["kind"] for c in cols}
        if len(kinds) != 1 or kinds & {"object", "Int64"}:
            raise Refused("2-D base needs one numpy dtype")
        arr = np.array([c["vals"] for c in cols], dtype=cols[0]["kind"]).T
        arr = np.ascontiguousarray(arr) if route == "from-2d-C" else np.asfortranarray(arr)
        return pd.DataFrame(arr, columns=names, index=index)
    raise ValueError(route)


def _carry(p, x):
    """the recipe's array inside its carrier"""
    import numpy as np
    import pandas as pd

    c = p.get("carrier", "bare")
    if c == "bare":
        return x
    if p["what"] == "blocks":
        return [x, 1] if c == "list" else {"k": x} if c == "dict" else (x, "t") if c == "index" else x
    if isinstance(x, pd.Index):
        # strings stored as an Index: the carriers that take an array take the Index as their index / column
        if c in ("series", "series-index", "df-col", "df-only"):
            return pd.Series(np.arange(len(x)), index=x, name="x")
        return [x, 1] if c == "list" else {"k": x} if c == "dict" else x
    n = len(x)
    if c == "series":
        return pd.Series(x, name="x", copy=False)
    if c == "series-index":
        return pd.Series(x, index=pd.Index(["r%d" % i for i in range(n)], dtype=object), name="x", copy=False)
    if c == "df-col":
        return pd.DataFrame({"a": x, "b": np.arange(n, dtype="int64")})
    if c == "df-only":
        return pd.Series(x, name="x", copy=False).to_frame()
    if c == "index":
        if isinstance(x, np.ndarray):
            return pd.Index(x, dtype=object, name="i")
        return pd.Index(x, name="i")
    if c == "list":
        return [x, 1]
    if c == "dict":
        return {"k": x}
    raise ValueError(c)


def build_hist(p):
    what = p["what"]
    try:
        if what == "masked":
            x = _masked(p)
        elif what == "cat":
            x = _cat(p)
        elif what == "strings":
            x = _strings(p)
        elif what == "blocks":
            x = _blocks(p)
        else:
            raise ValueError(what)
        return _carry(p, x)
    except Refused:
        raise
    except (ValueError, TypeError, OverflowError, IndexError, NotImplementedError) as e:
        # pandas / numpy refuse the route for these values: the description says nothing
        raise Refused("%s/%s refused: %s: %s" % (what, p.get("route", p.get("sharing")), type(e).__name__, e))


# ---------------------------------------------------------------------------------------------------------------
# generators

def _g_masked(r):
    group = r.choice(("int", "int", "float", "bool"))
    n = r.choice((2, 3, 3, 4, 5))
    if group == "int":
        dt = r.choice(INT_DTYPES)
        vals = [r.randint(4, 60) for _ in range(n)]
        hidden = [r.choice((0, 1, 5, 7, 99, 100)) for _ in range(n)]
    elif group == "float":
        dt = r.choice(FLOAT_DTYPES)
        vals = [r.choice((0.5, 1.0, 2.5, 4.0, -1.5, 8.0, 0.0)) for _ in range(n)]
        hidden = [r.choice((0.0, 1.0, 0.25, 7.5, -3.0)) for _ in range(n)]
    else:
        dt = "boolean"
        vals = [r.random() < 0.5 for _ in range(n)]
        hidden = [r.random() < 0.5 for _ in range(n)]
    k = r.choice((1, 1, 1, 2)) if n > 2 else 1
    for i in r.sample(range(n), k):
        vals[i] = None
    ra, rb = r.sample(MASKED_ROUTES[group], 2)
    if r.random() < 0.25:
        rb = ra                     # the same route with another hidden payload
    base = {"what": "masked", "dtype": dt, "vals": vals, "c": r.choice((1, 2, 3)), "cut": r.randrange(n + 1)}
    hidden2 = [r.choice((2, 3, 11)) if group == "int" else (not h if group == "bool" else h + 1.0) for h in hidden]
    return dict(base, hidden=hidden, route=ra), dict(base, hidden=hidden2, route=rb)


def _g_cat(r):
    pool = r.choice((["a", "b", "c", "d"], ["a-b", "c", "a", "b-c"], [1, 2, 3, 10], ["x", "y"], ["b", "a"], [2.5, 1.5, 0.5]))
    cats = r.sample(pool, r.randint(1, len(pool)))
    n = r.choice((2, 3, 4, 6))
    codes = [(-1 if r.random() < 0.15 else r.randrange(len(cats))) for _ in range(n)]
    ordered = r.random() < 0.35
    extra = "zz" if isinstance(cats[0], str) else 99 if isinstance(cats[0], int) else 9.5
    ra, rb = r.sample(CAT_ROUTES, 2)
    base = {"what": "cat", "cats": cats, "codes": codes, "ordered": ordered, "extra": extra}
    return dict(base, route=ra), dict(base, route=rb)


def _g_strings(r):
    words = ["ab", "abc", "a-b", "b-c", "xy", "hello", "é1", "12", "None", "nan", "a", ""]
    n = r.choice((2, 3, 4, 5))
    distinct = r.sample(words, r.randint(1, min(3, n)))
    vals = [r.choice(distinct) for _ in range(n)]
    if n >= 2:
        vals[r.randrange(1, n)] = vals[0]        # at least one repeated string
    if r.random() < 0.45:
        vals[r.randrange(n)] = None
        if not any(v is not None and vals.count(v) > 1 for v in vals) and n > 2:
            keep = [i for i, v in enumerate(vals) if v is not None]
            vals[keep[-1]] = vals[keep[0]]
    store = r.choice(STRING_STORES)
    sa, sb = r.sample(("shared", "distinct", "mixed"), 2)
    base = {"what": "strings", "vals": vals, "store": store}
    return dict(base, sharing=sa), dict(base, sharing=sb)


def _g_blocks(r):
    n = r.choice((2, 3, 4))
    ncols = r.choice((2, 2, 3, 4))
    same = r.random() < 0.55
    kinds_all = ["int64", "float64", "bool", "int32", "object", "Int64"]
    one = r.choice(("int64", "float64", "int64"))
    cols = []
    for j in range(ncols):
        kind = one if same else r.choice(kinds_all if j else kinds_all[:4])
        if kind in ("int64", "int32"):
            vals = [r.randint(0, 9) for _ in range(n)]
        elif kind == "float64":
            vals = [r.choice((0.5, 1.5, 2.0, -1.0, 3.25)) for _ in range(n)]
        elif kind == "bool":
            vals = [r.random() < 0.5 for _ in range(n)]
        elif kind == "object":
            vals = [r.choice(("a", "b", "ab", "a-b")) for _ in range(n)]
        else:
            vals = [None if r.random() < 0.3 else r.randint(0, 9) for _ in range(n)]
        cols.append({"name": "abcd"[j], "kind": kind, "vals": vals})
    if not same and len({c["kind"] for c in cols}) == len(cols) and ncols > 2:
        cols[-1] = dict(cols[0], name=cols[-1]["name"])     # two columns of one dtype: consolidation has something to do
    routes = [x for x in BLOCK_ROUTES if same or not x.startswith("from-2d")]
    ra, rb = r.sample(routes, 2)
    index = r.choice((None, None, ["r%d" % i for i in range(n)], list(range(1, n + 1))))
    base = {"what": "blocks", "cols": cols, "index": index}
    return dict(base, route=ra), dict(base, route=rb)


WHATS = [("masked", _g_masked, 8), ("cat", _g_cat, 4), ("strings", _g_strings, 3), ("blocks", _g_blocks, 4)]


def gen_history_pair(r):
    """two descriptions of ONE value reached by two routes -> (desc, desc, 'same')"""
    what, gen, _ = r.choices(WHATS, [w for _, _, w in WHATS])[0]
    a, b = gen(r)
    carrier = r.choice(CARRIERS)
    if what == "cat" and carrier == "index" and r.random() < 0.5:
        carrier = "series"
    a["carrier"] = b["carrier"] = carrier
    return ["hist", a], ["hist", b], "same"


# ---------------------------------------------------------------------------------------------------------------
# what differs between two equal values (label only)

def feature(dv, dw, v, w):
    """input-feature predicate of an equal pair (no recipe names: one mechanism = one label)"""
    import numpy as np

    what = dv[1]["what"]
    try:
        if what == "masked":
            a, b = build_hist(dict(dv[1], carrier="bare")), build_hist(dict(dw[1], carrier="bare"))
            da, ma, db = np.asarray(a._data), np.asarray(a._mask), np.asarray(b._data)
            if ma.any() and not np.array_equal(da[ma], db[ma], equal_nan=da.dtype.kind == "f"):
                return "masked-extension-array&payload-under-NA-differs"
            return "masked-extension-array&same-payload-under-NA"
        if what == "cat":
            return "Categorical&same-categories-codes-ordered"
        if what == "strings":
            missing = any(x is None for x in dv[1]["vals"])
            return "equal-strings-shared-vs-distinct-objects" + ("&has-missing-element" if missing else "")
        if what == "blocks":
            v, w = build_hist(dict(dv[1], carrier="bare")), build_hist(dict(dw[1], carrier="bare"))
            lay = lambda df: [(str(b.dtype), [int(i) for i in b.mgr_locs]) for b in df._mgr.blocks]      # noqa: E731
            if lay(v) != lay(w):
                return "DataFrame&block-structure-differs"
            return "DataFrame&same-block-structure"
    except Exception:  # noqa: BLE001 - label only
        pass
    return "construction-history:" + what
