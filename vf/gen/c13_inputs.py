"""C13 helper: families of *near-identical* inputs and small collection programs over them.

A family is a list of variants ``(tag, maker)``; ``maker()`` builds a FRESH object on every call (so a collection can
be built once alone and once next to its siblings without sharing Python objects).  Variants of one family are
unequal-but-similar: same bytes in another layout / shape / dtype, same strings split differently, equal values
under another dtype or index, one element changed...  Nothing here imports dask.
"""
from __future__ import annotations

import os

import numpy as np

# near-identical scalar operands / keyword values (index into this list is stored in the case)
SCALARS = [1, 1.0, True, ("int8", 1), ("int64", 1), ("float32", 1), ("float64", 1), ("uint8", 1), 1 + 0j, ("bool_", 1),
           ("0d-int64", 1), ("0d-float64", 1), 2, 2.0, "1", b"1", None]
NUMERIC_SCALARS = list(range(14))   # indices of SCALARS usable in arithmetic


def scalar(i):
    s = SCALARS[i]
    if isinstance(s, tuple):
        if s[0].startswith("0d-"):
            return np.array(s[1], dtype=s[0][3:])
        return getattr(np, s[0])(s[1])
    return s


def scalar_tag(i):
    s = SCALARS[i]
    return "%s:%s" % (s[0], s[1]) if isinstance(s, tuple) else "%s:%r" % (type(s).__name__, s)


# ---------------------------------------------------------------------------------------------------------------
# families of numpy inputs

def _base(seed, shape, dtype="int64", lo=0, hi=5):
    r = np.random.default_rng(seed)
    a = r.integers(lo, hi, int(np.prod(shape))).reshape(shape)
    return a.astype(dtype)


def fam_layout(seed):
    shape = [(2, 3), (3, 2), (3, 3), (2, 2)][seed % 4]
    dt = ["int64", "float64"][(seed // 4) % 2]

    def c():
        return _base(seed, shape, dt)

    def f():
        return np.asfortranarray(c())

    def fbytes():  # the buffer of the C array read in Fortran order: same bytes, other values
        return np.frombuffer(c().tobytes(), dtype=dt).reshape(shape, order="F")

    def fbytes_copy():
        return np.array(fbytes(), order="F")

    def strided():
        big = np.zeros((shape[0] * 2, shape[1]), dtype=dt)
        big[::2] = c()
        big[1::2] = 9
        return big[::2]

    def strided2():
        big = np.full((shape[0] * 2, shape[1]), 7, dtype=dt)
        big[::2] = c()
        return big[::2]

    def colstrided():
        big = np.zeros((shape[0], shape[1] * 2), dtype=dt)
        big[:, ::2] = c()
        return big[:, ::2]

    def tt():
        return c().T.copy().T

    def rev():
        return c()[::-1]

    def revrev():
        return c()[::-1][::-1]

    def readonly():
        a = c()
        a.setflags(write=False)
        return a

    return [("C", c), ("F-equal-values", f), ("F-same-bytes", fbytes), ("F-same-bytes-copy", fbytes_copy), ("row-strided-view", strided),
            ("row-strided-view-other-filler", strided2), ("col-strided-view", colstrided), ("T-of-T", tt), ("reversed-view", rev),
            ("reversed-twice", revrev), ("readonly", readonly)]


def fam_shape(seed):
    dt = ["int64", "float64"][seed % 2]
    out = []
    for shp in [(6,), (2, 3), (3, 2), (1, 6), (6, 1), (1, 2, 3)]:
        out.append(("shape" + "x".join(map(str, shp)), (lambda shp=shp: _base(seed, (6,), dt).reshape(shp))))
    return out


def fam_dtype(seed):
    """equal values under other dtypes; the same 8-byte words under other dtypes"""
    n = 4 + seed % 3
    out = []
    for dt in ("int64", "int32", "uint8", "float64", "float32", "bool", "complex128", "uint64", "int8", ">i8", "float16"):
        out.append(("values-as-" + dt, (lambda dt=dt: _base(seed, (n,), "int64", 0, 2).astype(dt))))
    for dt in ("int64", "uint64", "float64", "datetime64[ns]", "timedelta64[ns]", "datetime64[s]", "complex64", "int32", "S8", "U2"):
        def mk(dt=dt):
            raw = _base(seed, (n,), "int64", 1, 50)
            return raw.view(dt) if np.dtype(dt).itemsize != 8 else raw.view(dt)
        out.append(("bytes-as-" + dt, mk))
    return out


def fam_one_element(seed):
    shape = [(5,), (2, 3), (4,)][seed % 3]
    dt = ["int64", "float64"][(seed // 3) % 2]
    n = int(np.prod(shape))
    out = [("base", lambda: _base(seed, shape, dt))]
    for pos in (0, n // 2, n - 1):
        def mk(pos=pos):
            a = _base(seed, shape, dt)
            a.flat[pos] += 1
            return a
        out.append(("elem%s+1" % ("-first" if pos == 0 else "-last" if pos == n - 1 else "-mid"), mk))
    if dt == "float64":
        def negzero():
            a = _base(seed, shape, dt)
            a.flat[0] = 0.0
            return a

        def negzero2():
            a = _base(seed, shape, dt)
            a.flat[0] = -0.0
            return a

        def nan1():
            a = _base(seed, shape, dt)
            a.flat[0] = np.nan
            return a

        def nan2():
            a = _base(seed, shape, dt)
            a.view("uint64").flat[0] = 0x7FF8000000000001  # NaN with another payload
            return a
        out += [("zero", negzero), ("negative-zero", negzero2), ("nan", nan1), ("nan-other-payload", nan2)]
    return out


HYPHEN_SPLITS = [
    (["a-b", "c"], ["a", "b-c"]),
    (["x-y-z", "w"], ["x", "y-z-w"], ["x-y", "z-w"]),
    (["-", ""], ["", "-"]),
    (["a-", "b", "c"], ["a", "-b", "c"], ["a", "b-", "c"][::1]),
    (["k-1", "2"], ["k", "1-2"]),
]
OTHER_SPLITS = [
    (["ab", "c"], ["a", "bc"]),
    (["a b", "c"], ["a", "b c"]),
    (["a,b", "c"], ["a", "b,c"]),
    (["a", "b", ""], ["a", "", "b"], ["", "a", "b"]),
    (["a\x00b", "c"], ["a", "b\x00c"], ["a", "\x00bc"]),
    (["a_b", "c"], ["a", "b_c"]),
    (["ab", "cd"], ["abc", "d"], ["a", "bcd"]),
    (["é", "e"], ["é", "e"]),
    (["1", "2"], ["12", ""], ["", "12"]),
]


def fam_strings_hyphen(seed):
    grp = HYPHEN_SPLITS[seed % len(HYPHEN_SPLITS)]
    return [("split%d" % i, (lambda s=s: np.array(s, dtype=object))) for i, s in enumerate(grp)]


def fam_strings(seed):
    grp = OTHER_SPLITS[seed % len(OTHER_SPLITS)]
    out = []
    for i, s in enumerate(grp):
        out.append(("object-split%d" % i, (lambda s=s: np.array(s, dtype=object))))
    for i, s in enumerate(grp):
        out.append(("U-split%d" % i, (lambda s=s: np.array(s))))
    s0 = grp[0]
    out.append(("object-bytes", lambda: np.array([x.encode("utf8") for x in s0], dtype=object)))
    out.append(("S-bytes", lambda: np.array([x.encode("utf8") for x in s0])))
    out.append(("object-mixed", lambda: np.array([s0[0], 1][: len(s0)] + list(s0[2:]), dtype=object)))
    return out


def fam_objects(seed):
    """object arrays whose elements are near-identical Python objects"""
    groups = [
        [[1, 2], [1.0, 2.0], [True, 2], ["1", "2"], [1, None]],
        [[(1, 2), (3,)], [(1,), (2, 3)], [[1, 2], [3]]],
        [[None, "a"], ["None", "a"], [np.nan, "a"]],
        [[b"a", b"b"], ["a", "b"], [b"a-b", b"c"], [b"a", b"b-c"]],
    ]
    grp = groups[seed % len(groups)]

    def mk(s):
        a = np.empty(len(s), dtype=object)
        for i, v in enumerate(s):
            a[i] = v
        return a
    return [("objs%d" % i, (lambda s=s: mk(s))) for i, s in enumerate(grp)]


def fam_masked(seed):
    def m(mask, fill=None, hidden=None):
        def mk():
            d = _base(seed, (4,), "int64")
            if hidden is not None:
                d[1] = hidden
            return np.ma.masked_array(d, mask=mask, fill_value=fill)
        return mk
    return [("mask0100", m([0, 1, 0, 0])), ("mask0010", m([0, 0, 1, 0])), ("mask0100-fill7", m([0, 1, 0, 0], 7)),
            ("nomask", m([0, 0, 0, 0])), ("nomask-scalar", m(False)), ("mask0100-other-hidden-value", m([0, 1, 0, 0], None, 99))]


class MemmapFiles:
    """a few small files; memmaps of one file under other dtypes / shapes / offsets"""

    def __init__(self, directory):
        self.dir = directory
        self.paths = {}

    def path(self, seed):
        k = seed % 3
        if k not in self.paths:
            p = os.path.join(self.dir, "c13-%d.bin" % k)
            np.arange(1 + k, 7 + k, dtype="int64").tofile(p)
            self.paths[k] = p
        return self.paths[k]

    def family(self, seed):
        p = self.path(seed)
        out = []
        for dt, shp in (("int64", (6,)), ("int64", (2, 3)), ("int64", (3, 2)), ("float64", (6,)), ("float64", (2, 3)), ("uint64", (6,)),
                        ("int32", (12,)), ("int32", (2, 6))):
            out.append(("memmap-%s-%s" % (dt, "x".join(map(str, shp))), (lambda dt=dt, shp=shp: np.memmap(p, dtype=dt, mode="r", shape=shp))))
        out.append(("memmap-F-order", lambda: np.memmap(p, dtype="int64", mode="r", shape=(2, 3), order="F")))
        out.append(("memmap-offset8", lambda: np.memmap(p, dtype="int64", mode="r", shape=(5,), offset=8)))
        out.append(("ndarray-of-file", lambda: np.fromfile(p, dtype="int64")))
        return out


NUMPY_FAMILIES = {
    "layout": fam_layout,
    "shape": fam_shape,
    "dtype": fam_dtype,
    "one-element": fam_one_element,
    "strings-resplit-at-hyphen": fam_strings_hyphen,
    "strings-resplit": fam_strings,
    "object-elements": fam_objects,
    "masked": fam_masked,
}


# ---------------------------------------------------------------------------------------------------------------
# pandas families (built lazily: pandas import only when needed)

def fam_index(seed):
    import pandas as pd

    vals = _base(seed, (4,), "int64").tolist()

    def df(index=None, cols=("a", "b"), second=None, name=None):
        def mk():
            d = pd.DataFrame({cols[0]: list(vals), cols[1]: second if second is not None else [0.5, 1.5, 2.5, 3.5]})
            if index is not None:
                d.index = index() if callable(index) else index
            if name is not None:
                d.index.name = name
            return d
        return mk
    return [
        ("rangeindex", df()),
        ("int-index-0123", df(lambda: pd.Index([0, 1, 2, 3]))),
        ("float-index-0123", df(lambda: pd.Index([0.0, 1.0, 2.0, 3.0]))),
        ("int-index-1234", df(lambda: pd.Index([1, 2, 3, 4]))),
        ("rangeindex-1-5", df(lambda: pd.RangeIndex(1, 5))),
        ("index-named-a", df(name="a")),
        ("index-named-idx", df(name="idx")),
        ("str-index", df(lambda: pd.Index(["w", "x", "y", "z"]))),
        ("str-index-other", df(lambda: pd.Index(["w", "x", "y", "zz"]))),
        ("datetime-index", df(lambda: pd.date_range("2000-01-01", periods=4))),
        ("datetime-index-other-freq", df(lambda: pd.date_range("2000-01-01", periods=4, freq="2D"))),
        ("cols-ba", df(cols=("b", "a"))),
        ("cols-a-c", df(cols=("a", "c"))),
        ("second-col-int", df(second=[0, 1, 2, 3])),
        ("second-col-other-float", df(second=[0.5, 1.5, 2.5, 3.0])),
    ]


def fam_pandas_strings(seed):
    """the hyphen re-split inside pandas containers: values, index, columns, categories"""
    import pandas as pd

    grp = HYPHEN_SPLITS[seed % len(HYPHEN_SPLITS)]
    n = len(grp[0])
    where = ["values", "index", "columns", "categorical", "series-values"][(seed // len(HYPHEN_SPLITS)) % 5]

    def mk(s):
        def f():
            if where == "values":
                return pd.DataFrame({"s": list(s), "n": list(range(n))})
            if where == "index":
                return pd.DataFrame({"n": list(range(n))}, index=pd.Index(list(s)))
            if where == "columns":
                return pd.DataFrame([list(range(n))], columns=list(s))
            if where == "categorical":
                return pd.DataFrame({"s": pd.Categorical(list(s)), "n": list(range(n))})
            return pd.Series(list(s), name="s")
        return f
    return [("%s-split%d" % (where, i), mk(s)) for i, s in enumerate(grp) if len(s) == n]


def fam_pandas_strings_other(seed):
    import pandas as pd

    grp = OTHER_SPLITS[seed % len(OTHER_SPLITS)]
    n = len(grp[0])
    where = ["values", "index", "columns", "categorical"][(seed // len(OTHER_SPLITS)) % 4]

    def mk(s):
        def f():
            if where == "values":
                return pd.DataFrame({"s": list(s), "n": list(range(n))})
            if where == "index":
                return pd.DataFrame({"n": list(range(n))}, index=pd.Index(list(s)))
            if where == "columns":
                return pd.DataFrame([list(range(n))], columns=list(s))
            return pd.DataFrame({"s": pd.Categorical(list(s)), "n": list(range(n))})
        return f
    return [("%s-split%d" % (where, i), mk(s)) for i, s in enumerate(grp) if len(s) == n and len(set(s)) == n]


def fam_columns_permuted(seed):
    """the same column data under the same column labels, assigned in another order (dtype blocks keep their content)"""
    import itertools

    import pandas as pd

    data = [("i1", [1, 2, 3]), ("f1", [0.5, 1.5, 2.5]), ("i2", [4, 5, 6]), ("f2", [3.5, 4.5, 5.5])]
    n = 3 + seed % 2
    out = []
    for perm in list(itertools.permutations(range(n)))[:: (1 if n == 3 else 4)]:
        def mk(perm=perm):
            return pd.DataFrame({c: list(data[p][1]) for c, p in zip("abcd", perm)})
        out.append(("cols-" + "".join(data[p][0] for p in perm), mk))
    return out


PANDAS_FAMILIES = {
    "column-data-permuted": fam_columns_permuted,
    "index-or-columns": fam_index,
    "pandas-strings-resplit-at-hyphen": fam_pandas_strings,
    "pandas-strings-resplit": fam_pandas_strings_other,
}


# ---------------------------------------------------------------------------------------------------------------
# pandas data that is unequal but similar: categoricals, nullable vs numpy dtypes, object vs str, axis names,
# MultiIndex level order, time zones, column order

def _frame(col, n, where="column", name="k"):
    """a small frame holding `col` as a column (next to an int column) or as its index"""
    import pandas as pd

    if where == "column":
        return pd.DataFrame({name: col, "v": list(range(1, n + 1))})
    if where == "series":
        return pd.Series(col, name=name)
    return pd.DataFrame({"v": list(range(1, n + 1))}, index=pd.Index(col, name=name))


def fam_categorical(seed):
    """identical codes over permuted categories, the same labels over permuted categories, ordered vs unordered, the
    labels as object / str, an unused category, other category dtype; as a column (seed % 3 == 0), a Series or a
    CategoricalIndex"""
    import pandas as pd

    where = ("column", "index", "series")[seed % 3]
    cats = [["a", "b"], ["a", "b", "c"], ["x", "y"], [1, 2], ["b", "a"]][(seed // 3) % 5]
    r = np.random.default_rng(seed)
    n = 4 + seed % 3
    codes = [int(c) for c in r.integers(0, len(cats), n)]
    codes[0], codes[1] = 0, len(cats) - 1        # both ends are used: a permutation changes the labels
    rev = list(reversed(cats))
    rot = cats[1:] + cats[:1]
    labels = [cats[c] for c in codes]

    def mk(f):
        return lambda: _frame(f(), n, where)
    out = [
        ("codes-over-categories", mk(lambda: pd.Categorical.from_codes(codes, categories=cats))),
        ("same-codes-over-reversed-categories", mk(lambda: pd.Categorical.from_codes(codes, categories=rev))),
        ("same-codes-over-rotated-categories", mk(lambda: pd.Categorical.from_codes(codes, categories=rot))),
        ("same-labels-over-reversed-categories", mk(lambda: pd.Categorical(labels, categories=rev))),
        ("ordered", mk(lambda: pd.Categorical.from_codes(codes, categories=cats, ordered=True))),
        ("ordered-same-codes-over-reversed-categories", mk(lambda: pd.Categorical.from_codes(codes, categories=rev, ordered=True))),
        ("ordered-same-labels-over-reversed-categories", mk(lambda: pd.Categorical(labels, categories=rev, ordered=True))),
        ("labels-as-object", mk(lambda: np.array(labels, dtype=object))),
        ("extra-unused-category", mk(lambda: pd.Categorical(labels, categories=cats + ["zz" if isinstance(cats[0], str) else 99]))),
        ("codes-as-integers", mk(lambda: np.array(codes, dtype="int64"))),
    ]
    if isinstance(cats[0], str):
        out.append(("labels-as-str-dtype", mk(lambda: pd.array(labels, dtype="str"))))
        out.append(("categories-as-object-index", mk(lambda: pd.Categorical.from_codes(codes, categories=pd.Index(cats, dtype=object)))))
    else:
        out.append(("float-categories", mk(lambda: pd.Categorical.from_codes(codes, categories=[float(c) for c in cats]))))
    return out


def fam_nullable(seed):
    """the same numbers under numpy and nullable dtypes, with and without a missing element"""
    import pandas as pd

    where = ("column", "index", "series")[seed % 3]
    n = 4 + seed % 2
    vals = [int(v) for v in _base(seed, (n,), "int64", 0, 3)]
    missing = (seed // 3) % 2 == 1
    k = 1 + seed % (n - 1)

    def mk(f):
        return lambda: _frame(f(), n, where)
    if not missing:
        return [
            ("int64", mk(lambda: np.array(vals, dtype="int64"))),
            ("Int64", mk(lambda: pd.array(vals, dtype="Int64"))),
            ("Int32", mk(lambda: pd.array(vals, dtype="Int32"))),
            ("int32", mk(lambda: np.array(vals, dtype="int32"))),
            ("UInt8", mk(lambda: pd.array(vals, dtype="UInt8"))),
            ("float64", mk(lambda: np.array(vals, dtype="float64"))),
            ("Float64", mk(lambda: pd.array([float(v) for v in vals], dtype="Float64"))),
            ("object-ints", mk(lambda: np.array(vals, dtype=object))),
            ("bool", mk(lambda: np.array([bool(v) for v in vals]))),
            ("boolean", mk(lambda: pd.array([bool(v) for v in vals], dtype="boolean"))),
            ("int-from-bool", mk(lambda: np.array([int(bool(v)) for v in vals], dtype="int64"))),
        ]
    def withna(na, conv=lambda v: v):
        return [na if i == k else conv(v) for i, v in enumerate(vals)]

    def masked_after():
        a = pd.array(vals, dtype="Int64")
        a[k] = pd.NA
        return a
    return [
        ("Int64-NA", mk(lambda: pd.array(withna(pd.NA), dtype="Int64"))),
        ("Int64-NA-masked-after-holding-a-value", mk(masked_after)),
        ("Float64-NA", mk(lambda: pd.array(withna(pd.NA, float), dtype="Float64"))),
        ("float64-nan", mk(lambda: np.array(withna(np.nan, float), dtype="float64"))),
        ("object-None", mk(lambda: np.array(withna(None), dtype=object))),
        ("object-nan", mk(lambda: np.array(withna(np.nan), dtype=object))),
        ("object-NA", mk(lambda: np.array(withna(pd.NA), dtype=object))),
        ("Int64-other-missing-position", mk(lambda: pd.array([pd.NA if i == (k + 1) % n else v for i, v in enumerate(vals)], dtype="Int64"))),
        ("Int64-zero-instead-of-NA", mk(lambda: pd.array(withna(0), dtype="Int64"))),
        ("Int32-NA", mk(lambda: pd.array(withna(pd.NA), dtype="Int32"))),
    ]


def fam_strings_dtype(seed):
    """the same strings as object / str / string / categorical / bytes-free numpy U data, missing as None / NaN / NA"""
    import pandas as pd

    where = ("column", "index", "series")[seed % 3]
    words = [["a", "b", "a", "c"], ["ab", "c", "ab", "d"], ["x", "y", "z", "x"], ["1", "2", "1", "3"]][(seed // 3) % 4]
    n = len(words)
    missing = (seed // 12) % 2 == 1

    def mk(f):
        return lambda: _frame(f(), n, where, name="s")
    if not missing:
        return [
            ("object", mk(lambda: np.array(words, dtype=object))),
            ("str", mk(lambda: pd.array(words, dtype="str"))),
            ("string", mk(lambda: pd.array(words, dtype="string"))),
            ("categorical", mk(lambda: pd.Categorical(words))),
            ("numpy-U", mk(lambda: np.array(words))),
            ("object-with-int", mk(lambda: np.array([int(w) if w.isdigit() else w for w in words], dtype=object))),
            ("object-bytes", mk(lambda: np.array([w.encode() for w in words], dtype=object))),
            ("object-last-differs", mk(lambda: np.array(words[:-1] + [words[-1] + "!"], dtype=object))),
        ]
    def withna(na):
        return [na] + words[1:]
    return [
        ("object-None", mk(lambda: np.array(withna(None), dtype=object))),
        ("object-nan", mk(lambda: np.array(withna(np.nan), dtype=object))),
        ("object-NA", mk(lambda: np.array(withna(pd.NA), dtype=object))),
        ("str-nan", mk(lambda: pd.array(withna(None), dtype="str"))),
        ("string-NA", mk(lambda: pd.array(withna(None), dtype="string"))),
        ("object-literal-None-string", mk(lambda: np.array(withna("None"), dtype=object))),
        ("object-literal-nan-string", mk(lambda: np.array(withna("nan"), dtype=object))),
        ("categorical-missing", mk(lambda: pd.Categorical(withna(None)))),
    ]


def fam_axis_names(seed):
    """the same values under other index / columns / Series names"""
    import pandas as pd

    vals = [int(v) for v in _base(seed, (4,), "int64")]
    series = seed % 3 == 2

    def df(index_name=None, columns_name=None, index=None, sname="a"):
        def mk():
            if series:
                d = pd.Series(list(vals), name=sname, index=None if index is None else index())
            else:
                d = pd.DataFrame({"a": list(vals), "b": [0.5, 1.5, 2.5, 3.5]}, index=None if index is None else index())
                if columns_name is not None:
                    d.columns.name = columns_name
            if index_name is not None:
                d.index.name = index_name
            return d
        return mk
    out = [
        ("unnamed", df()),
        ("index-named-a", df("a")),
        ("index-named-b", df("b")),
        ("index-named-idx", df("idx")),
        ("index-named-0", df(0)),
        ("index-named-tuple", df(("a", 1))),
        ("index-named-empty-string", df("")),
        ("int-index-named-idx", df("idx", index=lambda: pd.Index([0, 1, 2, 3]))),
        ("int-index-unnamed", df(index=lambda: pd.Index([0, 1, 2, 3]))),
    ]
    if series:
        out += [("series-named-b", df(sname="b")), ("series-unnamed", df(sname=None)), ("series-named-0", df(sname=0))]
    else:
        out += [("columns-named-a", df(columns_name="a")), ("columns-named-c", df(columns_name="c")),
                ("columns-and-index-named", df("idx", "c"))]
    return out


def fam_multiindex(seed):
    """MultiIndex level order, names, unused levels, level dtype; on the rows or on the columns"""
    import pandas as pd

    on_columns = seed % 4 == 3
    # column labels stay unique: dask.dataframe does not support duplicated column labels (x[label] of a duplicated label
    # already differs from pandas when computed alone); row labels may repeat
    l0 = [1, 1, 2, 2] if on_columns else [[1, 1, 2, 2], [1, 2, 1, 2], [1, 1, 1, 2]][(seed // 4) % 3]
    l1 = ["a", "b", "a", "b"]
    vals = [int(v) for v in _base(seed, (4,), "int64")]

    def df(mi):
        def mk():
            m = mi()
            if on_columns:
                return pd.DataFrame([list(vals), [v + 1 for v in vals]], columns=m)
            return pd.DataFrame({"v": list(vals), "w": [0.5, 1.5, 2.5, 3.5]}, index=m)
        return mk

    def unused():
        m = pd.MultiIndex.from_arrays([l0 + [9], l1 + ["z"]], names=["p", "q"])
        return m[:4]
    return [
        ("levels-p-q", df(lambda: pd.MultiIndex.from_arrays([l0, l1], names=["p", "q"]))),
        ("levels-swapped-with-names", df(lambda: pd.MultiIndex.from_arrays([l1, l0], names=["q", "p"]))),
        ("levels-swapped-names-kept", df(lambda: pd.MultiIndex.from_arrays([l1, l0], names=["p", "q"]))),
        ("names-swapped", df(lambda: pd.MultiIndex.from_arrays([l0, l1], names=["q", "p"]))),
        ("unnamed", df(lambda: pd.MultiIndex.from_arrays([l0, l1]))),
        ("from-tuples", df(lambda: pd.MultiIndex.from_tuples(list(zip(l0, l1)), names=["p", "q"]))),
        ("unused-level-entries", df(unused)),
        ("first-level-float", df(lambda: pd.MultiIndex.from_arrays([[float(x) for x in l0], l1], names=["p", "q"]))),
        ("first-level-str", df(lambda: pd.MultiIndex.from_arrays([[str(x) for x in l0], l1], names=["p", "q"]))),
        ("flat-index-of-tuples", df(lambda: pd.Index(list(zip(l0, l1)), tupleize_cols=False))),
        ("second-level-reversed", df(lambda: pd.MultiIndex.from_arrays([l0, l1[::-1]], names=["p", "q"]))),
        ("same-codes-over-reversed-level", df(lambda: pd.MultiIndex(levels=[sorted(set(l0)), ["b", "a"]],
                                                                   codes=[[sorted(set(l0)).index(x) for x in l0], [0, 1, 0, 1]], names=["p", "q"]))),
    ]


def fam_timezones(seed):
    """the same wall clock times naive / in UTC / in other zones, the same instants in another zone, other units"""
    import pandas as pd

    where = ("column", "index", "series")[seed % 3]
    start = ["2001-01-01 00:00", "2001-06-01 12:00", "2001-03-25 00:30"][(seed // 3) % 3]
    n = 4

    def wall():
        return pd.date_range(start, periods=n, freq="6h")

    def mk(f):
        return lambda: _frame(f(), n, where, name="t")
    return [
        ("naive", mk(wall)),
        ("wall-time-in-UTC", mk(lambda: wall().tz_localize("UTC"))),
        ("wall-time-in-London", mk(lambda: wall().tz_localize("Europe/London"))),
        ("wall-time-in-New_York", mk(lambda: wall().tz_localize("America/New_York"))),
        ("UTC-instants-shown-in-London", mk(lambda: wall().tz_localize("UTC").tz_convert("Europe/London"))),
        ("UTC-instants-shown-in-New_York", mk(lambda: wall().tz_localize("UTC").tz_convert("America/New_York"))),
        ("wall-time-fixed-offset", mk(lambda: wall().tz_localize("+01:00"))),
        ("naive-unit-s", mk(lambda: wall().as_unit("s"))),
        ("naive-unit-ns", mk(lambda: wall().as_unit("ns"))),
        ("naive-as-int64", mk(lambda: wall().as_unit("ns").asi8)),
        ("naive-as-object", mk(lambda: wall().astype(object))),
        ("naive-as-strings", mk(lambda: np.array([str(t) for t in wall()], dtype=object))),
        ("naive-without-freq", mk(lambda: pd.DatetimeIndex(list(wall())))),
    ]


def fam_column_order(seed):
    """the same (name -> data) mapping listed in another column order; duplicated / renamed columns"""
    import itertools

    import pandas as pd

    n = 3 + seed % 2
    data = {"a": [int(v) for v in _base(seed, (n,), "int64")], "b": [0.5 + i for i in range(n)], "c": [int(v) for v in _base(seed + 1, (n,), "int64")],
            "d": ["x", "y", "z", "w"][:n]}
    cols = ["a", "b", "c", "d"][: 3 + (seed // 2) % 2]
    out = []
    perms = list(itertools.permutations(cols))
    step = 1 if len(cols) == 3 else 5
    for perm in perms[::step]:
        out.append(("columns-" + "".join(perm), (lambda perm=perm: pd.DataFrame({c: list(data[c]) for c in perm}))))
    out.append(("columns-reordered-by-getitem", lambda: pd.DataFrame({c: list(data[c]) for c in cols})[list(reversed(cols))]))
    out.append(("same-data-first-two-names-swapped", lambda: pd.DataFrame({c: list(data[c]) for c in cols}).rename(columns={cols[0]: cols[1], cols[1]: cols[0]})))
    return out


PANDAS_FAMILIES.update({
    "categorical": fam_categorical,
    "nullable-vs-numpy": fam_nullable,
    "object-vs-str": fam_strings_dtype,
    "axis-names": fam_axis_names,
    "multiindex": fam_multiindex,
    "timezones": fam_timezones,
    "column-order": fam_column_order,
})
PANDAS_SIMILAR = ("categorical", "nullable-vs-numpy", "object-vs-str", "axis-names", "multiindex", "timezones", "column-order")


# ---------------------------------------------------------------------------------------------------------------
# plain Python sequences / arguments (bags, delayed)

PYSEQ_GROUPS = [
    [[1, 2, 3], [1, 2, 3.0], [True, 2, 3], [1, 2, "3"], (1, 2, 3), [1, 2, 3, 3][:3] + [], [3, 2, 1]],
    [["a-b", "c"], ["a", "b-c"], ["a-b-c"], ["a", "b", "c"]],
    [["ab", "c"], ["a", "bc"], ["abc"], "abc"],
    [[(1, 2), (3,)], [(1,), (2, 3)], [[1, 2], [3]], [(1, 2, 3)]],
    [[{"a": 1}, {"b": 2}], [{"a": 1, "b": 2}], [{"a": 1.0}, {"b": 2}], [{"b": 2}, {"a": 1}]],
    [[0.0, 1.0], [-0.0, 1.0], [0, 1], [False, True]],
    [[None, 1], ["None", 1], [float("nan"), 1]],
    [[b"ab", "c"], ["ab", b"c"], ["ab", "c"], [b"ab", b"c"]],
    [list(range(6)), list(range(1, 7)), [0, 1, 2, 3, 4, 6], list(range(5))],
]


def fam_pyseq(seed):
    grp = PYSEQ_GROUPS[seed % len(PYSEQ_GROUPS)]
    import copy

    return [("seq%d" % i, (lambda s=s: copy.deepcopy(s))) for i, s in enumerate(grp)]


PY_FAMILIES = {"python-sequences": fam_pyseq}
