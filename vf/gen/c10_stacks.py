"""C10 helper: random stacks of blockwise layers built through the public dask.array API.

A stack is rebuilt deterministically from (pseed, nops, dtype, annotation list).  Every step is one
dask.array call (elementwise, transpose, contraction, broadcasting, new axes, concatenate=True,
map_blocks with block_id / block_info, BlockwiseDep roots); the names of the steps are returned as the
trace that goes into the distinctness signature and the labels.

Block functions are module level so that their tokens are deterministic.
"""
from __future__ import annotations

import random

import numpy as np


# ---------------------------------------------------------------------------------------------
# block functions

def f_neg(b):
    return -b


def f_add2(a, b):
    return a + 2 * b


def f_mix_t(a, b):
    # used with (x, 'ij'), (x, 'ji'): b is the (j, i) block of the same array
    return a - 3 * b.T


def f_addaxis(b, ax=0):
    return np.expand_dims(b, ax)


def f_sumaxis(b, ax=0):
    return b.sum(axis=ax)


def f_blockid(b, block_id=None):
    return b + sum((i + 1) * 10 ** p for p, i in enumerate(block_id))


def f_blockinfo(b, block_info=None):
    info = block_info[0]
    loc = info["array-location"]
    return b + (loc[0][0] * 100 if loc else 0) + sum(info["num-chunks"])


def f_root(block_id=None, block_info=None, dtype="int64"):
    shape = tuple(block_info[None]["chunk-shape"])
    base = sum((i + 1) * 7 ** (p + 1) for p, i in enumerate(block_id))
    n = int(np.prod(shape)) if shape else 1
    return (base + np.arange(n)).reshape(shape).astype(dtype)


def f_cat_matmul(a, b):
    return a @ b


def f_list_matmul(al, bl):
    out = None
    for a, b in zip(al, bl):
        out = a @ b if out is None else out + a @ b
    return out


def f_cat_sumlast(a):
    return a.sum(axis=-1)


def f_list_sumlast(al):
    out = None
    for a in al:
        out = a.sum(axis=-1) if out is None else out + a.sum(axis=-1)
    return out


def f_tile(a, n=2):
    return np.repeat(a[..., None], n, axis=-1) + np.arange(n)


def f_add3(a, b, c=0):
    return a + 2 * b + 3 * c


def f_addk(a, k=0):
    return a + k


def f_lit(a, lit, k=1):
    return a * k + lit


def _seven():
    return 7


class ArrLike:
    """Minimal array-like (not an ndarray): from_array builds a Blockwise layer with an ArraySliceDep for it."""

    def __init__(self, a, tag):
        self.a = a
        self.shape = a.shape
        self.dtype = a.dtype
        self.ndim = a.ndim
        self.tag = tag

    def __getitem__(self, idx):
        return self.a[idx]

    def __dask_tokenize__(self):
        return ("c10-arrlike", self.tag)


# ---------------------------------------------------------------------------------------------

ROOTS = ("np", "np", "arrlike", "arrlike_inline", "ones", "full", "blockid_root")


def _data(seed, shape, dtype):
    r = np.random.default_rng(seed)
    n = int(np.prod(shape)) if shape else 1
    if dtype == "float64":
        return (r.integers(-8, 9, n) / 2).reshape(shape)
    return r.integers(-5, 6, n).astype(dtype).reshape(shape)


def _comp(rng, n, maxparts=3):
    """random chunking of one axis with at most maxparts chunks"""
    if n <= 1 or rng.random() < 0.25:
        return (n,)
    k = rng.randint(2, min(n, maxparts))
    cuts = sorted(rng.sample(range(1, n), k - 1))
    b = [0] + cuts + [n]
    return tuple(y - x for x, y in zip(b, b[1:]))


class Stack:
    def __init__(self, desc):
        import dask
        import dask.array as da

        self.dask, self.da = dask, da
        self.desc = desc
        self.rng = random.Random(desc["pseed"])
        self.dtype = desc.get("dtype", "int64")
        self.anns = desc.get("anns") or []
        self.trace = []
        self.nroot = 0
        self.pool = []

    # -- roots -------------------------------------------------------------------------------
    def root(self, shape, chunks, kind=None, ann=None):
        da, rng = self.da, self.rng
        kind = kind or rng.choice(ROOTS)
        self.nroot += 1
        seed = self.desc["pseed"] * 31 + self.nroot
        with self._annotate(ann):
            if kind == "np":
                x = da.from_array(_data(seed, shape, self.dtype), chunks=chunks)
            elif kind in ("arrlike", "arrlike_inline"):
                x = da.from_array(ArrLike(_data(seed, shape, self.dtype), (seed, tuple(shape), self.dtype)), chunks=chunks,
                                  inline_array=(kind == "arrlike_inline"))
            elif kind == "ones":
                x = da.ones(shape, chunks=chunks, dtype=self.dtype)
            elif kind == "full":
                x = da.full(shape, 3, chunks=chunks, dtype=self.dtype)
            else:
                x = da.map_blocks(f_root, chunks=chunks, dtype=self.dtype, meta=np.empty((0,) * len(shape), dtype=self.dtype))
        self.trace.append("root:" + kind)
        return x

    def _annotate(self, ann):
        import contextlib

        if ann:
            return self.dask.annotate(**ann)
        return contextlib.nullcontext()

    # -- ops ---------------------------------------------------------------------------------
    def step(self, cur, i):
        """apply one random op to cur (under the i-th annotation); returns the new array"""
        da, rng = self.da, self.rng
        ann = self.anns[i] if i < len(self.anns) else None
        nd = cur.ndim
        nblocks = int(np.prod(cur.numblocks)) if nd else 1
        square_sym = nd == 2 and cur.chunks[0] == cur.chunks[1]
        ops = ["neg", "addc", "mulc", "bw_lit", "blockid", "kw_delayed"]
        if nd >= 1:
            ops += ["blockinfo", "bcast_vec", "bcast_vec"]
        if nd >= 2:
            ops += ["T", "T", "transpose", "drop_mb", "cat_sumlast", "list_sumlast", "bcast_col"]
        if nd == 2:
            ops += ["cat_matmul", "list_matmul", "tensordot", "tensordot_root"]
        if square_sym:
            ops += ["addT", "addT", "bw_twice", "bw_twice", "bw_twice_tfirst"]
        if nd <= 2 and nblocks <= 12:
            ops += ["newaxis_mb", "tile", "tile_chunks", "getitem_none"]
        if len(self.pool) >= 2:
            ops += ["bin_prev", "bin_prev"]
        if nd == 1:
            ops += ["outer"]
        if 1 <= nd <= 2:
            ops += ["sib_contract"] * 4
        if self.desc.get("chain_only"):
            ops = ["neg", "addc", "mulc"] + (["T"] if nd >= 2 else [])
        op = rng.choice(ops)
        # roots for partner operands are built outside the step's annotation half of the time
        rann = ann if rng.random() < 0.5 else None
        ind = tuple("ijk"[:nd])
        other = None
        if op == "bcast_vec":
            other = self.root((cur.shape[-1],), (cur.chunks[-1],), ann=rann)
        elif op == "bcast_col":
            other = self.root((cur.shape[-2], 1), (cur.chunks[-2], (1,)), ann=rann)
        elif op in ("cat_matmul", "list_matmul"):
            m = rng.randint(1, 3)
            other = self.root((cur.shape[1], m), (cur.chunks[1], _comp(rng, m, 2)), ann=rann)
        elif op == "tensordot_root":
            m = rng.randint(1, 3)
            other = self.root((m, cur.shape[1]), (_comp(rng, m, 2), cur.chunks[1]), ann=rann)
        elif op == "sib_contract":
            # 2-3 SIBLING contraction layers (each contracts an index absent from its output) feeding one parent;
            # contracted axes chunked differently (single block vs N blocks), index letters equal or different
            nsib = rng.choice((2, 2, 3))
            cat = rng.random() < 0.3
            same_letter = rng.random() < 0.5
            flavours = [rng.choice(("one", "many", "many")) for _ in range(nsib)]
            if len(set(flavours)) == 1 and rng.random() < 0.8:
                flavours[rng.randrange(nsib)] = "one" if flavours[0] == "many" else "many"
            sibs = []
            for j, fl in enumerate(flavours):
                m = rng.randint(2, 6) if fl == "many" else rng.randint(1, 3)
                if fl == "one":
                    comp = (m,)
                else:
                    k = rng.randint(2, min(m, 4))
                    cuts = sorted(rng.sample(range(1, m), k - 1))
                    b = [0] + cuts + [m]
                    comp = tuple(y - x for x, y in zip(b, b[1:]))
                r = self.root(tuple(cur.shape) + (m,), tuple(cur.chunks) + (comp,), ann=rann)
                letter = "z" if same_letter else "zyw"[j]
                sibs.append((r, letter, len(comp)))
            other = (sibs, cat, same_letter)
        with self._annotate(ann):
            if op == "neg":
                z = -cur
            elif op == "addc":
                z = cur + rng.randint(1, 3)
            elif op == "mulc":
                z = cur * 2
            elif op == "T":
                z = cur.T
            elif op == "transpose":
                perm = list(range(nd))
                rng.shuffle(perm)
                z = cur.transpose(perm)
                op += ":" + "".join(map(str, perm))
            elif op == "addT":
                z = cur + cur.T
            elif op == "bw_twice":
                z = da.blockwise(f_mix_t, "ij", cur, "ij", cur, "ji", dtype=cur.dtype)
            elif op == "bw_twice_tfirst":
                t = cur.T
                z = da.blockwise(f_mix_t, "ij", t, "ij", cur, "ji", dtype=cur.dtype)
            elif op == "bin_prev":
                cands = [p for p in self.pool[:-1] if p.shape == cur.shape and p.chunks == cur.chunks]
                if cands:
                    z = da.blockwise(f_add2, ind, cur, ind, rng.choice(cands), ind, dtype=cur.dtype)
                else:
                    z = cur - 1
                    op = "addc"
            elif op == "bcast_vec":
                z = cur + other
            elif op == "bcast_col":
                z = cur * other
            elif op == "cat_matmul" or op == "list_matmul":
                if op == "cat_matmul":
                    z = da.blockwise(f_cat_matmul, "ik", cur, "ij", other, "jk", concatenate=True, dtype=cur.dtype)
                else:
                    z = da.blockwise(f_list_matmul, "ik", cur, "ij", other, "jk", dtype=cur.dtype)
            elif op == "tensordot":
                z = da.tensordot(cur, cur.T, axes=1)
            elif op == "tensordot_root":
                z = da.tensordot(cur, other, axes=((1,), (1,)))
            elif op == "cat_sumlast":
                z = da.blockwise(f_cat_sumlast, ind[:-1], cur, ind, concatenate=True, dtype=cur.dtype)
            elif op == "list_sumlast":
                z = da.blockwise(f_list_sumlast, ind[:-1], cur, ind, dtype=cur.dtype)
            elif op == "drop_mb":
                ax = rng.randrange(nd)
                z = cur.map_blocks(f_sumaxis, ax=ax, drop_axis=ax, dtype=cur.dtype)
                op += ":%d" % ax
            elif op == "newaxis_mb":
                ax = rng.randint(0, nd)
                z = cur.map_blocks(f_addaxis, ax=ax, new_axis=ax, dtype=cur.dtype)
                op += ":%d" % ax
            elif op == "tile":
                z = da.blockwise(f_tile, ind + ("z",), cur, ind, new_axes={"z": 2}, dtype=cur.dtype, n=2)
            elif op == "tile_chunks":
                # a new axis with two blocks: every block function call produces length 2
                z = da.blockwise(f_tile, ind + ("z",), cur, ind, new_axes={"z": (2, 2)}, dtype=cur.dtype, n=2)
            elif op == "getitem_none":
                z = cur[None] if rng.random() < 0.5 else cur[..., None]
            elif op == "blockid":
                z = cur.map_blocks(f_blockid, dtype=cur.dtype)
            elif op == "blockinfo":
                z = cur.map_blocks(f_blockinfo, dtype=cur.dtype)
            elif op == "bw_lit":
                z = da.blockwise(f_lit, ind, cur, ind, 5, None, dtype=cur.dtype, k=2)
            elif op == "kw_delayed":
                d = self.dask.delayed(_seven, pure=True)()
                z = da.blockwise(f_addk, ind, cur, ind, dtype=cur.dtype, k=d)
            elif op == "outer":
                z = da.outer(cur, cur)
            elif op == "sib_contract":
                sibs, cat, same_letter = other
                outs = []
                for r, letter, _nb in sibs:
                    if cat:
                        outs.append(da.blockwise(f_cat_sumlast, ind, r, ind + (letter,), concatenate=True, dtype=cur.dtype))
                    else:
                        outs.append(da.blockwise(f_list_sumlast, ind, r, ind + (letter,), dtype=cur.dtype))
                how = rng.choice(("operators", "blockwise", "blockwise_with_cur"))
                if how == "operators":
                    z = outs[0] + 2 * outs[1] if len(outs) == 2 else outs[0] + 2 * outs[1] - outs[2]
                elif how == "blockwise" or len(outs) == 3:
                    args = [a for o in outs for a in (o, ind)]
                    z = da.blockwise(f_add3, ind, *args, dtype=cur.dtype)
                else:
                    z = da.blockwise(f_add3, ind, cur, ind, outs[0], ind, outs[1], ind, dtype=cur.dtype)
                op += ":%s:%s:%s:blocks%s" % ("concatenate" if cat else "lists", "same-letter" if same_letter else "other-letters", how,
                                             "-".join("1" if nb == 1 else "N" for _, _, nb in sibs))
            else:  # pragma: no cover
                raise AssertionError(op)
        self.trace.append(op)
        return z

    # -- whole stack ---------------------------------------------------------------------------
    def build(self):
        rng = self.rng
        fixed = self.desc.get("shape")
        if fixed:
            shape = tuple(fixed)
            chunks = tuple(tuple(c) for c in self.desc["chunks"])
        else:
            nd = rng.choice((1, 2, 2, 2, 2, 3))
            if nd == 2 and rng.random() < 0.55:
                n = rng.randint(2, 4)
                c = _comp(rng, n, 3)
                shape, chunks = (n, n), (c, c)
            else:
                shape = tuple(rng.randint(1, 5) for _ in range(nd))
                chunks = tuple(_comp(rng, n, 3 if nd < 3 else 2) for n in shape)
        rann = None
        if self.anns and rng.random() < 0.5:
            rann = self.anns[0]
        cur = self.root(shape, chunks, kind=self.desc.get("root"), ann=rann)
        self.pool.append(cur)
        for i in range(self.desc["nops"]):
            cur = self.step(cur, i)
            self.pool.append(cur)
        return cur
