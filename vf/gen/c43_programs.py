"""C43 helper: a tiny let-list program language over one base frame, a typed random
generator for it, ONE interpreter that runs a program either on pandas or on
dask.dataframe objects, and a shrinker used to derive mechanism labels.

A program is {"nodes": [node, ...], "out": index}.  Node 0 is always ["df"] (the
base frame); every other node is [op, arg, ...] where frame/series/scalar
arguments are indices of EARLIER nodes (so shared sub-expressions are simply
nodes referenced more than once).  Operands of binary operators are written
{"n": index} or {"k": constant}.

Generation-time typing (kind F/S/C, column -> dtype kind, row lineage, order
promised, index comparable, unique columns) keeps the generator inside the
domain where pandas itself accepts the program and where pandas and dask both
promise the facet that is compared:

* binary operators / filters / assigns / axis=1 concat only combine operands of
  the SAME row lineage (same rows, same index object in pandas) — label-based
  alignment of different row sets is C36/C40 territory, not the optimizer's;
* `ord` False after a sort/set_index on a non-unique key, after a merge and after a
  groupby (dask promises no tie order / no group order) -> compared as multisets;
  head/tail are only generated on `ord` nodes;
* `idx` False after a column merge (pandas gives a fresh RangeIndex, dask a
  per-partition one) -> index not compared.
"""
from __future__ import annotations

import operator
import random

BASE_COLS = {"a": "i", "b": "s", "c": "f", "d": "f", "e": "b", "u": "i"}
BASE_UNIQ = ("u",)
NUM = ("i", "f")

F_UNARY = ("proj", "filt", "assign", "fillna", "astype", "rename", "head", "head1", "tail", "set_index",
           "sort_values", "drop", "dropna", "fbin")

_BIN = {
    "add": operator.add, "sub": operator.sub, "mul": operator.mul, "div": operator.truediv,
    "gt": operator.gt, "lt": operator.lt, "ge": operator.ge, "le": operator.le, "eq": operator.eq, "ne": operator.ne,
    "and": operator.and_, "or": operator.or_,
}
_SYM = {"add": "+", "sub": "-", "mul": "*", "div": "/", "gt": ">", "lt": "<", "ge": ">=", "le": "<=", "eq": "==",
        "ne": "!=", "and": "&", "or": "|"}


# --------------------------------------------------------------------------------------
# interpreter (one program, two libraries)

class Skip(Exception):
    pass


def evaluate(prog, base, lib, decisions=None, nudge=0.0):
    """Evaluate prog["out"] with node 0 bound to `base`.  lib: "pd" | "dd".
    `decisions` (dict) carries run-time decisions of the dask side (head1/tail applicability)
    over to the pandas side so that both run the same program."""
    import pandas as pd

    if lib == "dd":
        import dask.dataframe as xx
    else:
        xx = pd
    nodes = prog["nodes"]
    memo = {}
    dec = decisions if decisions is not None else {}

    def opnd(o):
        return ev(o["n"]) if "n" in o else o["k"]

    def ev(i):
        if i in memo:
            return memo[i]
        nd = nodes[i]
        op = nd[0]
        if op == "df":
            r = base
        elif op == "proj":
            r = ev(nd[1])[list(nd[2])]
        elif op == "filt":
            r = ev(nd[1])[ev(nd[2])]
        elif op == "assign":
            v = ev(nd[3]) if isinstance(nd[3], int) else nd[3]["k"]
            r = ev(nd[1]).assign(**{nd[2]: v})
        elif op == "fillna":
            r = ev(nd[1]).fillna(nd[2])
        elif op == "astype":
            r = ev(nd[1]).astype(nd[2])
        elif op == "rename":
            r = ev(nd[1]).rename(columns=nd[2])
        elif op == "head":
            x = ev(nd[1])
            r = x.head(nd[2], npartitions=-1, compute=False) if lib == "dd" else x.head(nd[2])
        elif op == "head1":
            x = ev(nd[1])
            if lib == "dd":
                ok = _first_last_len(x, 0) >= nd[2]
                dec[str(i)] = ok
                r = x.head(nd[2], compute=False) if ok else x.head(nd[2], npartitions=-1, compute=False)
            else:
                r = x.head(nd[2])
        elif op == "tail":
            x = ev(nd[1])
            if lib == "dd":
                ok = _first_last_len(x, -1) >= nd[2]
                dec[str(i)] = ok
                r = x.tail(nd[2], compute=False) if ok else x
            else:
                r = x.tail(nd[2]) if dec.get(str(i), True) else x
        elif op == "set_index":
            x = ev(nd[1])
            r = x.set_index(nd[2]) if lib == "dd" else x.set_index(nd[2]).sort_index(kind="stable")
        elif op == "sort_values":
            r = ev(nd[1]).sort_values(nd[2], ascending=nd[3])
        elif op == "drop":
            r = ev(nd[1]).drop(columns=list(nd[2]))
        elif op == "dropna":
            r = ev(nd[1]).dropna(subset=list(nd[2])) if nd[2] else ev(nd[1]).dropna()
        elif op == "fbin":
            r = _BIN[nd[2]](ev(nd[1]), nd[3])
        elif op == "concat0":
            r = xx.concat([ev(nd[1]), ev(nd[2])])
        elif op == "concat1":
            r = xx.concat([ev(nd[1]), ev(nd[2])], axis=1)
        elif op == "merge":
            r = ev(nd[1]).merge(ev(nd[2]), on=nd[3], how=nd[4])
        elif op == "col":
            r = ev(nd[1])[nd[2]]
        elif op == "sbin" or op == "cbin":
            a, b = opnd(nd[2]), opnd(nd[3])
            if nudge and op == "sbin" and nd[1] in ("gt", "lt", "ge", "le", "eq", "ne"):
                # float-tie probe (pandas side only): move a reduction-valued threshold by a relative epsilon
                if "n" in nd[3] and nodes[nd[3]["n"]][0] in ("red", "cbin"):
                    b = b + nudge * max(1.0, abs(float(b)))
                if "n" in nd[2] and nodes[nd[2]["n"]][0] in ("red", "cbin"):
                    a = a + nudge * max(1.0, abs(float(a)))
            r = _BIN[nd[1]](a, b)
        elif op == "sun":
            x = ev(nd[2])
            f = nd[1]
            if f == "abs":
                r = abs(x)
            elif f == "neg":
                r = -x
            elif f == "not":
                r = ~x
            elif f == "isna":
                r = x.isna()
            elif f == "notnull":
                r = x.notnull()
            elif f == "fillna":
                r = x.fillna(nd[3])
            elif f == "astype":
                r = x.astype(nd[3])
            elif f == "isin":
                r = x.isin(list(nd[3]))
            elif f == "clip":
                r = x.clip(nd[3][0], nd[3][1])
            elif f == "round":
                r = x.round(nd[3])
            else:
                raise ValueError(f)
        elif op == "sfilt":
            r = ev(nd[1])[ev(nd[2])]
        elif op == "where":
            r = ev(nd[1]).where(ev(nd[2]), nd[3])
        elif op == "gb":
            r = getattr(ev(nd[1]).groupby(nd[2])[nd[3]], nd[4])()
        elif op == "gbf":
            r = ev(nd[1]).groupby(nd[2]).agg(dict(nd[3]))
        elif op == "fred":
            r = getattr(ev(nd[1]), nd[2])()
        elif op == "red":
            r = getattr(ev(nd[1]), nd[2])()
        else:
            raise ValueError("unknown op %r" % (op,))
        memo[i] = r
        return r

    return ev(prog["out"])


def _first_last_len(x, which):
    """Rows in the first (0) / last (-1) partition of dask collection x (run-time decision only)."""
    try:
        k = 0 if which == 0 else x.npartitions - 1
        return len(x.partitions[k].compute(scheduler="sync"))
    except Exception:  # noqa: BLE001
        return -1


# --------------------------------------------------------------------------------------
# program text (for witnesses) and structure helpers

def refs(nd):
    """Indices of nodes referenced by node nd."""
    op = nd[0]
    if op == "df":
        return []
    if op in ("sbin", "cbin"):
        return [o["n"] for o in nd[2:4] if "n" in o]
    if op == "sun":
        return [nd[2]]
    if op == "assign":
        return [nd[1]] + ([nd[3]] if isinstance(nd[3], int) else [])
    if op in ("filt", "concat0", "concat1", "merge", "sfilt", "where"):
        return [nd[1], nd[2]]
    return [nd[1]]


def live(prog):
    seen = set()
    stack = [prog["out"]]
    while stack:
        i = stack.pop()
        if i in seen:
            continue
        seen.add(i)
        stack.extend(refs(prog["nodes"][i]))
    return sorted(seen)


def prune(prog):
    """Drop dead nodes and renumber."""
    lv = live(prog)
    if 0 not in lv:
        lv = [0] + lv
    m = {old: new for new, old in enumerate(lv)}
    out = []
    for old in lv:
        out.append(_remap(prog["nodes"][old], m))
    return {"nodes": out, "out": m[prog["out"]]}


def _remap(nd, m):
    op = nd[0]
    nd = list(nd)
    if op == "df":
        return nd
    if op in ("sbin", "cbin"):
        for p in (2, 3):
            if "n" in nd[p]:
                nd[p] = {"n": m[nd[p]["n"]]}
        return nd
    if op == "sun":
        nd[2] = m[nd[2]]
        return nd
    if op == "assign":
        nd[1] = m[nd[1]]
        if isinstance(nd[3], int):
            nd[3] = m[nd[3]]
        return nd
    if op in ("filt", "concat0", "concat1", "merge", "sfilt", "where"):
        nd[1] = m[nd[1]]
        nd[2] = m[nd[2]]
        return nd
    nd[1] = m[nd[1]]
    return nd


def opname(prog, i):
    nd = prog["nodes"][i]
    op = nd[0]
    if op == "assign":
        return "assign-const" if not isinstance(nd[3], int) else "assign"
    if op == "sbin":
        o = nd[1]
        return "cmp" if o in ("gt", "lt", "ge", "le", "eq", "ne") else ("logic" if o in ("and", "or") else "arith")
    if op == "cbin":
        return "scalar-arith"
    if op == "sun":
        return nd[1]
    if op == "red":
        return "reduce"
    if op == "fred":
        return "frame-reduce"
    if op in ("gb", "gbf"):
        return "groupby"
    if op in ("head", "head1"):
        return "head"
    return op


COARSE = {"cmp": "pred", "logic": "pred", "isin": "pred", "isna": "pred", "notnull": "pred", "not": "pred",
          "arith": "elemwise", "abs": "elemwise", "neg": "elemwise", "clip": "elemwise", "round": "elemwise",
          "where": "elemwise", "fbin": "elemwise", "drop": "proj", "assign-const": "assign", "sfilt": "filt",
          "dropna": "filt", "scalar-arith": "reduce"}


def label_features(prog):
    """Coarse op kinds of the live nodes, used in mechanism labels (series-level fillna/astype count as elemwise)."""
    lv = live(prog)
    out = set()
    for i in lv:
        nd = prog["nodes"][i]
        n = opname(prog, i)
        if nd[0] == "sun" and n in ("fillna", "astype"):
            n = "elemwise"
        out.add(COARSE.get(n, n))
    return sorted(out - {"df", "col"})


def features(prog, shared=True):
    """Sorted op-kind names of the live nodes (mechanism label part); with shared=True also the flag
    "shared" when some non-base node has more than one consumer."""
    lv = live(prog)
    names = {opname(prog, i) for i in lv} - {"df", "col"}
    nodes = prog["nodes"]
    # shadowing assign: assigns a name that is later read through a column node / predicate
    cnt = {}
    for i in lv:
        for r in set(refs(nodes[i])):
            cnt[r] = cnt.get(r, 0) + 1
    if shared and any(c > 1 and nodes[i][0] != "df" for i, c in cnt.items()):
        names.add("shared")
    return sorted(names)


def text(prog):
    """Python-like rendering: v0 is the base frame."""
    lines = []
    nodes = prog["nodes"]

    def o(x):
        return "v%d" % x["n"] if "n" in x else repr(x["k"])

    for i in live(prog):
        nd = nodes[i]
        op = nd[0]
        if op == "df":
            continue
        if op == "proj":
            s = "v%d[%r]" % (nd[1], list(nd[2]))
        elif op in ("filt", "sfilt"):
            s = "v%d[v%d]" % (nd[1], nd[2])
        elif op == "assign":
            s = "v%d.assign(%s=%s)" % (nd[1], nd[2], ("v%d" % nd[3]) if isinstance(nd[3], int) else repr(nd[3]["k"]))
        elif op in ("fillna", "astype"):
            s = "v%d.%s(%r)" % (nd[1], op, nd[2])
        elif op == "rename":
            s = "v%d.rename(columns=%r)" % (nd[1], nd[2])
        elif op == "head":
            s = "v%d.head(%d, npartitions=-1)" % (nd[1], nd[2])
        elif op in ("head1", "tail"):
            s = "v%d.%s(%d)" % (nd[1], "head" if op == "head1" else "tail", nd[2])
        elif op == "set_index":
            s = "v%d.set_index(%r)" % (nd[1], nd[2])
        elif op == "sort_values":
            s = "v%d.sort_values(%r, ascending=%r)" % (nd[1], nd[2], nd[3])
        elif op == "drop":
            s = "v%d.drop(columns=%r)" % (nd[1], list(nd[2]))
        elif op == "dropna":
            s = "v%d.dropna(%s)" % (nd[1], ("subset=%r" % list(nd[2])) if nd[2] else "")
        elif op == "fbin":
            s = "v%d %s %r" % (nd[1], _SYM[nd[2]], nd[3])
        elif op == "concat0":
            s = "concat([v%d, v%d])" % (nd[1], nd[2])
        elif op == "concat1":
            s = "concat([v%d, v%d], axis=1)" % (nd[1], nd[2])
        elif op == "merge":
            s = "v%d.merge(v%d, on=%r, how=%r)" % (nd[1], nd[2], nd[3], nd[4])
        elif op == "col":
            s = "v%d[%r]" % (nd[1], nd[2])
        elif op in ("sbin", "cbin"):
            s = "%s %s %s" % (o(nd[2]), _SYM[nd[1]], o(nd[3]))
        elif op == "sun":
            f = nd[1]
            s = {"abs": "abs(v%d)", "neg": "-v%d", "not": "~v%d"}.get(f)
            s = (s % nd[2]) if s else "v%d.%s(%s)" % (nd[2], f, "" if len(nd) < 4 else repr(nd[3]))
        elif op == "where":
            s = "v%d.where(v%d, %r)" % (nd[1], nd[2], nd[3])
        elif op == "gb":
            s = "v%d.groupby(%r)[%r].%s()" % (nd[1], nd[2], nd[3], nd[4])
        elif op == "gbf":
            s = "v%d.groupby(%r).agg(%r)" % (nd[1], nd[2], dict(nd[3]))
        elif op in ("fred", "red"):
            s = "v%d.%s()" % (nd[1], nd[2])
        else:
            s = repr(nd)
        lines.append("v%d = %s" % (i, s))
    lines.append("result = v%d" % prog["out"])
    return "; ".join(lines)


# --------------------------------------------------------------------------------------
# shrinking (only used after a disagreement, to name the mechanism)

def shrink_candidates(prog):
    """Smaller programs: earlier output, or one node bypassed by one of its same-kind inputs."""
    nodes = prog["nodes"]
    lv = live(prog)
    out = []
    for j in reversed(lv):
        if j != prog["out"] and j != 0:
            out.append(prune({"nodes": nodes, "out": j}))
    for i in reversed(lv):
        nd = nodes[i]
        op = nd[0]
        alts = []
        if op in F_UNARY:
            alts = [nd[1]]
        elif op in ("concat0", "concat1", "merge"):
            alts = [nd[1], nd[2]]
        elif op in ("sfilt", "where"):
            alts = [nd[1]]
        elif op == "sun":
            alts = [nd[2]]
        elif op == "sbin":
            alts = [o["n"] for o in nd[2:4] if "n" in o and nodes[o["n"]][0] not in ("red", "cbin")]
        elif op == "cbin":
            alts = [o["n"] for o in nd[2:4] if "n" in o]
        if op in ("sbin", "cbin"):
            for pos in (2, 3):
                o = nd[pos]
                if "n" in o and nodes[o["n"]][0] in ("red", "cbin"):
                    new = [list(x) for x in nodes]
                    new[i] = list(nd)
                    new[i][pos] = {"k": 1.5}
                    out.append(prune({"nodes": new, "out": prog["out"]}))
        for a in alts:
            m = {k: k for k in range(len(nodes))}
            m[i] = a
            new = [_remap(x, m) if k > i else list(x) for k, x in enumerate(nodes)]
            o_ = m[prog["out"]]
            if o_ == 0:
                continue
            out.append(prune({"nodes": new, "out": o_}))
    return out


# --------------------------------------------------------------------------------------
# typed random generator

class Builder:
    def __init__(self, rng: random.Random):
        self.rng = rng
        self.nodes = [["df"]]
        self.meta = [{"k": "F", "cols": dict(BASE_COLS), "lin": 0, "ord": True, "idx": True, "uniq": set(BASE_UNIQ)}]
        self.nlin = 1
        self.cache = {}

    # -- plumbing
    def add(self, node, meta):
        key = repr(node)
        if key in self.cache:
            return self.cache[key]
        self.nodes.append(node)
        self.meta.append(meta)
        self.cache[key] = len(self.nodes) - 1
        return len(self.nodes) - 1

    def newlin(self):
        self.nlin += 1
        return self.nlin - 1

    def fmeta(self, src, **kw):
        m = self.meta[src]
        out = {"k": "F", "cols": dict(m["cols"]), "lin": m["lin"], "ord": m["ord"], "idx": m["idx"], "uniq": set(m["uniq"])}
        out.update(kw)
        out["uniq"] = {u for u in out["uniq"] if u in out["cols"]}
        return out

    def smeta(self, src, dt, name=None, **kw):
        m = self.meta[src]
        out = {"k": "S", "dt": dt, "name": name, "lin": m["lin"], "ord": m["ord"], "idx": m["idx"]}
        out.update(kw)
        return out

    def frames(self):
        return [i for i, m in enumerate(self.meta) if m["k"] == "F" and m["cols"]]

    def pick_frame(self, pred=None):
        c = [i for i in self.frames() if pred is None or pred(self.meta[i])]
        if not c:
            return None
        # prefer recent nodes, keep older ones reachable (branches / sharing)
        w = [1 + 3 * (k + 1) / len(c) for k in range(len(c))]
        return self.rng.choices(c, w)[0]

    def colsof(self, i, kinds=None):
        return [c for c, k in self.meta[i]["cols"].items() if kinds is None or k in kinds]

    # -- series / scalars
    def col(self, i, name):
        return self.add(["col", i, name], self.smeta(i, self.meta[i]["cols"][name], name))

    def const_for(self, name_or_kind):
        r = self.rng
        n = str(name_or_kind).lower()
        if n.startswith("a"):
            return r.choice((0, 1, 2, 3))
        if n.startswith("u"):
            return r.choice((2, 5, 8, 12))
        if n.startswith("d"):
            return float(r.choice((-2, -1, 0, 1, 2)))
        return r.choice((-0.5, 0.0, 0.3, 1.0))

    def red(self, s, agg=None):
        agg = agg or self.rng.choice(("mean", "mean", "sum", "min", "max", "count", "std", "var"))
        dt = "i" if agg == "count" or (agg in ("sum", "min", "max") and self.meta[s]["dt"] == "i") else "f"
        return self.add(["red", s, agg], {"k": "C", "dt": dt})

    def num_series(self, i, depth=1):
        """Numeric series expression over frame i (same lineage)."""
        r = self.rng
        cols = self.colsof(i, NUM)
        if not cols:
            return None
        c = self.col(i, r.choice(cols))
        if depth <= 0 or r.random() < 0.25:
            return c
        kind = r.random()
        if kind < 0.35:  # col op const
            op = r.choice(("add", "sub", "mul", "div"))
            k = r.choice((1, 2, 3, 0.5, -1))
            dt = "f" if op == "div" or isinstance(k, float) or self.meta[c]["dt"] == "f" else "i"
            a, b = ({"n": c}, {"k": k}) if (op == "div" or r.random() < 0.8) else ({"k": k}, {"n": c})
            return self.add(["sbin", op, a, b], self.smeta(c, dt, self.meta[c]["name"]))
        if kind < 0.65:  # col op col
            other = self.num_series(i, depth - 1)
            op = r.choice(("add", "sub", "mul"))
            dt = "f" if "f" in (self.meta[c]["dt"], self.meta[other]["dt"]) else "i"
            nm = self.meta[c]["name"] if self.meta[c]["name"] == self.meta[other]["name"] else None
            return self.add(["sbin", op, {"n": c}, {"n": other}], self.smeta(c, dt, nm))
        if kind < 0.85:  # col op reduction (centering / scaling): shared sub-expression
            src = c if r.random() < 0.7 else self.col(0, r.choice(("a", "c", "d")))
            # int min/max/sum over partitions of which SOME are empty comes back as float in dask (NaN partials): a
            # reduction defect outside this property (C37), so integer sources only meet float-valued aggregations here
            agg = r.choice(("mean", "std", "max", "min", "sum")) if self.meta[src]["dt"] == "f" else r.choice(("mean", "std"))
            sc = self.red(src, agg)
            # no division by an arbitrary reduction: a zero mean/min/sum gives inf, and reductions over inf differ between
            # pandas and dask before any rewrite (numerics, not the optimizer)
            op = r.choice(("sub", "add", "mul"))
            inner = self.add(["sbin", op, {"n": c}, {"n": sc}], self.smeta(c, "f", self.meta[c]["name"]))
            if r.random() < 0.4 and self.meta[c]["name"] in ("c", "C") and self.meta[c]["dt"] == "f":  # z-score shape
                sd = self.red(c, "std")
                return self.add(["sbin", "div", {"n": inner}, {"n": sd}], self.smeta(c, "f", self.meta[c]["name"]))
            return inner
        f = r.choice(("abs", "neg", "fillna", "clip", "round", "astype"))
        dt = self.meta[c]["dt"]
        if f == "fillna":
            return self.add(["sun", f, c, 0.25 if dt == "f" else 0], self.smeta(c, dt, self.meta[c]["name"]))
        if f == "clip":
            return self.add(["sun", f, c, [0, 2]], self.smeta(c, dt, self.meta[c]["name"]))
        if f == "round":
            return self.add(["sun", f, c, 1], self.smeta(c, dt, self.meta[c]["name"]))
        if f == "astype":
            if dt == "i":
                return self.add(["sun", f, c, "float64"], self.smeta(c, "f", self.meta[c]["name"]))
            return c
        return self.add(["sun", f, c], self.smeta(c, dt, self.meta[c]["name"]))

    def pred(self, i, depth=1):
        """Boolean series over frame i (same lineage), possibly with a reduction inside."""
        r = self.rng
        cols = self.meta[i]["cols"]
        choices = []
        if self.colsof(i, NUM):
            choices += ["cmp", "cmp", "cmpred", "cmpred", "cmpexpr"]
        if self.colsof(i, ("s",)):
            choices += ["streq", "isin"]
        if self.colsof(i, ("b",)):
            choices += ["bool"]
        if self.colsof(i, ("f",)):
            choices += ["notna"]
        if not choices:
            return None
        if depth > 0 and r.random() < 0.25:
            p1, p2 = self.pred(i, 0), self.pred(i, 0)
            if p1 is not None and p2 is not None and p1 != p2:
                return self.add(["sbin", r.choice(("and", "or")), {"n": p1}, {"n": p2}], self.smeta(p1, "b", None))
        ch = r.choice(choices)
        if ch in ("cmp", "cmpred", "cmpexpr"):
            name = r.choice(self.colsof(i, NUM))
            c = self.col(i, name) if ch != "cmpexpr" else self.num_series(i, 1)
            op = r.choice(("gt", "lt", "ge", "le") + (("eq", "ne") if cols[name] == "i" else ()))
            if ch == "cmpred":
                src = c if r.random() < 0.75 else self.col(0, r.choice(("a", "c", "d")))
                rhs = {"n": self.red(src, r.choice(("mean", "mean", "min", "max", "std")))}
            else:
                rhs = {"k": self.const_for(name)}
            return self.add(["sbin", op, {"n": c}, rhs], self.smeta(c, "b", self.meta[c]["name"]))
        if ch == "streq":
            c = self.col(i, r.choice(self.colsof(i, ("s",))))
            return self.add(["sbin", r.choice(("eq", "ne")), {"n": c}, {"k": r.choice(("x", "y", "z"))}],
                            self.smeta(c, "b", self.meta[c]["name"]))
        if ch == "isin":
            c = self.col(i, r.choice(self.colsof(i, ("s",))))
            return self.add(["sun", "isin", c, r.choice((["x", "y"], ["z"], ["w", "xy", "x"]))],
                            self.smeta(c, "b", self.meta[c]["name"]))
        if ch == "bool":
            c = self.col(i, r.choice(self.colsof(i, ("b",))))
            if r.random() < 0.4:
                return self.add(["sun", "not", c], self.smeta(c, "b", self.meta[c]["name"]))
            return c
        c = self.col(i, r.choice(self.colsof(i, ("f",))))
        return self.add(["sun", r.choice(("notnull", "isna")), c], self.smeta(c, "b", self.meta[c]["name"]))

    # -- frame steps; each returns the new node index or None when not applicable
    def step(self, kind, i):
        r = self.rng
        m = self.meta[i]
        cols = list(m["cols"])
        if kind == "proj":
            if len(cols) < 2:
                return None
            k = r.randint(1, max(1, len(cols) - 1))
            keep = r.sample(cols, k)
            if r.random() < 0.7:
                keep = [c for c in cols if c in keep]  # original order most of the time
            return self.add(["proj", i, keep], self.fmeta(i, cols={c: m["cols"][c] for c in keep}))
        if kind == "drop":
            if len(cols) < 2:
                return None
            dr = r.sample(cols, r.randint(1, min(2, len(cols) - 1)))
            return self.add(["drop", i, dr], self.fmeta(i, cols={c: k for c, k in m["cols"].items() if c not in dr}))
        if kind == "filt":
            p = self.pred(i)
            if p is None:
                return None
            return self.add(["filt", i, p], self.fmeta(i, lin=self.newlin()))
        if kind == "assign":
            v = self.num_series(i, 2) if r.random() < 0.85 else None
            numc = self.colsof(i, NUM)
            if r.random() < 0.6 and numc:
                name = r.choice(numc)  # shadow an existing column
            else:
                name = r.choice(("z", "w", "a", "c"))
            nc = dict(m["cols"])
            if v is None:
                k = r.choice((1, 2.5))
                nc[name] = "f" if isinstance(k, float) else "i"
                return self.add(["assign", i, name, {"k": k}], self.fmeta(i, cols=nc, uniq=m["uniq"] - {name}))
            nc[name] = self.meta[v]["dt"]
            return self.add(["assign", i, name, v], self.fmeta(i, cols=nc, uniq=m["uniq"] - {name}))
        if kind == "fillna":
            fl = self.colsof(i, ("f",))
            if not fl:
                return None
            if "s" not in m["cols"].values() and "b" not in m["cols"].values() and r.random() < 0.5:
                return self.add(["fillna", i, 0], self.fmeta(i))
            return self.add(["fillna", i, {c: r.choice((0.0, -1.5)) for c in r.sample(fl, r.randint(1, len(fl)))}], self.fmeta(i))
        if kind == "astype":
            opts = []
            for c, k in m["cols"].items():
                if k == "i":
                    opts.append((c, "float64", "f"))
                elif k == "b":
                    opts.append((c, "int64", "i"))
                elif k == "f" and c.lower().startswith("d") and c in BASE_COLS:
                    pass
            if not opts:
                return None
            c, t, k = r.choice(opts)
            nc = dict(m["cols"])
            nc[c] = k
            return self.add(["astype", i, {c: t}], self.fmeta(i, cols=nc))
        if kind == "rename":
            c = r.choice(cols)
            new = c.upper() if c.upper() != c and c.upper() not in m["cols"] else None
            if new is None:
                return None
            nc = {(new if k == c else k): v for k, v in m["cols"].items()}
            uq = {(new if u == c else u) for u in m["uniq"]}
            return self.add(["rename", i, {c: new}], self.fmeta(i, cols=nc, uniq=uq))
        if kind in ("head", "head1", "tail"):
            if not m["ord"]:
                return None
            return self.add([kind, i, r.randint(1, 5)], self.fmeta(i, lin=self.newlin()))
        if kind == "set_index":
            c = [x for x in cols if m["cols"][x] in NUM and not x.lower().startswith("c")]
            if not c or len(cols) < 2:
                return None
            key = r.choice(c)
            nc = {k: v for k, v in m["cols"].items() if k != key}
            return self.add(["set_index", i, key], self.fmeta(i, cols=nc, lin=self.newlin(), ord=key in m["uniq"], idx=True))
        if kind == "sort_values":
            # not the NaN-bearing column c: sorting an all-NaN key fails in the quantile planner before any rewrite (C39)
            c = [x for x in cols if m["cols"][x] in NUM and not x.lower().startswith("c")]
            if not c:
                return None
            key = r.choice(c)
            if key not in m["uniq"] and m["uniq"] and r.random() < 0.5:
                key = sorted(m["uniq"])[0]
            return self.add(["sort_values", i, key, r.random() < 0.7], self.fmeta(i, lin=self.newlin(), ord=key in m["uniq"]))
        if kind == "dropna":
            fl = self.colsof(i, ("f",))
            if not fl:
                return None
            sub = [] if r.random() < 0.3 else r.sample(fl, 1)
            return self.add(["dropna", i, sub], self.fmeta(i, lin=self.newlin()))
        if kind == "fbin":
            num = self.colsof(i, NUM)
            if not num:
                return None
            src = i
            if len(num) != len(cols):
                src = self.add(["proj", i, num], self.fmeta(i, cols={c: m["cols"][c] for c in num}))
            op = r.choice(("add", "mul", "sub"))
            k = r.choice((1, 2, 0.5))
            nc = {c: ("f" if isinstance(k, float) else kk) for c, kk in self.meta[src]["cols"].items()}
            return self.add(["fbin", src, op, k], self.fmeta(src, cols=nc, uniq=set()))
        if kind == "concat0":
            # two branches of the same frame (or a frame with identical columns)
            p1, p2 = self.pred(i), self.pred(i)
            if p1 is None or p2 is None:
                return None
            b1 = self.add(["filt", i, p1], self.fmeta(i, lin=self.newlin()))
            b2 = i if r.random() < 0.25 else self.add(["filt", i, p2], self.fmeta(i, lin=self.newlin()))
            if b1 == b2:
                return None
            u = r.random()
            if u < 0.3:  # a blockwise step on one branch that keeps the columns
                b2n = self.step(r.choice(("fillna", "assign")), b2)
                if b2n is not None and list(self.meta[b2n]["cols"]) == cols:
                    b2 = b2n
            elif u < 0.5 and len(cols) >= 2:  # same columns in a different order (pandas aligns by NAME)
                perm = cols[:]
                r.shuffle(perm)
                b2 = self.add(["proj", b2, perm], self.fmeta(b2, cols={c: self.meta[b2]["cols"][c] for c in perm}))
            elif u < 0.7 and len(cols) >= 2:  # one branch lacks some columns (outer join fills NaN)
                sub = [c for c in cols if r.random() < 0.6] or cols[:1]
                which = b1 if r.random() < 0.5 else b2
                pr = self.add(["proj", which, sub], self.fmeta(which, cols={c: self.meta[which]["cols"][c] for c in sub}))
                if which == b1:
                    b1 = pr
                else:
                    b2 = pr
            c1, c2 = self.meta[b1]["cols"], self.meta[b2]["cols"]
            nc = {}
            for c in list(c1) + [c for c in c2 if c not in c1]:
                if c in c1 and c in c2:
                    k1, k2 = c1[c], c2[c]
                    nc[c] = k1 if k1 == k2 else ("f" if {k1, k2} <= set(NUM) else "o")
                else:
                    k = c1.get(c, c2.get(c))
                    nc[c] = {"i": "f", "f": "f"}.get(k, "o")   # NaN-filled str/bool columns are not used further (groupby NaN keys: C38)
            return self.add(["concat0", b1, b2], self.fmeta(i, cols=nc, lin=self.newlin(), ord=self.meta[b1]["ord"] and self.meta[b2]["ord"],
                                                           uniq=set()))
        if kind == "concat1":
            if len(cols) < 2:
                return None
            k = r.randint(1, len(cols) - 1)
            left = cols[:k]
            right = [c for c in cols[k:] if m["cols"][c] in NUM]
            if not right:
                return None
            a = self.add(["proj", i, left], self.fmeta(i, cols={c: m["cols"][c] for c in left}))
            b = self.add(["proj", i, right], self.fmeta(i, cols={c: m["cols"][c] for c in right}))
            if r.random() < 0.7:
                b2 = self.step("fbin", b)
                b = b2 if b2 is not None else b
            nc = dict(self.meta[a]["cols"])
            nc.update(self.meta[b]["cols"])
            return self.add(["concat1", a, b], self.fmeta(i, cols=nc, uniq=m["uniq"] & set(left)))
        if kind == "merge":
            cand = [u for u in m["uniq"]]
            if not cand:
                return None
            key = sorted(cand)[0]
            others = [c for c in cols if c != key]
            if not others:
                return None
            lcols = [key] + r.sample(others, r.randint(1, len(others)))
            rcols = [key] + r.sample(others, r.randint(1, len(others)))
            a = self.add(["proj", i, lcols], self.fmeta(i, cols={c: m["cols"][c] for c in lcols}))
            b = self.add(["proj", i, rcols], self.fmeta(i, cols={c: m["cols"][c] for c in rcols}))
            rfilt = False
            if r.random() < 0.6:
                p = self.pred(b)
                if p is not None:
                    b = self.add(["filt", b, p], self.fmeta(b, lin=self.newlin()))
                    rfilt = True
            if r.random() < 0.3:
                p = self.pred(a)
                if p is not None:
                    a = self.add(["filt", a, p], self.fmeta(a, lin=self.newlin()))
            # a left join that leaves keys unmatched changes dtypes depending on the data (meta truthfulness is C42/C40),
            # so "left" is only used when the right branch still holds every key
            how = "inner" if rfilt else r.choice(("inner", "left"))
            nc = {}
            for c in lcols:
                nc[c if c == key or c not in rcols else c + "_x"] = m["cols"][c]
            for c in rcols:
                if c == key:
                    continue
                k = m["cols"][c]
                nc[c if c not in lcols else c + "_y"] = k
            return self.add(["merge", a, b, key, how],
                            {"k": "F", "cols": nc, "lin": self.newlin(), "ord": False, "idx": False, "uniq": {key}})
        raise ValueError(kind)

    # -- terminals
    def terminal(self, kind, i):
        r = self.rng
        m = self.meta[i]
        if kind == "series":
            return self.num_series(i, 2)
        if kind == "sum3":  # x.a + x.c + df.d shape: columns of a projection and of its parent
            par = [j for j in self.frames() if self.meta[j]["lin"] == m["lin"]]
            num = self.colsof(i, NUM)
            if not num:
                return None
            s = self.col(i, r.choice(num))
            for _ in range(r.randint(1, 2)):
                j = r.choice(par)
                nj = self.colsof(j, NUM)
                if not nj:
                    continue
                t = self.col(j, r.choice(nj))
                dt = "f" if "f" in (self.meta[s]["dt"], self.meta[t]["dt"]) else "i"
                nm = self.meta[s]["name"] if self.meta[s]["name"] == self.meta[t]["name"] else None
                s = self.add(["sbin", r.choice(("add", "sub", "mul")), {"n": s}, {"n": t}], self.smeta(s, dt, nm))
            return s
        if kind == "sfilt":
            s = self.num_series(i, 1)
            p = self.pred(i)
            if s is None or p is None:
                return None
            return self.add(["sfilt", s, p], self.smeta(s, self.meta[s]["dt"], self.meta[s]["name"], lin=self.newlin()))
        if kind == "where":
            s = self.num_series(i, 1)
            p = self.pred(i)
            if s is None or p is None:
                return None
            return self.add(["where", s, p, 0.5], self.smeta(s, "f", self.meta[s]["name"]))
        if kind == "red":
            s = self.num_series(i, 1)
            if s is None:
                return None
            c = self.red(s)
            if r.random() < 0.5:
                s2 = self.num_series(r.choice(self.frames()), 1)
                if s2 is not None:
                    c2 = self.red(s2)
                    return self.add(["cbin", r.choice(("add", "sub", "mul")), {"n": c}, {"n": c2}], {"k": "C", "dt": "f"})
            return c
        if kind == "fred":
            num = self.colsof(i, NUM)
            if not num:
                return None
            src = i
            if len(num) != len(m["cols"]):
                src = self.add(["proj", i, num], self.fmeta(i, cols={c: m["cols"][c] for c in num}))
            agg = r.choice(("sum", "mean", "count")) if "i" in self.meta[src]["cols"].values() else r.choice(("sum", "mean", "max", "min", "count"))
            return self.add(["fred", src, agg], {"k": "S", "dt": "f", "name": None, "lin": self.newlin(), "ord": True, "idx": True})
        if kind == "gb":
            keys = [c for c in m["cols"] if c.lower()[0] in ("a", "b", "e") and m["cols"][c] in ("i", "s", "b")]
            vals = [c for c in self.colsof(i, NUM)]
            if not keys:
                return None
            key = r.choice(keys)
            vals = [c for c in vals if c != key]
            if not vals:
                return None
            if r.random() < 0.6:
                v = r.choice(vals)
                agg = r.choice(("sum", "mean", "count", "min", "max"))
                dt = "i" if agg == "count" or (agg != "mean" and m["cols"][v] == "i") else "f"
                return self.add(["gb", i, key, v, agg], {"k": "S", "dt": dt, "name": v, "lin": self.newlin(), "ord": False, "idx": True})
            vs = r.sample(vals, min(len(vals), r.randint(1, 2)))
            spec = [[v, r.choice(("sum", "mean", "count", "min", "max"))] for v in vs]
            nc = {v: ("i" if a == "count" or (a != "mean" and m["cols"][v] == "i") else "f") for v, a in spec}
            return self.add(["gbf", i, key, spec], {"k": "F", "cols": nc, "lin": self.newlin(), "ord": False, "idx": True, "uniq": set()})
        raise ValueError(kind)


STEP_W = (("proj", 5), ("filt", 6), ("assign", 5), ("fillna", 1.5), ("astype", 1.5), ("rename", 1.5), ("head", 1), ("head1", 0.7),
          ("tail", 0.7), ("set_index", 1), ("sort_values", 1), ("drop", 1.5), ("dropna", 1), ("fbin", 1), ("concat0", 1.5),
          ("concat1", 1.2), ("merge", 1.2))
TERM_W = (("frame", 6), ("series", 2), ("sum3", 2.5), ("sfilt", 1), ("where", 1), ("red", 1.5), ("fred", 1), ("gb", 2))


def _wchoice(r, table):
    return r.choices([k for k, _ in table], [w for _, w in table])[0]


def random_program(rng: random.Random, family="chain"):
    """family "chain": a single chain of frame steps (every step consumes the previous frame);
    family "dag": steps may branch from any earlier frame, terminals combine several consumers."""
    b = Builder(rng)
    cur = 0
    nsteps = rng.randint(2, 6) if family == "chain" else rng.randint(2, 7)
    tries = 0
    done = 0
    while done < nsteps and tries < 40:
        tries += 1
        kind = _wchoice(rng, STEP_W)
        src = cur if family == "chain" or rng.random() < 0.6 else b.pick_frame()
        if src is None:
            continue
        new = b.step(kind, src)
        if new is None:
            continue
        cur = new
        done += 1
    t = _wchoice(rng, TERM_W)
    out = cur
    if t != "frame":
        for _ in range(4):
            o = b.terminal(t, cur)
            if o is not None:
                out = o
                break
            t = _wchoice(rng, TERM_W)
            if t == "frame":
                break
        if t == "gb" and b.meta[out]["k"] == "F" and rng.random() < 0.4:
            o2 = b.step(rng.choice(("proj", "filt")), out)
            out = o2 if o2 is not None else out
    prog = prune({"nodes": b.nodes, "out": out})
    m = b.meta[out]
    return prog, {"ord": bool(m.get("ord", True)), "idx": bool(m.get("idx", True)), "kind": m["k"]}


# --------------------------------------------------------------------------------------
# the complete sub-space: all orders of 4 fixed steps

PERM_STEPS = ("P", "F1", "A", "F2")


def perm_program(order):
    """order: permutation of PERM_STEPS.  P: x[['a','d']] (keeps a); F1: x[x.a > 0];
    A: x.assign(a = x.d - x.a) (shadows a, reads d and the old a); F2: x[x.a < 2] (on whatever `a` is by then)."""
    nodes = [["df"]]
    cur = 0

    def add(nd):
        nodes.append(nd)
        return len(nodes) - 1

    for s in order:
        if s == "P":
            cur = add(["proj", cur, ["a", "d"]])
        elif s == "F1":
            c = add(["col", cur, "a"])
            p = add(["sbin", "gt", {"n": c}, {"k": 0}])
            cur = add(["filt", cur, p])
        elif s == "A":
            ca = add(["col", cur, "a"])
            cd = add(["col", cur, "d"])
            v = add(["sbin", "sub", {"n": cd}, {"n": ca}])
            cur = add(["assign", cur, "a", v])
        elif s == "F2":
            c = add(["col", cur, "a"])
            p = add(["sbin", "lt", {"n": c}, {"k": 2}])
            cur = add(["filt", cur, p])
        else:
            raise ValueError(s)
    return {"nodes": nodes, "out": cur}


# --------------------------------------------------------------------------------------
# hand-written DAG templates named in the property (shared sub-expressions)

def _t(*nodes, out=None):
    n = [["df"]] + [list(x) for x in nodes]
    return {"nodes": n, "out": len(n) - 1 if out is None else out}


def templates():
    N = lambda i: {"n": i}  # noqa: E731
    K = lambda v: {"k": v}  # noqa: E731
    T = {}
    # df[df.a > df.a.mean()]
    T["filter-by-own-mean"] = (_t(["col", 0, "a"], ["red", 1, "mean"], ["sbin", "gt", N(1), N(2)], ["filt", 0, 3]), True)
    # (df.c - df.c.mean()) / df.c.std()
    T["zscore"] = (_t(["col", 0, "c"], ["red", 1, "mean"], ["sbin", "sub", N(1), N(2)], ["red", 1, "std"], ["sbin", "div", N(3), N(4)]), True)
    # x = df[['a','c']]; x.a + x.c + df.d
    T["proj-cols-plus-parent-col"] = (_t(["proj", 0, ["a", "c"]], ["col", 1, "a"], ["col", 1, "c"], ["sbin", "add", N(2), N(3)],
                                         ["col", 0, "d"], ["sbin", "add", N(4), N(5)]), True)
    # x = df[df.a > 1]; x[['a','c']][x.c > x.c.mean()]  (filter on column of parent, reduction in predicate, then projection)
    T["filter-proj-filter-red"] = (_t(["col", 0, "a"], ["sbin", "gt", N(1), K(1)], ["filt", 0, 2], ["col", 3, "c"], ["red", 4, "mean"],
                                      ["sbin", "gt", N(4), N(5)], ["filt", 3, 6], ["proj", 7, ["a", "c"]]), True)
    # second filter compares a column with its mean over the ALREADY FILTERED rows (same column in both predicates, so
    # that a mean taken over the unfiltered rows selects visibly different rows)
    T["filter-then-filter-by-mean-of-filtered"] = (_t(["col", 0, "u"], ["sbin", "gt", N(1), K(4)], ["filt", 0, 2], ["col", 3, "u"], ["red", 4, "mean"],
                                                      ["sbin", "lt", N(4), N(5)], ["filt", 3, 6]), True)
    T["filter-then-filter-by-max-of-filtered"] = (_t(["col", 0, "c"], ["sbin", "lt", N(1), K(0.3)], ["filt", 0, 2], ["col", 3, "c"], ["red", 4, "max"],
                                                     ["sbin", "ge", N(4), N(5)], ["filt", 3, 6], ["proj", 7, ["c", "a"]]), True)
    # assign shadowing then project and filter on it
    T["assign-shadow-proj-filter"] = (_t(["col", 0, "a"], ["col", 0, "d"], ["sbin", "add", N(1), N(2)], ["assign", 0, "a", 3],
                                         ["proj", 4, ["a", "b"]], ["col", 5, "a"], ["sbin", "gt", N(6), K(1)], ["filt", 5, 7]), True)
    # filter on the OLD column, assign shadowing it, project the new one
    T["filter-old-assign-shadow-proj"] = (_t(["col", 0, "a"], ["sbin", "gt", N(1), K(1)], ["col", 0, "c"], ["assign", 0, "a", 3],
                                             ["filt", 4, 2], ["proj", 5, ["a"]]), True)
    # concat of two branches of the same frame, then projection
    T["concat-branches-proj"] = (_t(["col", 0, "a"], ["sbin", "gt", N(1), K(1)], ["filt", 0, 2], ["sbin", "le", N(1), K(1)], ["filt", 0, 4],
                                    ["concat0", 3, 5], ["proj", 6, ["c", "a"]]), True)
    # merge of two branches on the unique key, then projection and filter
    T["merge-branches-proj"] = (_t(["proj", 0, ["u", "a", "c"]], ["proj", 0, ["u", "d", "b"]], ["col", 2, "d"], ["sbin", "gt", N(3), K(0.0)],
                                   ["filt", 2, 4], ["merge", 1, 5, "u", "inner"], ["proj", 6, ["a", "d"]]), False)
    # groupby after projection
    T["proj-groupby"] = (_t(["proj", 0, ["a", "c", "d"]], ["gb", 1, "a", "c", "sum"]), False)
    T["filter-groupby-agg"] = (_t(["col", 0, "d"], ["sbin", "ge", N(1), K(0.0)], ["filt", 0, 2], ["gbf", 3, "b", [["c", "mean"], ["a", "sum"]]]), False)
    # set_index / sort then projection
    T["set-index-proj"] = (_t(["set_index", 0, "u"], ["proj", 1, ["c", "a"]], ["col", 2, "c"]), True)
    T["sort-proj-head"] = (_t(["sort_values", 0, "u", True], ["proj", 1, ["u", "c"]], ["head", 2, 3]), True)
    # head / tail with projections and filters around
    T["filter-head-proj"] = (_t(["col", 0, "e"], ["filt", 0, 2 - 1], ["head", 2, 4], ["proj", 3, ["b", "c"]]), True)
    T["assign-tail-proj"] = (_t(["col", 0, "c"], ["sun", "fillna", 1, 0.0], ["assign", 0, "c", 2], ["tail", 3, 2], ["proj", 4, ["c", "a"]]), True)
    # fillna / astype / rename between projections
    T["fillna-astype-rename-proj"] = (_t(["fillna", 0, {"c": 0.0}], ["astype", 1, {"a": "float64"}], ["rename", 2, {"a": "A"}], ["proj", 3, ["A", "c"]],
                                         ["col", 4, "A"], ["col", 4, "c"], ["sbin", "mul", N(5), N(6)]), True)
    # a column used by three consumers
    T["column-three-consumers"] = (_t(["col", 0, "c"], ["red", 1, "mean"], ["red", 1, "std"], ["sbin", "sub", N(1), N(2)], ["sbin", "div", N(4), N(3)],
                                      ["assign", 0, "z", 5], ["col", 6, "z"], ["sbin", "gt", N(7), K(0.0)], ["filt", 6, 8], ["proj", 9, ["a", "z"]]), True)
    # axis=1 concat of two projections of the same frame, then projection
    T["concat1-proj"] = (_t(["proj", 0, ["a", "b"]], ["proj", 0, ["c", "d"]], ["fbin", 2, "add", 1], ["concat1", 1, 3], ["proj", 4, ["d", "a"]]), True)
    return T
