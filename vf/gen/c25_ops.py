"""C25 helper — a small typed language of array pipeline steps.

A step is a JSON dict {"op": name, ...parameters}.  `gen_step` draws a step that is valid for
the current NumPy value (the generator runs the NumPy side while generating, so every parameter
is in range); `apply_step(step, X, lib)` applies it to a NumPy array (lib="np") or to a
dask array (lib="da").  The op list is drawn from the operation families of C19-C24, C26, C27.

Domain notes (kept in the generator, never in the oracle):
* slices keep start/stop inside [-n, n] (negative-step slices starting below -n and None combined
  with a fancy index are C20's own findings and are not metadata questions);
* reductions/scans are generated only on arrays without zero-length axes (C22's domain);
* after a stage with unknown chunk sizes only operations that dask documents as working with
  unknown chunks are generated (elementwise, astype, full reductions, compute_chunk_sizes).
"""
from __future__ import annotations

import operator

import numpy as np

from . import arrays as A

UNARY = ["neg", "abs", "sqrt", "exp", "isnan", "sign", "floor", "conj", "real", "imag", "logical_not", "square", "invert"]
SCALAR_OPS = ["add", "sub", "mul", "truediv", "floordiv", "mod", "lt", "eq", "ge", "maximum", "minimum"]
BINARY_OPS = ["add", "sub", "mul", "truediv", "lt", "ne", "maximum", "logical_and", "hypot", "where"]
SCALARS = [2, -1, 0, 0.5, True, ("float32", 1.5), ("int8", 3), 1j, ("uint8", 200)]
REDUCE = ["sum", "prod", "min", "max", "any", "all", "mean", "var", "std", "nansum", "nanmax", "nanmean", "argmax", "argmin",
          "count_nonzero"]
INEXACT_REDUCE = {"sum", "prod", "mean", "var", "std", "nansum", "nanmean"}
CUM = ["cumsum", "cumprod", "nancumsum"]
PAD_MODES = ["constant", "edge", "reflect", "symmetric", "wrap", "linear_ramp", "maximum", "mean", "minimum"]
BOUNDARIES = ["none", "periodic", "nearest", "reflect", 0, 3]
# Operations generated on inputs that have a zero-length axis.  Calibration: the other operations raise inside dask on
# zero-length input (reshape_rechunk `reduce() of empty iterable`/IndexError under reshape, ravel, roll(axis=None), unique,
# argwhere, flatnonzero, boolean-mask indexing; pad ZeroDivisionError; repeat "Need array(s) to concatenate"; triu
# ZeroDivisionError in arange; setitem "shape mismatch").  An expression that cannot be built has no computed result, so
# C25 does not speak about it; those operations are C20-C27's own domain.
ZERO_LENGTH_OK = {"reduce", "unary", "scalar", "binary", "astype", "clip", "getitem", "transpose", "flip", "rot90", "squeeze", "expand_dims",
                  "concatenate", "stack", "block", "broadcast_to", "rechunk", "searchsorted", "digitize", "isin", "diff", "take",
                  "tile", "compute_chunk_sizes"}
# operations usable when chunk sizes are unknown
AFTER_UNKNOWN = ["unary", "scalar", "astype", "clip", "reduce_all", "compute_chunk_sizes", "compute_chunk_sizes"]
ALL_OPS = ["unary", "scalar", "binary", "binary", "astype", "clip",
           "getitem", "getitem", "getitem", "maskdask", "setitem", "setitem",
           "reduce", "reduce", "reduce", "cum", "cum",
           "rechunk", "rechunk", "reshape", "reshape", "transpose", "flip", "rot90", "squeeze", "expand_dims", "ravel",
           "concatenate", "concatenate", "stack", "block", "broadcast_to",
           "pad", "pad", "diff", "diff", "roll", "repeat", "repeat", "tile", "tri", "take",
           "map_overlap", "map_overlap",
           "unique", "bincount", "histogram", "searchsorted", "digitize", "isin", "coarsen", "argwhere", "flatnonzero"]


def scalar_of(i):
    s = SCALARS[i]
    return np.dtype(s[0]).type(s[1]) if isinstance(s, tuple) else s


# ----------------------------------------------------------------------------- index descriptions
def idx_of(items):
    out = []
    for it in items:
        t = it[0]
        if t == "s":
            out.append(slice(it[1], it[2], it[3]))
        elif t == "i":
            out.append(int(it[1]))
        elif t == "n":
            out.append(None)
        elif t == "e":
            out.append(Ellipsis)
        elif t == "l":
            out.append(np.array(it[1], dtype=np.int64))
        elif t == "m":
            out.append(np.array(it[1], dtype=bool))
        else:
            raise AssertionError(it)
    return tuple(out)


def _rand_slice(rng, n):
    step = rng.choice((None, 1, 1, 2, 3, -1, -1, -2))
    lo = rng.choice((None, rng.randint(-n, n)))
    hi = rng.choice((None, rng.randint(-n, n)))
    return ["s", lo, hi, step]


def gen_index(rng, shape, fancy=True, newaxis=True, ints=True):
    items, used_fancy = [], False
    # Calibration: an integer next to a fancy index makes NumPy treat both as advanced indices (result axes are
    # reordered); dask documents that it does not follow that rule -> C20's business, not generated here.
    if fancy and rng.random() < 0.5:
        ints = False
    else:
        fancy = False
    k = len(shape) if rng.random() < 0.75 else rng.randint(0, len(shape))
    for n in shape[:k]:
        r = rng.random()
        if r < 0.25:
            items.append(["s", None, None, None])
        elif r < 0.65 or n == 0:
            items.append(_rand_slice(rng, n))
        elif r < 0.8 and ints:
            items.append(["i", rng.randint(-n, n - 1)])
        elif fancy and not used_fancy:
            used_fancy = True
            if rng.random() < 0.6:
                ln = rng.randint(0, n + 1)
                flavour = rng.choice(("sorted", "any", "dup", "neg"))
                vals = [rng.randint(0, n - 1) for _ in range(ln)]
                if flavour == "sorted":
                    vals.sort()
                elif flavour == "neg":
                    vals = [v - n for v in vals]
                elif flavour == "dup" and vals:
                    vals = vals + vals[:1]
                items.append(["l", vals])
            else:
                items.append(["m", [rng.random() < 0.5 for _ in range(n)]])
        else:
            items.append(_rand_slice(rng, n))
    if k < len(shape) and rng.random() < 0.5:
        items.append(["e"])
    if newaxis and not used_fancy and rng.random() < 0.15:
        items.insert(rng.randint(0, len(items)), ["n"])
    return items


# ----------------------------------------------------------------------------- aux operands
def aux_desc(rng, shape, dtype=None, kind=None):
    shape = [int(s) for s in shape]
    return {"shape": shape, "dtype": dtype or rng.choice(A.NUMERIC), "seed": rng.randrange(2 ** 31),
            "kind": kind or rng.choice(("dask", "dask", "numpy")), "chunks": [list(c) for c in A.rand_chunks(rng, shape)]}


def aux_value(desc, lib, sort=False, nonneg=False):
    v = A.rand_data(desc["seed"], desc["shape"], desc["dtype"], special=False)
    if nonneg:
        v = np.abs(v)
    if sort:
        v = np.sort(v, axis=None).reshape(v.shape)
    if lib == "da" and desc["kind"] == "dask":
        import dask.array as da

        return da.from_array(v, chunks=A.chunks_of_desc(desc["chunks"]))
    return v


def _bcast_shape(rng, shape):
    s2 = list(shape)
    for a in range(len(s2)):
        if rng.random() < 0.3:
            s2[a] = 1
    s2 = s2[rng.randint(0, len(s2)):] if rng.random() < 0.4 else s2
    # Calibration: a 0-d ARRAY operand takes part in NumPy 2 type promotion like an array, dask treats it like a scalar
    # (float32 * 0-d float64 is computed in float32): C19's business, the second operand is at least 1-d here.
    return s2 or [1]


# ----------------------------------------------------------------------------- generation
def gen_step(rng, v, unknown=False):
    """Draw one step description valid (as far as cheaply known) for the NumPy value v."""
    shape, nd = v.shape, v.ndim
    op = rng.choice(AFTER_UNKNOWN if unknown else ALL_OPS)
    has0 = 0 in shape
    if has0 and op not in ZERO_LENGTH_OK:
        return None
    if op == "unary":
        return {"op": op, "fn": rng.choice(UNARY)}
    if op == "scalar":
        return {"op": op, "fn": rng.choice(SCALAR_OPS), "scalar": rng.randrange(len(SCALARS)), "rev": rng.random() < 0.3}
    if op == "binary":
        return {"op": op, "fn": rng.choice(BINARY_OPS), "aux": aux_desc(rng, _bcast_shape(rng, shape), dtype=rng.choice(A.NUMERIC)),
                "rev": rng.random() < 0.3}
    if op == "astype":
        return {"op": op, "dtype": rng.choice(A.NUMERIC)}
    if op == "clip":
        lo, hi = sorted([rng.randint(-3, 3), rng.randint(-3, 3)])
        return {"op": op, "lo": lo, "hi": hi}
    if op == "getitem":
        return {"op": op, "index": gen_index(rng, shape)}
    if op == "maskdask":
        if nd == 0:
            return None
        if rng.random() < 0.5:
            return {"op": op, "how": "full", "thr": rng.randint(-2, 2)}
        return {"op": op, "how": "axis0", "mask": [rng.random() < 0.6 for _ in range(shape[0])], "mchunk": rng.randint(1, max(1, shape[0]))}
    if op == "setitem":
        index = gen_index(rng, shape, fancy=rng.random() < 0.4, newaxis=False)
        for it in index:   # Calibration: assignment through negative-step slices gives wrong values / IndexError (C21 #2)
            if it[0] == "s" and it[3] is not None and it[3] < 0:
                it[3] = -it[3]
        try:
            tshape = v[idx_of(index)].shape
        except Exception:  # noqa: BLE001
            return None
        how = rng.choice(("scalar", "scalar", "array"))
        d = {"op": op, "index": index, "how": how}
        if how == "scalar":
            d["scalar"] = rng.choice((0, 1, -2, 3))
        else:
            d["aux"] = aux_desc(rng, _bcast_shape(rng, tshape), dtype=rng.choice(("int8", "int64", "bool", "float64")))
        return d
    if op == "reduce_all":
        if has0:
            return None
        return {"op": "reduce", "fn": rng.choice(("sum", "max", "any", "mean", "count_nonzero")), "axis": None, "keepdims": rng.random() < 0.5,
                "split_every": rng.choice((None, 2))}
    if op == "reduce":
        # zero-length inputs: only the order reductions over an axis that NumPy accepts (C22 leaves zero-length arrays out
        # of its domain; their METADATA is still C25's business)
        fn = rng.choice(REDUCE if not has0 else ("min", "max", "sum", "any"))
        if fn in ("argmax", "argmin"):
            if nd == 0:
                return None
            axis = rng.randrange(-nd, nd)
        else:
            r = rng.random()
            if r < 0.25 or nd == 0:
                axis = None
            elif r < 0.7:
                axis = rng.randrange(-nd, nd)
            else:
                axis = sorted(rng.sample(range(nd), rng.randint(1, nd)))
        d = {"op": op, "fn": fn, "axis": axis, "keepdims": rng.random() < 0.5, "split_every": rng.choice((None, None, 2, 3))}
        if fn in ("var", "std"):
            d["ddof"] = rng.choice((0, 0, 1))
        return d
    if op == "cum":
        if has0 or nd == 0:
            return None
        return {"op": op, "fn": rng.choice(CUM), "axis": rng.choice((None,) + tuple(range(-nd, nd))) if rng.random() < 0.2 else rng.randrange(-nd, nd),
                "method": rng.choice(("sequential", "sequential", "blelloch"))}
    if op == "rechunk":
        how = rng.choice(("tuple", "tuple", "int", "-1", "dict"))
        if how == "tuple":
            spec = [list(c) for c in A.rand_chunks(rng, shape)]
        elif how == "int":
            spec = rng.randint(1, 4)
        elif how == "-1":
            spec = -1
        else:
            if nd == 0:
                return None
            ax = rng.randrange(nd)
            spec = {str(ax): rng.choice((-1, 1, 2, 3))}
        return {"op": op, "how": how, "spec": spec}
    if op == "reshape":
        size = int(v.size)
        new = _factorize(rng, size)
        if new is None:
            return None
        if new and rng.random() < 0.3 and size > 0:
            new[rng.randrange(len(new))] = -1
        return {"op": op, "shape": new, "merge_chunks": rng.random() < 0.7}
    if op == "transpose":
        if nd == 0:
            return {"op": op, "how": "T"}
        how = rng.choice(("T", "perm", "swapaxes", "moveaxis"))
        d = {"op": op, "how": how}
        if how == "perm":
            p = list(range(nd))
            rng.shuffle(p)
            d["perm"] = p
        elif how in ("swapaxes", "moveaxis"):
            d["a"], d["b"] = rng.randrange(-nd, nd), rng.randrange(-nd, nd)
        return d
    if op == "flip":
        if nd == 0:
            return None
        return {"op": op, "axis": rng.choice((None, rng.randrange(-nd, nd)))}
    if op == "rot90":
        if nd < 2:
            return None
        a, b = rng.sample(range(nd), 2)
        return {"op": op, "k": rng.randint(-1, 3), "axes": [a, b]}
    if op == "squeeze":
        ones = [a for a, n in enumerate(shape) if n == 1]
        if not ones:
            return None
        return {"op": op, "axis": rng.choice((None, rng.choice(ones)))}
    if op == "expand_dims":
        return {"op": op, "axis": rng.randint(-nd - 1, nd)}
    if op == "ravel":
        return {"op": op}
    if op in ("concatenate", "block"):
        if nd == 0:
            return None
        ax = rng.randrange(nd)
        s2 = list(shape)
        s2[ax] = rng.choice((0, 1, 2, 3))
        d = {"op": op, "axis": ax, "aux": aux_desc(rng, s2, dtype=rng.choice((str(v.dtype), str(v.dtype), "int8", "float64"))),
             "order": rng.choice(("xa", "ax", "xax", "xx"))}
        if op == "block" and ax != nd - 1 and ax != max(nd - 2, 0):
            d["axis"] = nd - 1
            s2 = list(shape)
            s2[nd - 1] = rng.choice((1, 2))
            d["aux"] = aux_desc(rng, s2, dtype=str(v.dtype))
        return d
    if op == "stack":
        return {"op": op, "axis": rng.randint(-nd - 1, nd), "aux": aux_desc(rng, shape, dtype=rng.choice((str(v.dtype), "int8", "float64"))),
                "order": rng.choice(("xa", "ax", "xx", "xax"))}
    if op == "broadcast_to":
        new = [rng.randint(2, 3) if (n == 1 and rng.random() < 0.6) else n for n in shape]
        new = [rng.randint(1, 3) for _ in range(rng.choice((0, 0, 1, 2)))] + new
        return {"op": op, "shape": new, "chunks": rng.random() < 0.3}
    if op == "pad":
        if nd == 0:
            return None
        mode = rng.choice(PAD_MODES)
        # Calibration: for reflect/symmetric/wrap dask supports pad widths up to the axis length only (wider pads give a
        # self-consistent but shorter array than NumPy: C24's business); linear_ramp/mean are compared on finite data only.
        lim = {"reflect": min(shape) - 1, "symmetric": min(shape), "wrap": min(shape)}.get(mode, 3)
        lim = max(0, min(3, lim))
        if mode in ("linear_ramp", "mean") and (v.dtype.kind not in "fc" or not np.isfinite(v).all()):
            return None   # (integer 'mean'/'linear_ramp' pads round differently from NumPy: values only, C24's business)
        if rng.random() < 0.4:
            pw = rng.randint(0, lim)
        else:
            pw = [[rng.randint(0, lim), rng.randint(0, lim)] for _ in range(nd)]
        d = {"op": op, "mode": mode, "pad_width": pw}
        if mode == "constant" and rng.random() < 0.5:
            d["constant_values"] = rng.randint(-2, 2)
        if mode in ("maximum", "mean", "minimum") and rng.random() < 0.4:
            # Calibration: stat_length larger than the axis gives values different from NumPy (self-consistent metadata): C24
            d["stat_length"] = rng.randint(1, max(1, min(3, min(shape))))
        if mode == "linear_ramp" and rng.random() < 0.5:
            d["end_values"] = rng.randint(-2, 2)
        return d
    if op == "diff":
        if nd == 0 or v.dtype.kind == "b":   # Calibration: da.diff on bool raises TypeError (Array - Array): C24's business
            return None
        d = {"op": op, "n": rng.choice((1, 1, 2, 3)), "axis": rng.randrange(-nd, nd)}
        r = rng.random()
        if r < 0.2:
            d["prepend"] = rng.randint(-2, 2)
        elif r < 0.35:
            d["append"] = rng.randint(-2, 2)
        return d
    if op == "roll":
        r = rng.random()
        if r < 0.3 or nd == 0:
            return {"op": op, "shift": rng.randint(-7, 7), "axis": None}
        if r < 0.8:
            return {"op": op, "shift": rng.randint(-7, 7), "axis": rng.randrange(-nd, nd)}
        axes = rng.sample(range(nd), rng.randint(1, nd))
        return {"op": op, "shift": [rng.randint(-4, 4) for _ in axes], "axis": axes}
    if op == "repeat":
        if nd == 0:
            return None
        return {"op": op, "repeats": rng.choice((0, 1, 2, 2, 3)), "axis": rng.randrange(-nd, nd)}
    if op == "tile":
        reps = rng.choice((rng.randint(0, 3), [rng.randint(1, 2) for _ in range(rng.randint(1, nd + 1))]))
        return {"op": op, "reps": reps}
    if op == "tri":
        if nd < 2:
            return None
        return {"op": op, "fn": rng.choice(("tril", "triu")), "k": rng.randint(-3, 3)}
    if op == "take":
        if nd == 0:
            return None
        ax = rng.randrange(nd)
        n = shape[ax]
        if n == 0:
            return None
        return {"op": op, "axis": ax, "indices": [rng.randint(-n, n - 1) for _ in range(rng.randint(0, n + 2))]}
    if op == "map_overlap":
        if nd == 0 or has0:
            return None
        depth = {}
        for a, n in enumerate(shape):
            if rng.random() < 0.7:
                depth[str(a)] = rng.randint(0, min(2, n))
            else:
                depth[str(a)] = 0
        if not any(depth.values()):
            depth[str(rng.randrange(nd))] = 1 if min(shape) >= 1 else 0
        shift = {a: (rng.choice((-1, 1)) * rng.randint(1, d) if d else 0) for a, d in depth.items()}
        boundary = rng.choice(BOUNDARIES)
        if boundary == "none" and rng.random() < 0.5:
            # asymmetric depth (lo, hi): dask allows it with boundary 'none' only; the stencil looks |s| cells to one side
            for a, d in list(depth.items()):
                if d:
                    s_ = shift[a]
                    other = rng.randint(0, min(2, shape[int(a)]))
                    depth[a] = [abs(s_) + rng.randint(0, d - abs(s_)), other] if s_ > 0 else [other, abs(s_) + rng.randint(0, d - abs(s_))]
        return {"op": op, "depth": depth, "shift": shift, "boundary": boundary, "form": rng.choice(("dict", "dict", "tuple"))}
    if op == "unique":
        if v.dtype.kind in "fc" and np.isnan(v).any():   # Calibration: NaNs of different chunks are not merged (C27's business)
            return None
        return {"op": op}
    if op == "bincount":
        if nd != 1 or v.dtype.kind not in "iub":
            return None
        return {"op": op, "minlength": rng.choice((0, 3, 8)), "abs": True}
    if op == "histogram":
        if v.dtype.kind not in "iuf":
            return None
        return {"op": op, "bins": rng.randint(1, 5), "range": [-5, 5]}
    if op == "searchsorted":
        if v.dtype.kind not in "iuf" or nd == 0:
            return None
        return {"op": op, "aux": aux_desc(rng, [rng.randint(1, 7)], dtype=rng.choice(("int64", "float64")), kind="dask"), "side": rng.choice(("left", "right"))}
    if op == "digitize":
        if v.dtype.kind not in "iuf":
            return None
        return {"op": op, "bins": sorted(rng.sample(range(-5, 6), rng.randint(1, 4))), "right": rng.random() < 0.5}
    if op == "isin":
        return {"op": op, "test": [rng.randint(-3, 3) for _ in range(rng.randint(0, 4))], "invert": rng.random() < 0.3}
    if op == "coarsen":
        if nd == 0 or has0:
            return None
        axes = {}
        for a, n in enumerate(shape):
            if rng.random() < 0.6:
                axes[str(a)] = rng.randint(1, min(3, n))
        if not axes:
            axes[str(0)] = 1
        return {"op": op, "fn": rng.choice(("sum", "max")), "axes": axes}
    if op in ("argwhere", "flatnonzero"):
        if nd == 0:   # Calibration: da.argwhere of a 0-d array cannot be computed (unknown chunk error): C27's business
            return None
        return {"op": op}
    if op == "compute_chunk_sizes":
        return {"op": op}
    raise AssertionError(op)


def _factorize(rng, size):
    if size == 0:
        return [0] if rng.random() < 0.5 else [rng.randint(1, 3), 0]
    nd = rng.choice((1, 2, 2, 3))
    dims, rest = [], size
    for _ in range(nd - 1):
        divs = [d for d in range(1, rest + 1) if rest % d == 0]
        d = rng.choice(divs)
        dims.append(d)
        rest //= d
    dims.append(rest)
    rng.shuffle(dims)
    return dims


# ----------------------------------------------------------------------------- application
def shifted(b, shifts):
    """Pure data movement stencil of radius |s| per axis: out[i] = b[clip(i - s)] (edge replicated)."""
    out = b
    for ax, s in shifts.items():
        ax, s = int(ax), int(s)
        if s == 0 or out.shape[ax] == 0:
            continue
        n = out.shape[ax]
        src = np.clip(np.arange(n) - s, 0, n - 1)
        out = np.take(out, src, axis=ax)
    return out


def _np_map_overlap(x, depth, shift, boundary):
    if boundary == "none":
        return shifted(x, shift)
    pw = [(int(depth.get(str(a), 0)),) * 2 for a in range(x.ndim)]   # (asymmetric depths only occur with boundary 'none')
    if boundary == "periodic":
        p = np.pad(x, pw, mode="wrap")
    elif boundary == "nearest":
        p = np.pad(x, pw, mode="edge")
    elif boundary == "reflect":
        p = np.pad(x, pw, mode="symmetric")
    else:
        p = np.pad(x, pw, mode="constant", constant_values=boundary)
    r = shifted(p, shift)
    sl = tuple(slice(d[0], r.shape[a] - d[0]) for a, d in enumerate(pw))
    return r[sl]


def apply_step(step, X, lib):
    """Apply one step to X with NumPy (lib='np') or dask.array (lib='da')."""
    if lib == "np":
        mod = np
    else:
        import dask.array as mod
    op = step["op"]
    if op == "unary":
        fn = step["fn"]
        if fn in ("neg", "abs", "invert"):
            return getattr(operator, fn)(X)
        return getattr(mod, fn)(X)
    if op == "scalar":
        s, fn = scalar_of(step["scalar"]), step["fn"]
        a, b = (s, X) if step["rev"] else (X, s)
        if fn in ("maximum", "minimum"):
            return getattr(mod, fn)(a, b)
        return getattr(operator, fn)(a, b)
    if op == "binary":
        Y, fn = aux_value(step["aux"], lib), step["fn"]
        a, b = (Y, X) if step["rev"] else (X, Y)
        if fn == "where":
            return mod.where(a > 0, a, b)
        if fn in ("maximum", "logical_and", "hypot"):
            return getattr(mod, fn)(a, b)
        return getattr(operator, fn)(a, b)
    if op == "astype":
        return X.astype(step["dtype"])
    if op == "clip":
        return mod.clip(X, step["lo"], step["hi"])
    if op == "getitem":
        return X[idx_of(step["index"])]
    if op == "maskdask":
        if step["how"] == "full":
            return X[X > step["thr"]]
        m = np.array(step["mask"], dtype=bool)
        if lib == "da":
            m = mod.from_array(m, chunks=step["mchunk"])
        return X[m]
    if op == "setitem":
        Y = X.copy()
        val = step["scalar"] if step["how"] == "scalar" else aux_value(step["aux"], lib)
        Y[idx_of(step["index"])] = val
        return Y
    if op == "reduce":
        fn, axis = step["fn"], step["axis"]
        axis = tuple(axis) if isinstance(axis, list) else axis
        kw = {}
        if fn in ("var", "std"):
            kw["ddof"] = step.get("ddof", 0)
        if lib == "da":
            if fn != "count_nonzero":
                kw["split_every"] = step.get("split_every")
        if fn == "count_nonzero":
            r = mod.count_nonzero(X, axis=axis)
            return r
        return getattr(mod, fn)(X, axis=axis, keepdims=step["keepdims"], **kw)
    if op == "cum":
        if lib == "da":
            return getattr(mod, step["fn"])(X, axis=step["axis"], method=step["method"])
        return getattr(np, step["fn"])(X, axis=step["axis"])
    if op == "rechunk":
        if lib == "np":
            return X
        spec = step["spec"]
        if step["how"] == "tuple":
            spec = A.chunks_of_desc(spec)
        elif step["how"] == "dict":
            spec = {int(k): v for k, v in spec.items()}
        return X.rechunk(spec)
    if op == "reshape":
        if lib == "da":
            return X.reshape(tuple(step["shape"]), merge_chunks=step["merge_chunks"])
        return X.reshape(tuple(step["shape"]))
    if op == "transpose":
        how = step["how"]
        if how == "T":
            return X.T
        if how == "perm":
            return mod.transpose(X, step["perm"])
        return getattr(mod, how)(X, step["a"], step["b"])
    if op == "flip":
        return mod.flip(X, step["axis"])
    if op == "rot90":
        return mod.rot90(X, step["k"], tuple(step["axes"]))
    if op == "squeeze":
        return mod.squeeze(X, axis=step["axis"])
    if op == "expand_dims":
        return mod.expand_dims(X, step["axis"])
    if op == "ravel":
        return X.ravel()
    if op in ("concatenate", "stack", "block"):
        Y = aux_value(step["aux"], lib)
        seq = [{"x": X, "a": Y}[c] for c in step["order"]]
        if op == "concatenate":
            return mod.concatenate(seq, axis=step["axis"])
        if op == "stack":
            return mod.stack(seq, axis=step["axis"])
        nd = X.ndim
        if step["axis"] == nd - 1:
            return mod.block(seq)
        return mod.block([[s] for s in seq])
    if op == "broadcast_to":
        if lib == "da" and step.get("chunks"):
            shp, off = step["shape"], len(step["shape"]) - X.ndim
            ch = []
            for a, s in enumerate(shp):   # only new / broadcast dimensions may get new chunks
                if a >= off and X.shape[a - off] == s:
                    ch.append(X.chunks[a - off])
                else:
                    h = max(1, (s + 1) // 2)
                    ch.append((h, s - h) if s - h > 0 else (s,))
            return mod.broadcast_to(X, tuple(shp), chunks=tuple(ch))
        return mod.broadcast_to(X, tuple(step["shape"]))
    if op == "pad":
        pw = step["pad_width"]
        pw = pw if isinstance(pw, int) else tuple(tuple(p) for p in pw)
        kw = {k: step[k] for k in ("constant_values", "stat_length", "end_values") if k in step}
        return mod.pad(X, pw, mode=step["mode"], **kw)
    if op == "diff":
        kw = {k: step[k] for k in ("prepend", "append") if k in step}
        return mod.diff(X, n=step["n"], axis=step["axis"], **kw)
    if op == "roll":
        sh, ax = step["shift"], step["axis"]
        return mod.roll(X, tuple(sh) if isinstance(sh, list) else sh, tuple(ax) if isinstance(ax, list) else ax)
    if op == "repeat":
        return mod.repeat(X, step["repeats"], axis=step["axis"])
    if op == "tile":
        r = step["reps"]
        return mod.tile(X, tuple(r) if isinstance(r, list) else r)
    if op == "tri":
        return getattr(mod, step["fn"])(X, k=step["k"])
    if op == "take":
        return mod.take(X, np.array(step["indices"], dtype=np.int64), axis=step["axis"])
    if op == "map_overlap":
        depth, shift, boundary = step["depth"], step["shift"], step["boundary"]
        if lib == "np":
            return _np_map_overlap(X, depth, shift, boundary)
        d = {int(k): (tuple(v) if isinstance(v, list) else int(v)) for k, v in depth.items()}
        if step["form"] == "tuple":
            d = tuple(d.get(a, 0) for a in range(X.ndim))
        return mod.map_overlap(shifted, X, depth=d, boundary=boundary, trim=True, dtype=X.dtype, shifts=shift)
    if op == "unique":
        return mod.unique(X)
    if op == "bincount":
        return mod.bincount(abs(X), minlength=step["minlength"])
    if op == "histogram":
        return mod.histogram(X, bins=step["bins"], range=tuple(step["range"]))[0]
    if op == "searchsorted":
        a = aux_value(step["aux"], lib, sort=True)
        return mod.searchsorted(a, X, side=step["side"])
    if op == "digitize":
        return mod.digitize(X, np.array(step["bins"]), right=step["right"])
    if op == "isin":
        return mod.isin(X, np.array(step["test"], dtype=np.int64), invert=step["invert"])
    if op == "coarsen":
        axes = {int(k): int(v) for k, v in step["axes"].items()}
        fn = getattr(np, step["fn"])
        if lib == "da":
            return mod.coarsen(fn, X, axes, trim_excess=True)
        sl = tuple(slice(0, (n // axes.get(a, 1)) * axes.get(a, 1)) for a, n in enumerate(X.shape))
        Y = X[sl]
        newshape = []
        for a, n in enumerate(Y.shape):
            newshape += [n // axes.get(a, 1), axes.get(a, 1)]
        return fn(Y.reshape(newshape), axis=tuple(range(1, 2 * Y.ndim, 2)))
    if op == "argwhere":
        return mod.argwhere(X)
    if op == "flatnonzero":
        return mod.flatnonzero(X)
    if op == "compute_chunk_sizes":
        return X.compute_chunk_sizes() if lib == "da" else X
    raise AssertionError(op)


def variant(step):
    """Short, value-free description of a step used in labels and the op histogram."""
    op = step["op"]
    if op in ("unary", "scalar", "binary", "reduce", "cum", "tri"):
        return "%s.%s" % (op, step["fn"])
    if op == "pad":
        return "pad.%s" % step["mode"]
    if op == "maskdask":
        return "maskdask.%s" % step["how"]
    if op == "transpose":
        return "transpose.%s" % step["how"]
    if op == "rechunk":
        return "rechunk.%s" % step["how"]
    if op == "map_overlap":
        b = step["boundary"]
        return "map_overlap.%s" % (b if isinstance(b, str) else "constant")
    if op == "getitem":
        kinds = sorted({{"s": "slice", "i": "int", "n": "None", "e": "Ellipsis", "l": "intlist", "m": "boolmask"}[it[0]] for it in step["index"]})
        return "getitem[%s]" % "+".join(kinds)
    if op == "setitem":
        kinds = sorted({{"s": "slice", "i": "int", "n": "None", "e": "Ellipsis", "l": "intlist", "m": "boolmask"}[it[0]] for it in step["index"]})
        return "setitem[%s]=%s" % ("+".join(kinds), step["how"])
    return op


def inexact(step, dtype_kind):
    """True when the step reassociates floating point arithmetic (tolerance comparison from here on)."""
    op = step["op"]
    if op == "reduce":
        return step["fn"] in INEXACT_REDUCE
    if op == "cum":
        return True
    if op == "pad":
        return step["mode"] in ("mean", "linear_ramp")
    if op == "coarsen":
        return step["fn"] == "sum"
    return False


def discontinuous(step):
    """Steps whose result can change when the input changes by a rounding error (used after inexact float steps)."""
    op = step["op"]
    if op in ("unique", "digitize", "searchsorted", "isin", "histogram", "argwhere", "flatnonzero", "maskdask", "bincount", "astype"):
        return True
    if op == "unary":
        return step["fn"] in ("sign", "floor", "sqrt", "logical_not", "invert")
    if op == "scalar":
        return step["fn"] in ("lt", "eq", "ge", "floordiv", "mod")
    if op == "binary":
        return step["fn"] in ("lt", "ne", "logical_and", "where")
    if op == "reduce":
        return step["fn"] in ("argmax", "argmin", "any", "all", "count_nonzero")
    return False
