"""Bag workloads shared by C48 / C49 (DESIGN §4.7).

Sequences of ints, strings, tuples, dicts (0-40 elements, duplicates) and the
three ways a user builds a bag from them:

* ``from_sequence(seq, npartitions=n)``
* ``from_sequence(seq, partition_size=s)``
* ``from_delayed([...])`` with an explicit list of partition lengths that may
  contain zeros (EMPTY partitions, also first / last / all of them).

Everything is a pure function of a ``random.Random`` so that a case is rebuilt
from its small JSON description.
"""
from __future__ import annotations

import collections

KINDS = ("I", "S", "P", "T", "D")   # int, str, (int,int), (str,int,int), dict
WORDS = ("a", "b", "ab", "ba", "abc", "", "zz", "b a", "é")


def gen_elem(rng, kind):
    if kind == "I":
        return rng.randint(-3, 9)
    if kind == "S":
        return rng.choice(WORDS)
    if kind == "P":
        return (rng.randint(0, 4), rng.randint(-2, 6))
    if kind == "T":
        return (rng.choice(("x", "y", "zz")), rng.randint(0, 3), rng.randint(-2, 5))
    if kind == "D":
        d = {"k": rng.randint(0, 3), "v": rng.randint(-2, 7), "name": rng.choice(("al", "bo", "cy"))}
        if rng.random() < 0.4:
            d["opt"] = rng.randint(0, 2)
        return d
    raise ValueError(kind)


def gen_seq(rng, kind, nmax=40, nmin=0):
    """0..nmax elements with duplicates (small alphabets; sometimes a few distinct
    values repeated many times)."""
    r = rng.random()
    if r < 0.06:
        n = nmin
    elif r < 0.35:
        n = rng.randint(nmin, min(nmax, 6))
    else:
        n = rng.randint(nmin, nmax)
    if rng.random() < 0.25 and n:
        pool = [gen_elem(rng, kind) for _ in range(rng.randint(1, 3))]
        return [_copy(rng.choice(pool)) for _ in range(n)]
    return [gen_elem(rng, kind) for _ in range(n)]


def _copy(x):
    return dict(x) if isinstance(x, dict) else x


def gen_layout(rng, n, style=None, maxparts=12):
    """-> JSON-able layout description."""
    style = style or rng.choice(("np", "ps", "delayed", "delayed", "delayed"))
    if style == "np":
        return {"style": "np", "n": rng.choice((1, 2, 3, 4, 5, 7, 9, 12))}
    if style == "ps":
        return {"style": "ps", "s": rng.choice((1, 2, 3, 4, 5, 8, 13, 50))}
    # explicit partition lengths, zeros welcome
    nparts = rng.choice((1, 2, 2, 3, 3, 4, 5, 6, 9, maxparts))
    cuts = sorted(rng.randint(0, n) for _ in range(nparts - 1))
    b = [0] + cuts + [n]
    lens = [c - a for a, c in zip(b, b[1:])]
    r = rng.random()
    if r < 0.25 and nparts > 1:       # force an empty FIRST partition
        lens[1] += lens[0]
        lens[0] = 0
    elif r < 0.40 and nparts > 1:     # force an empty LAST partition
        lens[-2] += lens[-1]
        lens[-1] = 0
    elif r < 0.50 and nparts > 2:     # everything in one middle partition
        j = rng.randrange(1, nparts - 1)
        lens = [0] * nparts
        lens[j] = n
    return {"style": "delayed", "lens": lens,
            "how": rng.choice(("lit", "call", "call", "tuple"))}


def gen_seq_big(rng, kind, lo=101, hi=260):
    """lo..hi elements (from_sequence switches from ceil to floor partition sizes above 100 elements)"""
    n = rng.randint(lo, hi)
    return [gen_elem(rng, kind) for _ in range(n)]


def gen_layout_many(rng, n, lo=13, hi=70):
    """explicit partition lengths for lo..hi partitions (zeros welcome): more partitions than the default
    split_every=8 (two tree levels) and, above 64, than 8*8 (three levels)"""
    nparts = rng.randint(lo, hi)
    cuts = sorted(rng.randint(0, n) for _ in range(nparts - 1))
    b = [0] + cuts + [n]
    lens = [c - a for a, c in zip(b, b[1:])]
    if rng.random() < 0.3:
        lens[1] += lens[0]
        lens[0] = 0
    return {"style": "delayed", "lens": lens, "how": rng.choice(("lit", "call"))}


def _ident(x):
    return x


def split_by_lens(seq, lens):
    out, i = [], 0
    for ln in lens:
        out.append(list(seq[i:i + ln]))
        i += ln
    assert i == len(seq), (lens, len(seq))
    return out


def build_bag(seq, layout):
    """-> (bag, parts) where parts is the list of partition contents when the
    harness itself fixed the layout (from_delayed), else None (the layout is
    then read back from the bag by the caller if it needs it)."""
    import dask
    import dask.bag as db

    st = layout["style"]
    if st == "np":
        return db.from_sequence(list(seq), npartitions=layout["n"]), None
    if st == "ps":
        return db.from_sequence(list(seq), partition_size=layout["s"]), None
    if st == "fs":          # from_sequence without arguments (partition_size 1 up to 100 elements, sqrt rule above)
        return db.from_sequence(list(seq)), None
    if st == "range":       # db.range(n, npartitions): seq must be list(range(n))
        return db.range(len(seq), npartitions=layout["n"]), None
    parts = split_by_lens(seq, layout["lens"])
    how = layout.get("how", "call")
    if how == "lit":
        ds = [dask.delayed(list(p), traverse=False) for p in parts]
    elif how == "tuple":
        ds = [dask.delayed(_ident)(tuple(p)) for p in parts]
    else:
        ds = [dask.delayed(_ident)(list(p)) for p in parts]
    return db.from_delayed(ds), parts


def parts_of(bag, scheduler="sync"):
    """Read the partition contents back through dask (one list per partition)."""
    return [list(p) for p in bag.map_partitions(_wrap_part).compute(scheduler=scheduler)]


def _wrap_part(p):
    return [list(p)]


# ---------------------------------------------------------------------------
# comparison helpers (own code, not dask's assert_eq)

def canon(x):
    """Canonical, type-aware, order-respecting text of a value; dicts / sets are
    normalised (their iteration order is not a value property)."""
    if isinstance(x, dict):
        return "{" + ",".join(sorted(canon(k) + ":" + canon(v) for k, v in x.items())) + "}"
    if isinstance(x, (set, frozenset)):
        return type(x).__name__ + "{" + ",".join(sorted(canon(v) for v in x)) + "}"
    if isinstance(x, tuple):
        return "(" + ",".join(canon(v) for v in x) + ")"
    if isinstance(x, list):
        return "[" + ",".join(canon(v) for v in x) + "]"
    if isinstance(x, bool) or x is None:
        return repr(x)
    if isinstance(x, int):
        return "i%d" % x
    if isinstance(x, float):
        return "f%r" % x
    if isinstance(x, str):
        return "s%r" % x
    return type(x).__name__ + ":" + repr(x)


def multiset(xs):
    return collections.Counter(canon(x) for x in xs)


def is_subsequence(sub, seq):
    """Order-preserving subsequence test (greedy matching is exact)."""
    it = iter(seq)
    for x in sub:
        for y in it:
            if canon(x) == canon(y):
                break
        else:
            return False
    return True


def layout_features(parts):
    """Boolean input features used in mechanism labels."""
    n = sum(len(p) for p in parts)
    f = []
    if n == 0:
        f.append("empty-bag")
    else:
        if parts and len(parts[0]) == 0:
            f.append("first-partition-empty")
        elif any(len(p) == 0 for p in parts):
            f.append("empty-partition")
    if len(parts) > 1:
        f.append("npartitions>1")
    return f
