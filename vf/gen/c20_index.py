"""Index language shared by C20 (array indexing) and C21 (array item assignment).

An index is a JSON list of *entries*; every entry is a small dict:

  {"k": "int",   "v": i, "as": "py"|"np"|"dask"}      integer (python int, np.int64, 0-d dask int array)
  {"k": "slice", "v": [start, stop, step]}
  {"k": "none"} / {"k": "ell"}                        np.newaxis / Ellipsis
  {"k": "ilist", "v": [...], "as": "list"|"np"|"dask", "dt": "int64", "c": [chunks]}   1-d integer indexer
  {"k": "blist", "v": [0/1...], "as": "list"|"np"|"dask", "c": [chunks]}               1-d boolean indexer
  {"k": "mask",  "seed": s, "p": p, "as": "np"|"dask", "c": [[..],..]|None}            full-shape boolean mask
  {"k": "varr",  "v": flat list, "shape": [...], "as": "list"|"np"|"dask", "c": ...}   n-d integer array (vindex)

decode() turns such a list into the NumPy index and the dask index (the same objects except that
"dask" forms become dask arrays).  The module also holds the random generators, the feature
tokens used in mechanism labels and the greedy shrinker that reduces a failing index to a minimal
one with the same symptom (so that one mechanism gets one label).
"""
from __future__ import annotations

import copy
import itertools

import numpy as np

FULL = {"k": "slice", "v": [None, None, None]}


# ----------------------------------------------------------------------------------------------
# data
# ----------------------------------------------------------------------------------------------
def make_data(shape, dtype):
    """Distinct values (position-revealing) wherever the dtype can hold them."""
    shape = tuple(shape)
    n = int(np.prod(shape)) if shape else 1
    a = np.arange(n, dtype="int64")
    dtype = str(dtype)
    if dtype == "bool":
        a = (a % 3) == 0
    elif dtype.startswith("datetime64"):
        a = (a * 10 ** 9).astype("datetime64[ns]")
    elif dtype.startswith("timedelta64"):
        a = (a * 10 ** 9).astype("timedelta64[ns]")
    elif dtype == "complex128":
        a = a + 1j * (a % 5)
    elif dtype.startswith("float"):
        a = a.astype(dtype) / 2
        if n > 3:
            a[n // 2] = np.nan
    else:
        a = a.astype(dtype)
    return a.reshape(shape).copy()


def full_mask(shape, seed, p):
    r = np.random.default_rng(seed)
    return r.random(tuple(shape)) < p


# ----------------------------------------------------------------------------------------------
# decode
# ----------------------------------------------------------------------------------------------
def is_full(e):
    return e["k"] == "slice" and e["v"] == [None, None, None]


def decode(enc, shape, da=None, bare=False):
    """-> (numpy index, dask index).  ``da`` may be None: then dask forms stay NumPy (reference only)."""
    nidx, didx = [], []
    for e in enc:
        k = e["k"]
        if k == "int":
            how = e.get("as", "py")
            if how == "np":
                v = np.int64(e["v"])
                nidx.append(v), didx.append(v)
            elif how == "dask":
                v = np.array(e["v"], dtype="int64")
                nidx.append(int(e["v"]))
                didx.append(da.from_array(v, chunks=()) if da is not None else int(e["v"]))
            else:
                nidx.append(int(e["v"])), didx.append(int(e["v"]))
        elif k == "slice":
            s = slice(*e["v"])
            nidx.append(s), didx.append(s)
        elif k == "none":
            nidx.append(None), didx.append(None)
        elif k == "ell":
            nidx.append(Ellipsis), didx.append(Ellipsis)
        elif k in ("ilist", "blist"):
            how = e.get("as", "list")
            if k == "ilist":
                arr = np.array(e["v"], dtype=e.get("dt", "int64"))
                lst = [int(i) for i in e["v"]]
            else:
                arr = np.array(e["v"], dtype=bool)
                lst = [bool(i) for i in e["v"]]
            if how == "list":
                nidx.append(lst), didx.append(list(lst))
            elif how == "np":
                nidx.append(arr), didx.append(arr.copy())
            else:
                nidx.append(arr)
                if da is None:
                    didx.append(arr.copy())
                else:
                    c = tuple(e.get("c") or (len(arr),))
                    didx.append(da.from_array(arr.copy(), chunks=(c,)))
        elif k == "mask":
            m = full_mask(shape, e["seed"], e["p"])
            nidx.append(m)
            if e.get("as") == "dask" and da is not None:
                c = e.get("c")
                c = tuple(tuple(a) for a in c) if c else tuple((n,) for n in shape)
                didx.append(da.from_array(m.copy(), chunks=c))
            else:
                didx.append(m.copy())
        elif k == "varr":
            arr = np.array(e["v"], dtype="int64").reshape(tuple(e["shape"]))
            how = e.get("as", "np")
            if how == "list":
                nidx.append(arr.tolist()), didx.append(arr.tolist())
            elif how == "dask" and da is not None:
                nidx.append(arr)
                c = e.get("c")
                didx.append(da.from_array(arr.copy(), chunks=tuple(tuple(a) for a in c) if c else arr.shape))
            else:
                nidx.append(arr), didx.append(arr.copy())
        else:
            raise AssertionError(k)
    if bare and len(enc) == 1:
        return nidx[0], didx[0]
    return tuple(nidx), tuple(didx)


def out_of_bounds(enc, shape):
    """An integer (array) entry that lies outside its axis.  NumPy skips the bounds check when the broadcast
    selection is empty; such indices are outside the domain (NumPy 'accepts' them only by accident)."""
    axes = axis_of_entries(enc, len(shape))
    for e, ax in zip(enc, axes):
        if e["k"] in ("ilist", "varr", "int") and ax is not None and ax < len(shape):
            n = shape[ax]
            v = [e["v"]] if e["k"] == "int" else list(e["v"])
            if any(i >= n or i < -n for i in v):
                return True
    return False


def show(enc):
    """Compact human readable form for messages."""
    out = []
    for e in enc:
        k = e["k"]
        if k == "int":
            out.append(("%d" % e["v"]) + ("" if e.get("as", "py") == "py" else "(%s)" % e["as"]))
        elif k == "slice":
            a, b, c = e["v"]
            out.append("%s:%s:%s" % tuple("" if v is None else v for v in (a, b, c)))
        elif k == "none":
            out.append("None")
        elif k == "ell":
            out.append("...")
        elif k == "ilist":
            out.append("%s%r" % ({"list": "", "np": "np", "dask": "da"}[e.get("as", "list")], list(e["v"])))
        elif k == "blist":
            out.append("%s%r" % ({"list": "", "np": "np", "dask": "da"}[e.get("as", "list")], [bool(v) for v in e["v"]]))
        elif k == "mask":
            out.append("<full %s mask seed=%s p=%s>" % (e.get("as", "np"), e["seed"], e["p"]))
        elif k == "varr":
            out.append("%s%r" % (e.get("as", "np"), np.array(e["v"], dtype="int64").reshape(tuple(e["shape"])).tolist()))
    return "[" + ", ".join(out) + "]"


# ----------------------------------------------------------------------------------------------
# which axis does an entry index?
# ----------------------------------------------------------------------------------------------
def axis_of_entries(enc, ndim):
    """List (same length as enc) of the first array axis an entry consumes (None for none/ell)."""
    consumed = []
    for e in enc:
        if e["k"] in ("none", "ell"):
            consumed.append(0)
        elif e["k"] == "mask":
            consumed.append(ndim)
        else:
            consumed.append(1)
    total = sum(consumed)
    out, ax = [], 0
    for e, c in zip(enc, consumed):
        if e["k"] == "ell":
            out.append(None)
            ax += max(0, ndim - total)
        elif e["k"] == "none":
            out.append(None)
        else:
            out.append(ax)
            ax += c
    return out


# ----------------------------------------------------------------------------------------------
# random generators
# ----------------------------------------------------------------------------------------------
def comp_of(rng, n):
    from . import arrays as A

    return list(A.rand_comp(rng, n))


def with_zero_chunks(rng, chunks, prob=0.1):
    """Chunkings with a zero-size chunk inside an axis (legal in dask: da.from_array(x, chunks=((2, 0, 1),)))."""
    chunks = [tuple(c) for c in chunks]
    if chunks and rng.random() < prob:
        a = rng.randrange(len(chunks))
        c = list(chunks[a])
        c.insert(rng.randint(0, len(c)), 0)
        chunks[a] = tuple(c)
    return tuple(chunks)


def rand_slice(rng, n):
    pool = [None, None, None] + list(range(-n - 2, n + 3))
    step = rng.choice([None, None, 1, -1, -1, -1, 2, -2, 3, -3, n + 1, -(n + 1), 7, -7])
    return {"k": "slice", "v": [rng.choice(pool), rng.choice(pool), step]}


def rand_ilist(rng, n, allow_dask=True, allow_oob=0.02):
    flavour = rng.choice(("sorted", "unsorted", "unsorted", "dups", "neg", "mixed", "mixed", "empty", "single", "arange", "reversed"))
    if n == 0:
        v = []
    elif flavour == "empty":
        v = []
    elif flavour == "single":
        v = [rng.randrange(-n, n)]
    elif flavour == "arange":
        v = list(range(n))
    elif flavour == "reversed":
        v = list(range(n - 1, -1, -1))
    else:
        k = rng.randint(1, n + 3)
        lo = 0 if flavour in ("sorted", "unsorted", "dups") else -n
        hi = n - 1 if flavour != "neg" else -1
        v = [rng.randint(lo, hi) for _ in range(k)]
        if flavour == "sorted":
            v = sorted(set(v)) if rng.random() < 0.5 else sorted(v)
        elif flavour == "dups" and v:
            v = v + [v[0], v[-1]]
    if rng.random() < allow_oob:
        v = v + [n + rng.randint(0, 1)]
    how = rng.choice(("list", "np", "np", "dask") if allow_dask else ("list", "np"))
    e = {"k": "ilist", "v": v, "as": how, "dt": rng.choice(("int64", "int64", "int64", "int32", "intp"))}
    if how == "dask":
        if not v:
            e["as"] = "np"
        else:
            e["c"] = comp_of(rng, len(v))
    return e


def rand_blist(rng, n, allow_dask=True, allow_bad=0.02):
    flavour = rng.choice(("rand", "rand", "rand", "all", "nothing", "one"))
    if flavour == "all":
        v = [1] * n
    elif flavour == "nothing":
        v = [0] * n
    elif flavour == "one":
        v = [0] * n
        if n:
            v[rng.randrange(n)] = 1
    else:
        v = [int(rng.random() < 0.5) for _ in range(n)]
    if rng.random() < allow_bad:
        v = v + [1]
    how = rng.choice(("list", "np", "dask", "dask") if allow_dask else ("list", "np"))
    e = {"k": "blist", "v": v, "as": how}
    if how == "dask":
        e["c"] = comp_of(rng, len(v))
    return e


def rand_index(rng, shape, mode="get", chunks=None):
    """Random NumPy-style index for an array of ``shape``.

    mode "get": every construct the C20 statement names.  mode "set": what Array.__setitem__
    documents (no None).  Returns (enc, bare)."""
    nd = len(shape)
    from . import arrays as A

    if nd >= 1 and rng.random() < 0.08:
        how = rng.choice(("np", "dask", "dask")) if (mode == "get" or nd == 1) else "dask"
        e = {"k": "mask", "seed": rng.randrange(2 ** 31), "p": rng.choice((0.0, 0.3, 0.5, 0.5, 0.8, 1.1)), "as": how, "c": None}
        if how == "dask" and rng.random() < 0.6:
            e["c"] = [list(c) for c in A.rand_chunks(rng, shape)]
        return [e], rng.random() < 0.8
    fancy_budget = 2 if rng.random() < 0.06 else 1
    enc = []
    for n in shape:
        k = rng.choice(("slice", "slice", "slice", "full", "int", "int", "fancy", "fancy", "fancy"))
        if k == "fancy" and fancy_budget == 0:
            k = "slice"
        if k == "int" and n == 0 and rng.random() < 0.9:
            k = "slice"
        if k == "slice":
            enc.append(rand_slice(rng, n))
        elif k == "full":
            enc.append(copy.deepcopy(FULL))
        elif k == "int":
            if n == 0 or rng.random() < 0.02:
                v = n + rng.randint(0, 1) if rng.random() < 0.5 else -n - 1
            else:
                v = rng.randrange(-n, n)
            how = rng.choice(("py", "py", "py", "np", "dask" if mode == "get" else "py"))
            enc.append({"k": "int", "v": v, "as": how})
        else:
            fancy_budget -= 1
            if rng.random() < 0.6:
                e = rand_ilist(rng, n)
                if e["as"] == "dask" and chunks is not None and n > 0 and rng.random() < 0.12:
                    # "first element of every chunk" (a natural access pattern)
                    e["v"] = chunk_offsets(chunks[len(enc)])
                    e["c"] = [1] * len(e["v"]) if rng.random() < 0.7 else comp_of(rng, len(e["v"]))
                    e["dt"] = "int64"
                enc.append(e)
            else:
                enc.append(rand_blist(rng, n))
    # Ellipsis / truncation
    u = rng.random()
    if nd and u < 0.2:
        i = rng.randint(0, nd)
        j = rng.randint(i, nd)
        enc = enc[:i] + [{"k": "ell"}] + enc[j:]
    elif nd and u < 0.35:
        enc = enc[: rng.randint(0, nd)]
    elif nd == 0 and u < 0.5:
        enc = [{"k": "ell"}]
    if mode == "get":
        u = rng.random()
        for _ in range(2 if u < 0.04 else 1 if u < 0.16 else 0):
            enc.insert(rng.randint(0, len(enc)), {"k": "none"})
    bare = len(enc) == 1 and rng.random() < 0.7
    return enc, bare


def rand_vindex(rng, shape):
    """vindex point selection: >= 1 broadcasting integer array, optionally slices / ints / Ellipsis."""
    nd = len(shape)
    k = rng.choice((0, 1, 2, 3, 3, 4, 5, 8))
    bshape = rng.choice(((k,), (k,), (k,), (k,), (k,), (k, rng.randint(1, 3)), (k, rng.randint(1, 3)), (rng.randint(1, 3), k),
                         (rng.randint(1, 3), k), () if rng.random() < 0.3 else (k,)))
    kinds = []
    for n in shape:
        kind = rng.choice(("arr", "arr", "arr", "arr", "slice", "slice", "int", "full"))
        if n == 0 and kind in ("arr", "int"):
            kind = "slice"
        kinds.append(kind)
    if "arr" not in kinds:
        cand = [a for a, n in enumerate(shape) if n > 0]
        if not cand:
            return None
        kinds[rng.choice(cand)] = "arr"
    enc = []
    for n, kind in zip(shape, kinds):
        if kind == "arr":
            # a shape broadcastable to bshape
            s = list(bshape)
            for a in range(len(s)):
                if rng.random() < 0.25:
                    s[a] = 1
            if len(s) > 1 and rng.random() < 0.3:
                s = s[1:]
            elif rng.random() < 0.02:
                s = []
            cnt = int(np.prod(s)) if s else 1
            lo = -n if rng.random() < 0.4 else 0
            v = [rng.randint(lo, n - 1) for _ in range(cnt)]
            if v and rng.random() < 0.02:
                v[0] = n  # out of bounds: NumPy rejects
            enc.append({"k": "varr", "v": v, "shape": s, "as": rng.choice(("np", "np", "list"))})
        elif kind == "slice":
            enc.append(rand_slice(rng, n))
        elif kind == "int":
            enc.append({"k": "int", "v": rng.randrange(-n, n), "as": rng.choice(("py", "py", "np"))})
        else:
            enc.append(copy.deepcopy(FULL))
    u = rng.random()
    if u < 0.15:
        # replace a run of entries that contains no array by an Ellipsis, or put an empty one
        i = rng.randint(0, nd)
        j = i
        while j < nd and enc[j]["k"] != "varr" and rng.random() < 0.6:
            j += 1
        enc = enc[:i] + [{"k": "ell"}] + enc[j:]
    elif u < 0.25:
        j = nd
        while j > 0 and enc[j - 1]["k"] != "varr":
            j -= 1
        enc = enc[: rng.randint(j, nd)]
    return enc


def rand_blocks_index(rng, numblocks):
    enc = []
    have_list = False
    for nb in numblocks:
        k = rng.choice(("int", "int", "slice", "slice", "full", "list"))
        if k == "list" and have_list:
            k = "slice"
        if k == "int":
            enc.append({"k": "int", "v": rng.randrange(-nb, nb), "as": "py"})
        elif k == "slice":
            e = rand_slice(rng, nb)
            for _ in range(6):  # mostly non-empty selections (an empty one has no dask representation)
                if len(range(nb)[slice(*e["v"])]):
                    break
                e = rand_slice(rng, nb)
            enc.append(e)
        elif k == "full":
            enc.append(copy.deepcopy(FULL))
        else:
            have_list = True
            e = rand_ilist(rng, nb, allow_dask=False, allow_oob=0.0)
            if not e["v"]:
                e["v"] = [rng.randrange(-nb, nb)]
            enc.append(e)
    nd = len(numblocks)
    u = rng.random()
    if u < 0.15:
        i = rng.randint(0, nd)
        j = rng.randint(i, nd)
        enc = enc[:i] + [{"k": "ell"}] + enc[j:]
    elif u < 0.3:
        enc = enc[: rng.randint(1, nd)] if nd > 1 else enc
    return enc


# ----------------------------------------------------------------------------------------------
# reference semantics that are not plain x[index]
# ----------------------------------------------------------------------------------------------
def expand(nidx, ndim):
    """Replace Ellipsis and pad with full slices (index without None / full masks)."""
    nidx = list(nidx) if isinstance(nidx, tuple) else [nidx]
    pos = [i for i, v in enumerate(nidx) if v is Ellipsis]
    if pos:
        p = pos[0]
        nidx = nidx[:p] + [slice(None)] * (ndim - (len(nidx) - 1)) + nidx[p + 1:]
    nidx = nidx + [slice(None)] * (ndim - len(nidx))
    return nidx


def np_vindex(x, nidx):
    """Documented vindex semantics: integers and slices act as basic indices, the index arrays are
    broadcast against each other and 'the subspace spanned by arrays is followed by all slices'."""
    idx = expand(nidx, x.ndim)
    basic = tuple(i if isinstance(i, (slice, int, np.integer)) else slice(None) for i in idx)
    y = x[basic]
    reduced = [slice(None) if isinstance(i, slice) else np.asarray(i) for i in idx if not isinstance(i, (int, np.integer))]
    r = y[tuple(reduced)]
    apos = [p for p, i in enumerate(reduced) if not isinstance(i, slice)]
    if not apos:
        return r
    bnd = np.broadcast(*[reduced[p] for p in apos]).nd
    adjacent = apos == list(range(apos[0], apos[0] + len(apos)))
    if adjacent and apos[0] > 0:
        r = np.moveaxis(r, list(range(apos[0], apos[0] + bnd)), list(range(bnd)))
    return r


def np_outer(x, nidx):
    """'Orthogonal' reading of an index with ONE 1-d array: integers/slices/None are applied as a
    basic index first, then the array along its own axis.  Differs from NumPy exactly when NumPy moves
    the broadcast axis to the front (integer and array separated by a slice/None).  Diagnostic only."""
    idx = list(nidx) if isinstance(nidx, tuple) else [nidx]
    arr_pos = [p for p, i in enumerate(idx) if isinstance(i, (list, np.ndarray)) and np.ndim(i) == 1]
    if len(arr_pos) != 1:
        return None
    p = arr_pos[0]
    basic = list(idx)
    basic[p] = slice(None)
    y = x[tuple(basic)]
    # result axis of the array's dimension after the basic index
    ax = 0
    ell = [q for q, i in enumerate(idx) if i is Ellipsis]
    n_real = sum(1 for i in idx if i is not None and i is not Ellipsis)
    for q, i in enumerate(idx[:p]):
        if i is Ellipsis:
            ax += x.ndim - n_real
        elif isinstance(i, (int, np.integer)):
            pass
        else:
            ax += 1
    a = np.asarray(idx[p])
    if a.dtype == bool:
        a = np.nonzero(a)[0]
    if a.size == 0:
        a = a.astype("intp")
    return np.take(y, a, axis=ax)


def adv_nonadjacent(nidx):
    """NumPy rule: integers count as advanced indices next to an array index; True when the advanced
    indices are separated by a slice / None / Ellipsis (the broadcast axis then goes first)."""
    idx = list(nidx) if isinstance(nidx, tuple) else [nidx]
    adv = [isinstance(i, (int, np.integer, list, np.ndarray)) and not isinstance(i, bool) for i in idx]
    has_arr = any(isinstance(i, (list, np.ndarray)) and np.ndim(i) >= 1 for i in idx)
    if not has_arr:
        return False
    pos = [p for p, a in enumerate(adv) if a]
    return bool(pos) and pos != list(range(pos[0], pos[-1] + 1))


def blocks_reference(x, chunks, nidx):
    """Expected value and chunks of ``dx.blocks[nidx]``: the selected blocks, dimensionality kept."""
    numblocks = tuple(len(c) for c in chunks)
    idx = expand(nidx, len(chunks))
    elems, newchunks = [], []
    for ax, (i, c) in enumerate(zip(idx, chunks)):
        sel = np.arange(numblocks[ax])[i if not isinstance(i, list) else np.array(i, dtype="intp")]
        sel = np.atleast_1d(sel)
        off = np.concatenate([[0], np.cumsum(c)]).astype(int)
        el = [np.arange(off[b], off[b + 1]) for b in sel]
        elems.append(np.concatenate(el).astype("intp") if el else np.zeros(0, dtype="intp"))
        newchunks.append(tuple(int(c[b]) for b in sel))
    if not chunks:
        return x[()], ()
    return x[np.ix_(*elems)], tuple(newchunks)


# ----------------------------------------------------------------------------------------------
# feature tokens for labels
# ----------------------------------------------------------------------------------------------
def chunk_offsets(c):
    out, acc = [], 0
    for ci in c:
        out.append(acc)
        acc += ci
    return out


def slice_token(v, n):
    a, b, c = v
    f = []
    if c is not None and c < 0:
        f.append("negstep")
    if c is not None and abs(c) > 1:
        f.append("|step|>1")
    if n is not None:
        for name, val in (("start", a), ("stop", b)):
            if val is None:
                continue
            if val < -n:
                f.append(name + "<-n")
            elif val < 0:
                f.append(name + "<0")
            elif val >= n:
                f.append(name + ">=n")
    return "slice[%s]" % ",".join(f) if f else "slice"


def tokens(enc, shape, chunks=None):
    axes = axis_of_entries(enc, len(shape))
    out = set()
    for e, ax in zip(enc, axes):
        k = e["k"]
        if is_full(e):
            continue
        if k == "none":
            out.add("None")
        elif k == "ell":
            out.add("Ellipsis")
        elif k == "int":
            how = e.get("as", "py")
            out.add(("dask-0d-int" if how == "dask" else "np-int" if how == "np" else "int") + ("<0" if e["v"] < 0 else ""))
        elif k == "slice":
            n = shape[ax] if ax is not None and ax < len(shape) else None
            out.add(slice_token(e["v"], n))
        elif k in ("ilist", "varr"):
            v = list(e["v"])
            f = []
            if not v:
                f.append("empty")
            if any(i < 0 for i in v):
                f.append("neg")
            if len(set(v)) < len(v):
                f.append("dup")
            if v != sorted(v):
                f.append("unsorted")
            if k == "varr" and len(e["shape"]) != 1:
                f.append("%dd" % len(e["shape"]))
            if (k == "ilist" and e.get("as") == "dask" and chunks is not None and ax is not None and ax < len(chunks) and v
                    and v == chunk_offsets(chunks[ax]) and all(c == 1 for c in (e.get("c") or [len(v)]))):
                f.append("=chunk-offsets")
            name = {"list": "int-list", "np": "int-array", "dask": "dask-int-array"}[e.get("as", "list" if k == "ilist" else "np")]
            out.add(name + ("[%s]" % ",".join(f) if f else ""))
        elif k == "blist":
            name = {"list": "bool-list", "np": "bool-array", "dask": "dask-bool-array"}[e.get("as", "list")]
            out.add(name + ("[none-selected]" if len(e["v"]) and not any(e["v"]) else ""))
        elif k == "mask":
            out.add(("full-shape-dask-mask[own-chunks]" if e.get("c") else "full-shape-dask-mask") if e.get("as") == "dask" else "full-shape-mask")
    return sorted(out)


# ----------------------------------------------------------------------------------------------
# shrinker
# ----------------------------------------------------------------------------------------------
def _entry_candidates(e, n):
    """Simpler variants of one entry indexing an axis of length n."""
    k = e["k"]
    if k == "mask":
        if e.get("as") == "dask":
            yield dict(e, **{"as": "np", "c": None})
            if e.get("c"):
                yield dict(e, c=None)
        if e["p"] != 1.1:
            yield dict(e, p=1.1)
        return
    if is_full(e):
        return
    yield copy.deepcopy(FULL)
    if k == "slice":
        a, b, c = e["v"]
        if [a, b, c] != [0, 0, None]:
            yield {"k": "slice", "v": [0, 0, None]}
        if a is not None:
            yield {"k": "slice", "v": [None, b, c]}
        if b is not None:
            yield {"k": "slice", "v": [a, None, c]}
        if c is not None:
            yield {"k": "slice", "v": [a, b, None]}
            if abs(c) > 1:
                yield {"k": "slice", "v": [a, b, 1 if c > 0 else -1]}
    elif k == "int":
        if e.get("as", "py") == "dask":
            yield {"k": "ilist", "v": [e["v"]], "as": "dask", "dt": "int64", "c": [1]}
        if e.get("as", "py") != "py":
            yield dict(e, **{"as": "py"})
        if e["v"] != 0 and n > 0:
            yield dict(e, v=0)
        if e["v"] < 0 and n > 0:
            yield dict(e, v=e["v"] + n)
    elif k in ("ilist", "blist", "varr"):
        how = e.get("as", "list")
        if k == "blist" and how != "dask":
            yield {"k": "ilist", "v": [i for i, b in enumerate(e["v"]) if b], "as": how, "dt": "int64"}
        if how == "dask":
            yield dict(e, **{"as": "np"})
        elif how == "np" and k != "varr":
            yield dict(e, **{"as": "list"})
        if k == "ilist":
            v = list(e["v"])
            if e.get("dt", "int64") != "int64":
                yield dict(e, dt="int64")
            if any(i < 0 for i in v) and n:
                yield dict(e, v=[i + n if i < 0 else i for i in v])
            if v != sorted(v):
                yield dict(e, v=sorted(v))
            if len(set(v)) < len(v):
                d = list(dict.fromkeys(v))
                yield dict(e, v=d, c=[len(d)])
            if len(v) >= 2 and v != [0, 1] and n >= 2:
                yield dict(e, v=[0, 1], c=[2])
            if len(v) > 1:
                yield dict(e, v=v[:1], c=[1])
                yield dict(e, v=v[: len(v) // 2], c=[len(v) // 2])
                yield dict(e, v=v[len(v) // 2:], c=[len(v) - len(v) // 2])
            if v == [0] and n > 1:
                yield dict(e, v=[1])
            if e.get("c") and len(e["c"]) > 1:
                yield dict(e, c=[len(v)])
        elif k == "blist":
            if not all(e["v"]):
                yield dict(e, v=[1] * len(e["v"]))
            if e.get("c") and len(e["c"]) > 1:
                yield dict(e, c=[len(e["v"])])
        elif k == "varr":
            v = list(e["v"])
            if any(i < 0 for i in v) and n:
                yield dict(e, v=[i + n if i < 0 else i for i in v])
            if any(i != 0 for i in v):
                yield dict(e, v=[0] * len(v))
            if len(e["shape"]) > 1:
                yield dict(e, shape=[len(v)])


def candidates(enc, shape, chunks, fixed_layout=False):
    """Simpler (index, shape, chunks) variants, each differing from the input in one place.
    With ``fixed_layout`` only the index changes (``shape`` then is the index space, e.g. numblocks)."""
    nd = len(shape)
    axes = axis_of_entries(enc, nd)
    for p, (e, ax) in enumerate(zip(enc, axes)):
        if e["k"] == "none":
            yield enc[:p] + enc[p + 1:], shape, chunks
            continue
        if e["k"] == "ell":
            used = sum(1 for q in enc if q["k"] not in ("none", "ell"))
            yield enc[:p] + [copy.deepcopy(FULL) for _ in range(max(0, nd - used))] + enc[p + 1:], shape, chunks
            continue
        n = shape[ax] if ax is not None and ax < nd else 0
        for new in _entry_candidates(e, n):
            out = copy.deepcopy(enc)
            out[p] = new
            yield out, shape, chunks
    if fixed_layout:
        return
    # an integer list on a split axis: the first elements of the first two chunks
    for p, (e, ax) in enumerate(zip(enc, axes)):
        if e["k"] == "ilist" and ax is not None and ax < nd and len(chunks[ax]) > 1 and chunks[ax][0] < shape[ax]:
            v = [0, chunks[ax][0]]
            old = list(e["v"])
            if old != v and (len(old) > 2 or old != sorted(set(old)) or any(i < 0 for i in old)):
                out = copy.deepcopy(enc)
                out[p] = dict(e, v=v, c=[2])
                yield out, shape, chunks
    # no zero-size chunks inside an axis
    for a in range(nd):
        if len(chunks[a]) > 1 and 0 in chunks[a]:
            yield enc, shape, chunks[:a] + (tuple(c for c in chunks[a] if c) or (0,),) + chunks[a + 1:]
    # one chunk on an axis
    for a in range(nd):
        if len(chunks[a]) > 1:
            yield enc, shape, chunks[:a] + ((shape[a],),) + chunks[a + 1:]
    has_mask = any(e["k"] == "mask" for e in enc)
    has_ell = any(e["k"] == "ell" for e in enc)
    touched = {ax: p for p, (e, ax) in enumerate(zip(enc, axes)) if ax is not None}
    for a in range(nd):
        p = touched.get(a)
        if shape[a] == 0 and p is not None and not has_mask and enc[p]["k"] in ("blist", "ilist", "slice") and not is_full(enc[p]):
            # an indexed zero-length axis: give it length 2 (boolean indexers grow with it)
            enc2 = copy.deepcopy(enc)
            if enc2[p]["k"] == "blist":
                enc2[p]["v"] = [1, 1]
                enc2[p]["c"] = [2]
            yield enc2, shape[:a] + (2,) + shape[a + 1:], chunks[:a] + ((2,),) + chunks[a + 1:]
        untouched = has_mask or ((p is None and not has_ell) or (p is not None and is_full(enc[p])))
        if not untouched:
            continue
        # drop the axis
        if nd > 1 or not has_mask:
            enc2 = enc if (has_mask or p is None) else enc[:p] + enc[p + 1:]
            enc2 = [dict(e, c=None) if e["k"] == "mask" else e for e in enc2]
            yield enc2, shape[:a] + shape[a + 1:], chunks[:a] + chunks[a + 1:]
        # a zero-length axis that is not indexed: give it length 2
        if shape[a] == 0:
            enc2 = [dict(e, c=None) if e["k"] == "mask" else e for e in enc]
            yield enc2, shape[:a] + (2,) + shape[a + 1:], chunks[:a] + ((2,),) + chunks[a + 1:]


def shrink(enc, shape, chunks, probe, sym, accept=None, budget=500, fixed_layout=False):
    """Greedy reduction.  ``probe(enc, shape, chunks)`` -> symptom of the failure or None.
    accept(symptom) decides whether a failing variant is taken (default: same symptom only); the symptom
    follows the accepted variant.  Returns (enc, shape, chunks, symptom)."""
    shape = tuple(shape)
    chunks = tuple(tuple(c) for c in chunks)
    changed = True
    while changed and budget > 0:
        changed = False
        for enc2, shape2, chunks2 in candidates(enc, shape, chunks, fixed_layout):
            budget -= 1
            if budget <= 0:
                break
            try:
                s = probe(enc2, shape2, chunks2)
            except Exception:  # noqa: BLE001 - a harness problem while shrinking never decides anything
                s = None
            if s is not None and (accept(s) if accept else s == sym):
                enc, shape, chunks, sym = enc2, tuple(shape2), tuple(chunks2), s
                changed = True
                break
    return enc, shape, chunks, sym


def zero_chunk_inside(chunks):
    """Some axis has several chunks one of which is empty."""
    return any(len(c) > 1 and 0 in c for c in chunks)


def label_features(enc, shape, chunks, layout=True):
    t = "+".join(tokens(enc, shape, chunks if layout else None)) or "full-slices"
    if layout and zero_chunk_inside(chunks):
        t += "&zero-size-chunk"
    elif layout and any(len(c) > 1 for c in chunks):
        t += "&split-chunks"
    if layout and 0 in shape:
        t += "&zero-length-axis"
    return t


# ----------------------------------------------------------------------------------------------
# block-wise agreement of lazy chunks with what the graph produces
# ----------------------------------------------------------------------------------------------
def _isnan(c):
    return isinstance(c, float) and np.isnan(c)


def blockwise_mismatch(darr, whole):
    """Every block of the result graph has the shape .chunks declares (nan matches anything) and the
    blocks put together give ``whole``.  -> (kind, msg) | None"""
    from dask.local import get_sync

    keys = darr.__dask_keys__()
    nested = get_sync(dict(darr.__dask_graph__()), keys)
    nb = darr.numblocks
    if darr.ndim == 0:
        blk = np.asarray(nested[0])
        if blk.shape != ():
            return ("block-shape", "0-d result block has shape %s" % (blk.shape,))
        return None

    def at(idx):
        b = nested
        for i in idx:
            b = b[i]
        return b

    for idx in itertools.product(*[range(n) for n in nb]):
        blk = at(idx)
        bs = np.shape(blk)
        decl = tuple(darr.chunks[a][i] for a, i in enumerate(idx))
        if len(bs) != len(decl) or any((not _isnan(d)) and d != s for d, s in zip(decl, bs)):
            return ("block-shape", "block %s has shape %s, .chunks declare %s" % (idx, bs, decl))

    def cat(level, prefix):
        if level == darr.ndim:
            return np.asarray(at(prefix))
        return np.concatenate([cat(level + 1, prefix + (i,)) for i in range(nb[level])], axis=level)

    try:
        asm = cat(0, ())
    except ValueError as ex:
        return ("block-shape", "blocks do not fit together: %s" % (ex,))
    whole = np.asarray(whole)
    if asm.shape != whole.shape:
        return ("block-placement", "assembled blocks have shape %s, computed value %s" % (asm.shape, whole.shape))
    try:
        np.testing.assert_array_equal(asm, whole)
    except AssertionError:
        return ("block-placement", "assembled blocks differ from the computed value")
    return None
