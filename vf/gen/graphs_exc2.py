"""A second, unrelated exception class that happens to share its NAME with vf.gen.graphs.Boom.
Same-named classes from different libraries are common (binascii.Error vs csv.Error); code that
caches anything per exception *name* instead of per class confuses them."""


class Boom(LookupError):
    def __init__(self, msg, extra=None):
        super().__init__(msg)
        self.extra = extra

    def __reduce__(self):
        return (Boom, (self.args[0], self.extra))
