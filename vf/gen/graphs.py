"""Graph programs: a tiny term language owned by the harness.

A program is a DAG of nodes (topologically numbered).  From one program we emit
  * the legacy dict graph (tuples, lists, quoted literals),
  * the task-spec graph (Task, Alias, DataNode, List/Tuple/Dict, TaskRef),
  * the expected value of every key, by direct recursive evaluation here
    (no dask import) -- the reference for "the value the graph denotes".

Task functions are TFn objects (picklable) that log start/end events with a
digest of the arguments they received, so monitors can tell exactly what ran,
how often, and on which inputs.
"""
from __future__ import annotations

import hashlib
import itertools
import json
import os
import random
import threading
import time

# --------------------------------------------------------------------------
# values


def H(x) -> str:
    """Short stable digest of a plain value (str/int/float/None/bool/list/tuple/dict)."""
    return hashlib.blake2b(_canon(x).encode(), digest_size=5).hexdigest()


def _canon(x):
    if isinstance(x, dict):
        return "{" + ",".join(sorted(_canon(k) + ":" + _canon(v) for k, v in x.items())) + "}"
    if isinstance(x, list):
        return "[" + ",".join(map(_canon, x)) + "]"
    if isinstance(x, tuple):
        return "(" + ",".join(map(_canon, x)) + ")"
    if isinstance(x, (set, frozenset)):
        return "s{" + ",".join(sorted(map(_canon, x))) + "}"
    return type(x).__name__ + ":" + repr(x)


# pure total functions of the term language -----------------------------------

def _tag(name):
    def f(*a, **kw):
        return (name, H((a, sorted(kw.items()))))
    f.__name__ = name
    return f


FUNCS = {
    "f": _tag("f"),
    "g": _tag("g"),
    "h": _tag("h"),
    "ident": lambda x: x,
    "lst": lambda *a: list(a),
    "tup": lambda *a: tuple(a),
    "first": lambda x, *r: x,
}
UNARY = ("ident", "first")

# --------------------------------------------------------------------------
# event sink (one logical clock; in-process list or O_APPEND file for processes)

_LOCK = threading.Lock()
LOG: list = []           # in-process event list; the monitors read it
_CLOCK = itertools.count()


def log_event(ev: tuple):
    with _LOCK:
        LOG.append((next(_CLOCK),) + ev)


def reset_log():
    with _LOCK:
        del LOG[:]


RUN = [0]   # id of the latest graph emission; task events of older emissions (stragglers of a
            # shared thread pool that outlived a failed call) are not part of the current history


def events():
    with _LOCK:
        cur = RUN[0]
        return [ev for ev in LOG if ev[1] not in ("start", "end", "raise") or ev[5] == cur]


class Boom(Exception):
    """Harness exception with an extra constructor argument."""

    def __init__(self, msg, extra=None):
        super().__init__(msg)
        self.extra = extra

    def __reduce__(self):
        return (Boom, (self.args[0], self.extra))


class BaseBoom(BaseException):
    """A BaseException subclass that is not an Exception."""


class UnpicklableBoom(Exception):
    """Raised with an unpicklable attribute attached after construction (see TFn.__call__)."""


class _Refuses:
    """Attribute whose pickling fails with an exception type other than PicklingError/TypeError/AttributeError."""

    def __init__(self, kind):
        self.kind = kind

    def __reduce__(self):
        raise {"VE": ValueError, "RE": RuntimeError, "NI": NotImplementedError}[self.kind]("cannot pickle this resource (%s)" % self.kind)


from .graphs_exc2 import Boom as Boom2  # noqa: E402  (a different class with the same __name__)

EXC = {"ValueError": ValueError, "KeyError": KeyError, "Boom": Boom, "BaseBoom": BaseBoom,
       "UnpicklableBoom": UnpicklableBoom, "ZeroDivisionError": ZeroDivisionError, "Boom2": Boom2,
       # the same exception class, made unpicklable through an attribute whose pickling fails with another error type
       "UnpicklableBoomVE": UnpicklableBoom, "UnpicklableBoomRE": UnpicklableBoom, "UnpicklableBoomNI": UnpicklableBoom}


class TFn:
    """Traced task function.  Picklable; logs start/end with the digest of its arguments."""

    def __init__(self, idx, fname, fail=None, delay=0.0, logpath=None, rid=0):
        self.rid = rid
        self.idx = idx
        self.fname = fname
        self.fail = fail
        self.delay = delay
        self.logpath = logpath
        self.__name__ = "%s_%d" % (fname, idx)

    def _emit(self, kind, digest):
        if self.logpath:
            line = json.dumps([time.monotonic_ns(), kind, self.idx, digest, os.getpid()]) + "\n"
            fd = os.open(self.logpath, os.O_WRONLY | os.O_APPEND | os.O_CREAT)
            try:
                os.write(fd, line.encode())
            finally:
                os.close(fd)
        else:
            log_event((kind, self.idx, digest, threading.get_ident(), self.rid))

    def __call__(self, *a, **kw):
        d = H((a, sorted(kw.items())))
        self._emit("start", d)
        if self.delay:
            time.sleep(self.delay)
        if self.fail:
            self._emit("raise", d)
            msg = "boom-%d" % self.idx
            if self.fail == "Boom":
                raise Boom(msg, extra=self.idx)
            if self.fail == "Boom2":
                raise Boom2(msg, extra=self.idx)
            if self.fail == "UnpicklableBoom":
                e = UnpicklableBoom(msg)
                e.handle = threading.Lock()  # makes pickling the exception object fail
                raise e
            if self.fail.startswith("UnpicklableBoom"):
                e = UnpicklableBoom(msg)
                e.resource = _Refuses(self.fail[-2:])
                raise e
            raise EXC[self.fail](msg)
        out = FUNCS[self.fname](*a, **kw)
        self._emit("end", d)
        return out

    def __repr__(self):
        return "TFn(%d,%s%s)" % (self.idx, self.fname, ",fail=" + self.fail if self.fail else "")

    def __eq__(self, o):
        return isinstance(o, TFn) and (self.idx, self.fname, self.fail) == (o.idx, o.fname, o.fail)

    def __hash__(self):
        return hash((self.idx, self.fname, self.fail))


# --------------------------------------------------------------------------
# programs

class Node:
    __slots__ = ("idx", "key", "kind", "fn", "args", "kwargs", "lit", "fail")

    def __init__(self, idx, key, kind, fn=None, args=(), kwargs=None, lit=None, fail=None):
        self.idx, self.key, self.kind, self.fn = idx, key, kind, fn
        self.args, self.kwargs, self.lit, self.fail = list(args), dict(kwargs or {}), lit, fail


# Arg forms: ("ref", j) | ("lit", v) | ("list", [Arg]) | ("tuple", [Arg]) | ("dict", [(k, Arg)]) | ("call", fname, [Arg])

def arg_refs(a, out=None):
    out = set() if out is None else out
    t = a[0]
    if t == "ref":
        out.add(a[1])
    elif t in ("list", "tuple"):
        for x in a[1]:
            arg_refs(x, out)
    elif t == "dict":
        for _, x in a[1]:
            arg_refs(x, out)
    elif t == "call":
        for x in a[2]:
            arg_refs(x, out)
    return out


class Program:
    def __init__(self, nodes):
        self.nodes = nodes
        self.bykey = {n.key: n for n in nodes}

    def deps(self, n: Node):
        out = set()
        for a in n.args:
            arg_refs(a, out)
        for a in n.kwargs.values():
            arg_refs(a, out)
        return out

    def dep_map(self):
        return {n.idx: self.deps(n) for n in self.nodes}

    def needed(self, idxs):
        dm = self.dep_map()
        need, st = set(), list(idxs)
        while st:
            i = st.pop()
            if i in need:
                continue
            need.add(i)
            st.extend(dm[i])
        return need

    # ---- reference evaluation --------------------------------------------------
    def evaluate(self):
        """value (or ('!fail', idx) marker) of every node, by direct recursion."""
        val = {}

        class Failed(Exception):
            pass

        def ev_arg(a):
            t = a[0]
            if t == "ref":
                v = val[a[1]]
                if isinstance(v, tuple) and len(v) == 2 and v[0] == "!fail":
                    raise Failed(v[1])
                return v
            if t == "lit":
                return a[1]
            if t == "list":
                return [ev_arg(x) for x in a[1]]
            if t == "tuple":
                return tuple(ev_arg(x) for x in a[1])
            if t == "dict":
                return {k: ev_arg(x) for k, x in a[1]}
            if t == "call":
                return FUNCS[a[1]](*[ev_arg(x) for x in a[2]])
            raise AssertionError(a)

        for n in self.nodes:
            try:
                if n.kind == "lit":
                    val[n.idx] = n.lit
                elif n.kind == "alias":
                    val[n.idx] = ev_arg(n.args[0])
                elif n.kind == "seq":
                    val[n.idx] = [ev_arg(a) for a in n.args]
                elif n.kind == "call":
                    args = [ev_arg(a) for a in n.args]
                    kw = {k: ev_arg(a) for k, a in n.kwargs.items()}
                    if n.fail:
                        val[n.idx] = ("!fail", n.idx)
                    else:
                        val[n.idx] = FUNCS[n.fn](*args, **kw)
                else:
                    raise AssertionError(n.kind)
            except Failed as f:
                val[n.idx] = ("!fail", f.args[0])
        return val

    def arg_digests(self, val):
        """digest of the arguments each call node must receive (for 'receives their computed values')."""
        out = {}

        def ev_arg(a):
            t = a[0]
            if t == "ref":
                return val[a[1]]
            if t == "lit":
                return a[1]
            if t == "list":
                return [ev_arg(x) for x in a[1]]
            if t == "tuple":
                return tuple(ev_arg(x) for x in a[1])
            if t == "dict":
                return {k: ev_arg(x) for k, x in a[1]}
            if t == "call":
                return FUNCS[a[1]](*[ev_arg(x) for x in a[2]])

        for n in self.nodes:
            if n.kind == "call":
                try:
                    a = tuple(ev_arg(x) for x in n.args)
                    kw = sorted((k, ev_arg(x)) for k, x in n.kwargs.items())
                    out[n.idx] = H((a, kw))
                except Exception:  # a failed ancestor: never runs
                    out[n.idx] = None
        return out

    # ---- emission ------------------------------------------------------------------
    def tfn(self, n, delays=None, logpath=None):
        return TFn(n.idx, n.fn, fail=n.fail, delay=(delays or {}).get(n.idx, 0.0), logpath=logpath, rid=RUN[0])

    def legacy(self, delays=None, logpath=None):
        RUN[0] += 1
        from dask.core import literal

        def quote(v):
            return (literal(v),)

        keys = set(self.bykey)

        def em(a):
            t = a[0]
            if t == "ref":
                return self.nodes[a[1]].key
            if t == "lit":
                return _quote_if_needed(a[1], keys, quote)
            if t == "list":
                return [em(x) for x in a[1]]
            if t == "tuple":
                # a non-call tuple in a legacy graph: emitted through an explicit call so that
                # the meaning does not depend on undocumented tuple traversal
                return (tuple, [em(x) for x in a[1]])
            if t == "dict":
                return (dict, [[k, em(x)] for k, x in a[1]])
            if t == "call":
                return (FUNCS[a[1]],) + tuple(em(x) for x in a[2])

        dsk = {}
        for n in self.nodes:
            if n.kind == "lit":
                dsk[n.key] = _quote_if_needed(n.lit, keys, quote)
            elif n.kind == "alias":
                dsk[n.key] = em(n.args[0])
            elif n.kind == "seq":
                dsk[n.key] = [em(a) for a in n.args]
            else:
                f = self.tfn(n, delays, logpath)
                if n.kwargs:
                    from dask.utils import apply

                    dsk[n.key] = (apply, f, [em(a) for a in n.args], (dict, [[k, em(a)] for k, a in n.kwargs.items()]))
                else:
                    dsk[n.key] = (f,) + tuple(em(a) for a in n.args)
        return dsk

    def spec(self, delays=None, logpath=None):
        RUN[0] += 1
        from dask._task_spec import Alias, DataNode, Dict, List, Task, TaskRef, Tuple

        def em(a):
            t = a[0]
            if t == "ref":
                return TaskRef(self.nodes[a[1]].key)
            if t == "lit":
                return DataNode(None, a[1]) if _is_containerish(a[1]) else a[1]
            if t == "list":
                return List(*[em(x) for x in a[1]])
            if t == "tuple":
                return Tuple(*[em(x) for x in a[1]])
            if t == "dict":
                return Dict({k: em(x) for k, x in a[1]})
            if t == "call":
                return Task(None, FUNCS[a[1]], *[em(x) for x in a[2]])

        dsk = {}
        for n in self.nodes:
            if n.kind == "lit":
                dsk[n.key] = DataNode(n.key, n.lit)
            elif n.kind == "alias":
                a = n.args[0]
                dsk[n.key] = Alias(n.key, self.nodes[a[1]].key) if a[0] == "ref" else Task(n.key, FUNCS["ident"], em(a))
            elif n.kind == "seq":
                dsk[n.key] = Task(n.key, FUNCS["lst"], *[em(a) for a in n.args])
            else:
                dsk[n.key] = Task(n.key, self.tfn(n, delays, logpath), *[em(a) for a in n.args],
                                  **{k: em(a) for k, a in n.kwargs.items()})
        return dsk

    def describe(self):
        def sa(a):
            t = a[0]
            if t == "ref":
                return "@%d" % a[1]
            if t == "lit":
                return repr(a[1])
            if t in ("list", "tuple"):
                return t[0] + "[" + ",".join(sa(x) for x in a[1]) + "]"
            if t == "dict":
                return "{" + ",".join("%s:%s" % (k, sa(x)) for k, x in a[1]) + "}"
            return "%s(%s)" % (a[1], ",".join(sa(x) for x in a[2]))
        out = []
        for n in self.nodes:
            if n.kind == "lit":
                out.append("%d:%r=lit %r" % (n.idx, n.key, n.lit))
            else:
                out.append("%d:%r=%s%s %s(%s%s)" % (n.idx, n.key, n.kind, "!" + n.fail if n.fail else "", n.fn or "",
                                                   ",".join(sa(a) for a in n.args),
                                                   "".join(",%s=%s" % (k, sa(a)) for k, a in n.kwargs.items())))
        return out


def _is_containerish(v):
    return isinstance(v, (list, tuple, dict, set))


def _quote_if_needed(v, keys, quote):
    """A literal that could be mistaken for graph syntax (equals a key, contains a key,
    is a tuple headed by a callable, is a list) is quoted in a legacy graph."""
    if isinstance(v, (list, tuple, dict, set)):
        return quote(v)
    try:
        if v in keys:
            return quote(v)
    except TypeError:
        pass
    return v


# --------------------------------------------------------------------------
# keys

def key_of(style, i, perm=None):
    j = perm[i] if perm else i
    if style == "str":
        return "k%d" % j
    if style == "int":
        return j
    if style == "tuple":
        return ("x", j)
    if style == "tuple2":
        return ("x", j // 2, j % 2)
    if style == "odd":
        # the less usual legal key types (dask.typing.Key = str | int | float | tuple of keys; bytes is not a key type):
        # floats and tuples holding a float
        return (j + 0.5) if j % 2 == 0 else ("x", j, 0.5)
    # mixed
    return ("x", j) if j % 3 == 0 else ("k%d" % j if j % 3 == 1 else 100 + j)


KEY_STYLES = ("str", "int", "tuple", "tuple2", "mixed", "odd")

# literal pool disjoint from every key style above (ints < 100 collide with "int" keys on purpose only via key-like literals)
LITS = ["a", "zz", 1000, 2000.5, None, True, ("t", "u"), [1000, "a"], {"q": 1000}, "", 0.0 - 0.0]


# --------------------------------------------------------------------------
# generators

def shapes(n):
    """All DAG shapes on n topologically numbered nodes: node i may depend on j < i."""
    pairs = [(j, i) for i in range(n) for j in range(i)]
    for mask in range(2 ** len(pairs)):
        yield mask


def shape_deps(n, mask):
    pairs = [(j, i) for i in range(n) for j in range(i)]
    deps = {i: [] for i in range(n)}
    for b, (j, i) in enumerate(pairs):
        if mask >> b & 1:
            deps[i].append(j)
    return deps


def kind_choices(ndeps):
    if ndeps == 0:
        return ("lit", "call")
    if ndeps == 1:
        return ("call", "alias", "seq")
    return ("call", "seq")


def small_program(n, mask, kinds, style="str", perm=None, fail=(), fns=None):
    """Program for a small shape with one kind per node; args are plain refs."""
    deps = shape_deps(n, mask)
    nodes = []
    for i in range(n):
        k = kinds[i]
        key = key_of(style, i, perm)
        args = [("ref", j) for j in deps[i]]
        if k == "lit":
            nodes.append(Node(i, key, "lit", lit=LITS[i % 4]))
        elif k == "alias":
            nodes.append(Node(i, key, "alias", args=args[:1]))
        elif k == "seq":
            nodes.append(Node(i, key, "seq", args=args))
        else:
            nodes.append(Node(i, key, "call", fn=(fns or "fgh")[i % 3] if not fns else fns[i], args=args,
                              fail=dict(fail).get(i) if fail else None))
    return Program(nodes)


def random_program(rng: random.Random, n, style="str", family=None, rich=True, nfail=0, fail_kinds=("ValueError",)):
    """Random larger program.  family: layered | tree | diamond | fan | shuffle | random."""
    family = family or rng.choice(("layered", "tree", "diamond", "fan", "shuffle", "random"))
    perm = list(range(n))
    rng.shuffle(perm)
    deps = {i: [] for i in range(n)}
    if family == "tree":
        # reduction tree: leaves first, then pairwise combines
        nleaf = max(2, (n + 1) // 2)
        level = list(range(nleaf))
        nxt = nleaf
        while nxt < n and len(level) > 1:
            new = []
            for a in range(0, len(level), 2):
                if nxt >= n:
                    new.extend(level[a:])
                    break
                deps[nxt] = level[a:a + 2]
                new.append(nxt)
                nxt += 1
            level = new
    elif family == "diamond":
        w = max(2, int(n ** 0.5))
        for i in range(n):
            r, c = divmod(i, w)
            if r > 0:
                deps[i] = sorted({(r - 1) * w + c, (r - 1) * w + (c + 1) % w})
    elif family == "fan":
        hub = n // 2
        for i in range(1, n):
            if i < hub:
                deps[i] = [0] if rng.random() < 0.5 else []
            elif i == hub:
                deps[i] = list(range(hub))
            else:
                deps[i] = [hub] + ([i - 1] if rng.random() < 0.3 and i - 1 > hub else [])
    elif family == "shuffle":
        w = max(2, n // 3)
        for i in range(w, n):
            lo = ((i // w) - 1) * w
            deps[i] = list(range(lo, min(lo + w, i)))
    elif family == "pairs":
        # many independent roots, then one task per (random) pair of roots, then a few joins:
        # wide ready lists whose batches become half-empty (stresses batch/worker accounting)
        r = max(3, min(n - 1, int((2 * n) ** 0.5) + rng.randint(0, 2)))
        for i in range(r, n):
            if i < n - max(1, n // 8):
                deps[i] = sorted(rng.sample(range(r), 2))
            else:
                deps[i] = sorted(rng.sample(range(r, i), min(i - r, rng.randint(1, 3)))) if i > r else []
    elif family == "layered":
        layers = []
        i = 0
        while i < n:
            w = rng.randint(1, 6)
            layers.append(list(range(i, min(n, i + w))))
            i += w
        for li in range(1, len(layers)):
            pool = layers[li - 1] + (layers[li - 2] if li > 1 and rng.random() < 0.3 else [])
            for v in layers[li]:
                deps[v] = sorted(rng.sample(pool, rng.randint(0 if rng.random() < 0.1 else 1, min(3, len(pool)))))
    else:
        for i in range(1, n):
            k = rng.randint(0, min(3, i))
            deps[i] = sorted(rng.sample(range(i), k))
    failset = set(rng.sample(range(n), min(nfail, n))) if nfail else set()
    nodes = []
    for i in range(n):
        key = key_of(style, i, perm)
        ds = deps[i]
        kind = rng.choice(kind_choices(len(ds)) + ("call",) * 3)
        if i in failset or family == "pairs":
            kind = "call"
        if kind == "lit":
            nodes.append(Node(i, key, "lit", lit=rng.choice(LITS)))
            continue
        if kind == "alias":
            nodes.append(Node(i, key, "alias", args=[("ref", ds[0])]))
            continue
        if kind == "seq":
            nodes.append(Node(i, key, "seq", args=[("ref", j) for j in ds]))
            continue
        args, kwargs = [], {}
        refs = [("ref", j) for j in ds]
        rng.shuffle(refs)
        if rich:
            # wrap some refs in nested containers / nested calls, sprinkle literals
            while refs:
                r = rng.random()
                take = refs[: rng.randint(1, min(3, len(refs)))]
                refs = refs[len(take):]
                if r < 0.45:
                    args.extend(take)
                elif r < 0.6:
                    args.append(("list", take + ([("lit", rng.choice(LITS[:6]))] if rng.random() < 0.3 else [])))
                elif r < 0.7:
                    args.append(("tuple", take))
                elif r < 0.8:
                    args.append(("dict", [("d%d" % q, t) for q, t in enumerate(take)]))
                elif r < 0.9:
                    args.append(("call", rng.choice("fgh"), take))
                else:
                    args.append(("list", [("list", take), ("tuple", [("lit", 1000)])]))
            if rng.random() < 0.25:
                args.append(("lit", rng.choice(LITS)))
            if args and rng.random() < 0.2:
                kwargs["kw"] = args.pop()
        else:
            args = refs
        fn = rng.choice("fgh") if (len(args) != 1 or rng.random() < 0.7) else rng.choice(UNARY)
        if rng.random() < 0.1:
            fn = rng.choice(("lst", "tup"))
        if kwargs and fn not in "fgh":
            fn = "f"
        nodes.append(Node(i, key, "call", fn=fn, args=args, kwargs=kwargs,
                          fail=rng.choice(fail_kinds) if i in failset else None))
    return Program(nodes)


def pack_expected(req, val_by_key):
    """What a scheduler must return for a (nested list) request."""
    if isinstance(req, list):
        return tuple(pack_expected(r, val_by_key) for r in req)
    return val_by_key[req]


def flatten_req(req, out=None):
    out = [] if out is None else out
    if isinstance(req, list):
        for r in req:
            flatten_req(r, out)
    else:
        out.append(req)
    return out


def random_request(rng, keys):
    """Single key, flat list, nested lists, repeated keys."""
    r = rng.random()
    if r < 0.25:
        return rng.choice(keys)
    if r < 0.28:
        return rng.choice(([], [[]], [[], []], [[], [rng.choice(keys)]]))     # nothing (or almost nothing) requested
    k = rng.randint(1, min(5, len(keys)))
    flat = [rng.choice(keys) for _ in range(k)]
    if r < 0.6:
        return flat
    if r < 0.8:
        cut = rng.randint(0, len(flat))
        return [flat[:cut], flat[cut:]]
    return [[flat[0]], flat[1:], [[rng.choice(keys)]]]
