"""C36 pipeline generator: random row-wise / elementwise DataFrame programs.

One JSON description drives BOTH sides: ``apply(desc, frame, is_dask)`` runs the same steps on a dask
frame or on the pandas reference frame.  Reused by C42 (and by cross-cutting monitors of other modules).

    info = info_for(pdf, other=None | {"same_rows": bool}, known=ddf.known_divisions)
    desc = gen_pipeline(random.Random(seed), info)        # JSON-serialisable
    res  = apply(desc, ddf, True, other=ddf2)             # lazy dask collection
    exp  = apply(desc, pdf, False, other=pdf2)            # pandas object

``ncols_info`` of gen_pipeline is either None (the "wide" frame of vf.gen.frames.rand_frame), a plain
``{column: kind}`` dict, or the full info dict ``{"cols": {column: kind}, "pristine": [columns still holding their
rand_frame domain], "unique_index": bool, "known": bool, "other": None | {"cols":..., "same_rows": bool}}``.

kinds: int (int64) float (float64, may hold NaN) bool str dt (datetime64) cat (categorical of str) Int (nullable
Int64) boolean (nullable) obj (anything else; never used as an operand again).

Expression language (nested JSON lists, evaluated by ``ev`` against the *current* frame ``df``):
  ["col", c] ["self"] ["lit", v] ["ts", iso] ["td", spec]
  ["bin", op, L, R]  ["meth", name, L, R, kwargs]  ["cmp", op, L, R]  ["un", neg|abs|inv|isna|notna, X]
  ["astype", X, dtype] ["fillna", X, V] ["isin", X, values] ["clip", X, lo, hi] ["between", X, lo, hi, inclusive]
  ["where"|"mask", X, COND, OTHER|["none"]]
  ["map", X, {"dict": [[k, v], ...]} | {"func": name}, meta_dtype]  ["apply", X, funcname, meta_dtype]
  ["str", method, X, args, kwargs] ["strcat", X, OTHER, sep]
  ["dt", attr, X] ["dtm", method, X, args]  ["cat", attr, X] ["catm", method, X, args]
  ["rename", X, name]
Frame-level steps: project getcol filter assign frame_arith frame_cmp astype fillna where isin clip apply_rows
rename series sfilter other (arithmetic / assign / mask / where with a second, differently partitioned frame).
"""
from __future__ import annotations

import operator

import numpy as np
import pandas as pd

WIDE = {"a": "int", "b": "str", "c": "float", "d": "float", "e": "bool", "t": "dt", "k": "cat", "n": "Int", "m": "boolean"}
DOMAIN = {"a": [0, 1, 2, 3], "b": ["x", "y", "z", "w", "xy"], "k": ["p", "q", "r"]}
NUM = ("int", "float", "Int")
DTYPE_OF = {"int": "int64", "float": "float64", "bool": "bool", "str": "str", "Int": "Int64", "boolean": "boolean",
            "cat": "category", "dt": "datetime64[ns]"}

_BIN = {"+": operator.add, "-": operator.sub, "*": operator.mul, "/": operator.truediv, "//": operator.floordiv,
        "%": operator.mod, "**": operator.pow, "&": operator.and_, "|": operator.or_, "^": operator.xor}
_CMP = {"<": operator.lt, "<=": operator.le, ">": operator.gt, ">=": operator.ge, "==": operator.eq, "!=": operator.ne}


# --------------------------------------------------------------------------- user functions (module level: stable tokens)
def f_inc(v):
    return v + 1


def f_sq(v):
    return v * v


def f_half(v):
    return v / 2


def f_pos(v):
    return v > 0


def f_tag(v):
    return "<" + v + ">"


def f_len(v):
    return len(v)


def f_first(v):
    return v[:1]


def r_add(row, x, y):
    return row[x] + row[y]


def r_gt(row, x, y):
    return row[x] > row[y]


def r_lab(row, x, y):
    return "%s:%s" % (row[x], row[y])


FUNCS = {f.__name__: f for f in (f_inc, f_sq, f_half, f_pos, f_tag, f_len, f_first, r_add, r_gt, r_lab)}
# func -> (input kinds, result kind given input kind)
SFUNCS = {"f_inc": (("int", "float"), None), "f_sq": (("int", "float"), None), "f_half": (("int", "float"), "float"),
          "f_pos": (("int", "float"), "bool"), "f_tag": (("str",), "str"), "f_len": (("str",), "int"),
          "f_first": (("str",), "str")}


def kind_of_dtype(dt):
    s = str(dt)
    if isinstance(dt, pd.CategoricalDtype):
        return "cat"
    if s == "int64":
        return "int"
    if s == "float64":
        return "float"
    if s == "bool":
        return "bool"
    if s in ("str", "string", "object"):
        return "str"
    if s.startswith("datetime64"):
        return "dt"
    if s == "Int64":
        return "Int"
    if s == "boolean":
        return "boolean"
    return "obj"


def info_for(pdf, other=None, known=True, same_rows=True):
    """Schema info of a pandas frame made by vf.gen.frames.rand_frame."""
    cols = {str(c): kind_of_dtype(pdf.dtypes[c]) for c in pdf.columns}
    info = {"cols": cols, "pristine": [c for c in cols if c in DOMAIN], "unique_index": bool(pdf.index.is_unique),
            "known": bool(known), "other": None}
    if other is not None:
        info["other"] = {"cols": {str(c): kind_of_dtype(other.dtypes[c]) for c in other.columns},
                         "same_rows": bool(same_rows)}
    return info


def _norm_info(x):
    if x is None:
        x = WIDE
    if "cols" not in x or not isinstance(x.get("cols"), dict):
        x = {"cols": dict(x)}
    x = dict(x)
    x.setdefault("pristine", [c for c in x["cols"] if c in DOMAIN and
                              x["cols"][c] == WIDE.get(c)])
    x.setdefault("unique_index", True)
    x.setdefault("known", True)
    x.setdefault("other", None)
    return x


# --------------------------------------------------------------------------- generator
class _G:
    def __init__(self, rng, info):
        self.r = rng
        self.cols = dict(info["cols"])           # current frame schema
        self.prist = set(info["pristine"])
        self.unique = info["unique_index"]
        self.known = info["known"]
        self.other = info["other"]
        self.state = "frame"                      # or "series"
        self.skind = None
        self.sprist = None
        self.schemas = [dict(self.cols)]          # schema after step j-1 (index 0 = input)
        self.last_filter = 0                      # states >= last_filter share the current row set
        self.filtered = False
        self.classes = []
        self.newcount = 0
        self.uses_meta = False
        self.uses_other = False
        self.steps = []
        self.final_only = False

    # ---- helpers
    def pick(self, seq):
        return seq[self.r.randrange(len(seq))]

    def by_kind(self, cols, *kinds):
        return [c for c, k in cols.items() if k in kinds]

    def numlit(self, kind=None):
        r = self.r
        if kind == "int" or (kind is None and r.random() < 0.6):
            return ["lit", r.choice([-2, -1, 0, 1, 2, 3])]
        return ["lit", r.choice([-1.5, 0.5, 1.25, 2.0, 0.0])]

    # ---- numeric expressions
    def num(self, cols, depth=0, leaf=None):
        """-> (expr, kind) numeric series expression over the frame schema `cols`."""
        r = self.r
        cands = self.by_kind(cols, *NUM)
        choice = r.random()
        if leaf is not None and depth >= 1:
            return leaf
        if depth >= 2 or choice < 0.22 or not cols:
            if leaf is not None:
                return leaf
            if cands:
                c = self.pick(cands)
                return ["col", c], cols[c]
            return self.num_from_other(cols, depth)
        sub = lambda: self.num(cols, depth + 1, leaf)  # noqa: E731
        if choice < 0.45:   # binary with scalar (either side) or series
            op = self.pick(["+", "-", "*", "/", "//", "%", "**"])
            x, kx = sub()
            form = r.random()
            if op == "**":
                y = ["lit", r.choice([2, 3, 0.5])]
                return self._binform(op, x, y, False), ("float" if y[1] == 0.5 and kx != "Int" else kx)
            if form < 0.45:
                y = self.numlit()
                if op in ("/", "//", "%") and y[1] == 0 and r.random() < 0.7:
                    y = ["lit", 2]
                ky = "int" if isinstance(y[1], int) else "float"
                rev = r.random() < 0.35
                return self._binform(op, x, y, rev), self._numkind(op, kx, ky)
            y, ky = sub()
            return self._binform(op, x, y, False), self._numkind(op, kx, ky)
        if choice < 0.52:
            x, kx = sub()
            return ["un", self.pick(["neg", "abs"]), x], kx
        if choice < 0.60:   # astype among numeric kinds
            x, kx = sub()
            tgt = self.pick([k for k in ("int", "float", "Int") if k != kx])
            return ["astype", x, DTYPE_OF[tgt]], tgt
        if choice < 0.67:
            x, kx = sub()
            v = self.numlit("int" if kx in ("int", "Int") else None)
            return ["fillna", x, v], kx
        if choice < 0.74:
            x, kx = sub()
            lo, hi = sorted([r.choice([-2, -1, 0, 1]), r.choice([1, 2, 3])])
            w = r.random()
            lo_, hi_ = (lo, hi) if w < 0.5 else ((lo, None) if w < 0.75 else (None, hi))
            return ["clip", x, lo_, hi_], kx
        if choice < 0.84:   # where / mask
            x, kx = sub()
            cond, _ = self.boolean(cols, depth + 1, leaf)
            w = r.random()
            if w < 0.3:
                other = ["none"]
                kx = "float" if kx == "int" else kx
            elif w < 0.6:
                other = self.numlit("int" if kx in ("int", "Int") else None)
                kx = self._numkind("+", kx, "int" if isinstance(other[1], int) else "float")
            else:
                other, ko = sub()
                kx = self._numkind("+", kx, ko)
            return [self.pick(["where", "mask"]), x, cond, other], kx
        if choice < 0.90:   # map / apply with meta
            x, kx = sub()
            if kx in ("int", "float"):
                fn = self.pick(["f_inc", "f_sq", "f_half"])
                out = SFUNCS[fn][1] or kx
                self.uses_meta = True
                return [self.pick(["map", "apply"]), x, {"func": fn}, DTYPE_OF[out]], out
            return ["un", "abs", x], kx
        if choice < 0.95:   # accessors giving ints
            for kind, mk in (("str", lambda c: ["str", "len", ["col", c], [], {}]),
                             ("dt", lambda c: ["dt", self.pick(["year", "hour", "dayofweek", "day", "month", "minute",
                                                                "quarter", "dayofyear"]), ["col", c]]),
                             ("cat", lambda c: ["cat", "codes", ["col", c]])):
                cs = self.by_kind(cols, kind)
                if cs and r.random() < 0.5:
                    return mk(self.pick(cs)), "int"
        cs = self.by_kind(cols, "bool")
        if cs:
            return ["astype", ["col", self.pick(cs)], self.pick(["int64", "float64"])], "int"
        return sub()

    def num_from_other(self, cols, depth):
        for kind in ("str", "dt", "cat", "bool"):
            cs = self.by_kind(cols, kind)
            if cs:
                c = self.pick(cs)
                if kind == "str":
                    return ["str", "len", ["col", c], [], {}], "int"
                if kind == "dt":
                    return ["dt", "hour", ["col", c]], "int"
                if kind == "cat":
                    return ["cat", "codes", ["col", c]], "int"
                return ["astype", ["col", c], "int64"], "int"
        c = self.pick(list(cols))
        return ["un", "notna", ["col", c]], "bool"

    def _binform(self, op, x, y, rev):
        """operator form, method form (add/radd...), with occasional fill_value."""
        r = self.r
        names = {"+": "add", "-": "sub", "*": "mul", "/": "truediv", "//": "floordiv", "%": "mod", "**": "pow"}
        w = r.random()
        if w < 0.6:
            return ["bin", op, y, x] if rev else ["bin", op, x, y]
        nm = names[op]
        if op == "/" and r.random() < 0.5:
            nm = "div"
        kw = {}
        if y[0] != "lit" and r.random() < 0.3:
            kw = {"fill_value": r.choice([0, 1])}
        return ["meth", ("r" + nm) if rev else nm, x, y, kw]

    @staticmethod
    def _numkind(op, a, b):
        if "Int" in (a, b):
            return "Int"
        if op == "/" or "float" in (a, b):
            return "float"
        return "int"

    # ---- boolean expressions
    def boolean(self, cols, depth=0, leaf=None):
        r = self.r
        choice = r.random()
        sub = lambda: self.boolean(cols, depth + 1, leaf)  # noqa: E731
        if leaf is not None:
            lx, lk = leaf
        if depth < 2 and choice < 0.22:
            x, _ = sub()
            y, _ = sub()
            return ["bin", self.pick(["&", "|", "&", "|", "^"]), x, y], "bool"
        if depth < 2 and choice < 0.30:
            x, _ = sub()
            return ["un", "inv", x], "bool"
        kinds = {}
        if leaf is not None:
            kinds = {lk: [None]}
        else:
            for c, k in cols.items():
                kinds.setdefault(k, []).append(c)
        avail = [k for k in ("int", "float", "Int", "str", "bool", "dt", "cat") if k in kinds]
        if not avail:
            if leaf is not None:
                return ["un", "notna", lx], "bool"
            c = self.pick(list(cols))
            return ["un", "notna", ["col", c]], "bool"
        weights = {"int": 4, "float": 4, "Int": 1, "str": 2, "bool": 2, "dt": 1, "cat": 1}
        pool = [k for k in avail for _ in range(weights[k])]
        k = self.pick(pool)

        def L():
            if leaf is not None:
                return lx
            return ["col", self.pick(kinds[k])]
        if k in ("int", "float", "Int"):
            w = r.random()
            if leaf is None and depth < 2 and w < 0.25:
                x, kx = self.num(cols, depth + 1)
            else:
                x, kx = L(), k
            if kx == "Int" and r.random() < 0.5:
                return ["un", self.pick(["isna", "notna"]), x], "bool"
            w = r.random()
            if w < 0.12 and kx == "float":
                return ["un", self.pick(["isna", "notna"]), x], "bool"
            if w < 0.24:
                return ["isin", x, sorted(r.sample([-1, 0, 1, 2, 3, 4], r.randint(1, 3)))], "bool"
            if w < 0.32:
                lo, hi = sorted([r.choice([-2, -1, 0, 1]), r.choice([1, 2, 3])])
                return ["between", x, lo, hi, self.pick(["both", "neither", "left", "right"])], "bool"
            op = self.pick(list(_CMP))
            if leaf is None and r.random() < 0.3:
                others = [c for c in kinds.get("int", []) + kinds.get("float", []) if ["col", c] != x]
                y = ["col", self.pick(others)] if others else self.numlit()
            else:
                y = self.numlit()
            res = "boolean" if kx == "Int" else "bool"
            if r.random() < 0.25:
                nm = {"<": "lt", "<=": "le", ">": "gt", ">=": "ge", "==": "eq", "!=": "ne"}[op]
                e = ["meth", nm, x, y, {}]
            elif y[0] == "lit" and r.random() < 0.2:
                e = ["cmp", op, y, x]    # reversed: scalar on the left
            else:
                e = ["cmp", op, x, y]
            if res == "boolean":
                e = ["fillna", e, ["lit", bool(r.getrandbits(1))]]
                e = ["astype", e, "bool"]
            return e, "bool"
        if k == "str":
            x = L()
            w = r.random()
            if w < 0.3:
                return ["cmp", self.pick(["==", "!="]), x, ["lit", self.pick(DOMAIN["b"])]], "bool"
            if w < 0.5:
                return ["isin", x, r.sample(DOMAIN["b"] + ["q"], r.randint(1, 3))], "bool"
            if w < 0.75:
                return ["str", "contains", x, [self.pick(["x", "y", "z|w", "^x"])], {}], "bool"
            return ["str", "startswith", x, [self.pick(["x", "y", "w"])], {}], "bool"
        if k == "bool":
            return L(), "bool"
        if k == "dt":
            x = L()
            if r.random() < 0.5:
                return ["cmp", self.pick(["<", ">=", ">"]), x, ["ts", "2020-01-0%d %02d:00" % (r.randint(1, 3), r.randint(0, 23))]], "bool"
            return ["cmp", self.pick(["<", ">=", "=="]), ["dt", "hour", x], ["lit", r.randint(0, 23)]], "bool"
        x = L()   # cat
        if r.random() < 0.5:
            return ["cmp", self.pick(["==", "!="]), x, ["lit", self.pick(DOMAIN["k"])]], "bool"
        return ["isin", x, r.sample(DOMAIN["k"] + ["unused"], r.randint(1, 2))], "bool"

    # ---- string expressions
    def string(self, cols, depth=0, leaf=None):
        r = self.r
        if leaf is not None:
            x = leaf[0]
        else:
            cs = self.by_kind(cols, "str")
            if not cs:
                ns = self.by_kind(cols, "int", "cat")
                if not ns:
                    return None
                return ["astype", ["col", self.pick(ns)], "str"], "str"
            x = ["col", self.pick(cs)]
        if depth >= 2:
            return x, "str"
        w = r.random()
        if depth < 1 and w < 0.2:
            x, _ = self.string(cols, depth + 1, leaf)
        w = r.random()
        if w < 0.12:
            return ["str", "upper", x, [], {}], "str"
        if w < 0.22:
            a = r.randint(0, 1)
            return ["str", "slice", x, [a, a + r.randint(1, 2)], {}], "str"
        if w < 0.34:
            return ["str", "replace", x, [self.pick(["x", "y", "z"]), self.pick(["Q", "", "xx"])],
                    {"regex": bool(r.getrandbits(1))}], "str"
        if w < 0.46:
            if leaf is None and r.random() < 0.6:
                cs2 = self.by_kind(cols, "str")
                y = ["col", self.pick(cs2)] if cs2 else x
            else:
                y = x
            return ["strcat", x, y, self.pick(["-", "", "_"])], "str"
        if w < 0.56:
            rev = r.random() < 0.4
            lit = ["lit", self.pick(["_s", "p-", "x"])]
            return (["bin", "+", lit, x] if rev else ["bin", "+", x, lit]), "str"
        if w < 0.64:
            return ["str", self.pick(["lower", "title", "capitalize", "strip"]), x, [], {}], "str"
        if w < 0.72:
            return ["str", self.pick(["zfill", "center", "ljust"]), x, [r.randint(1, 4)], {}], "str"
        if w < 0.80:
            self.uses_meta = True
            return [self.pick(["map", "apply"]), x, {"func": self.pick(["f_tag", "f_first"])}, "str"], "str"
        if w < 0.88:
            cond, _ = self.boolean(cols, depth + 1, leaf)
            return [self.pick(["where", "mask"]), x, cond, ["lit", "?"]], "str"
        if w < 0.94:
            return ["str", "get", x, [r.randint(0, 1)], {}], "str"
        return x, "str"

    # ---- any typed column expression for assign / series steps
    def any_expr(self, cols, leaf=None):
        """-> (expr, kind, klass)"""
        r = self.r
        if leaf is not None:
            k = leaf[1]
        else:
            ks = sorted(set(cols.values()) - {"obj"})
            weights = {"int": 5, "float": 5, "Int": 2, "str": 4, "bool": 3, "dt": 3, "cat": 3, "ucat": 3, "boolean": 1}
            k = self.pick([q for q in ks for _ in range(weights.get(q, 1))]) if ks else "int"
        w = r.random()
        if k in NUM:
            if w < 0.75:
                e, kk = self.num(cols, 0, leaf)
                return e, kk, "arith"
            e, kk = self.boolean(cols, 0, leaf)
            return e, kk, "cmp"
        if k == "bool":
            if w < 0.7:
                e, kk = self.boolean(cols, 0, leaf)
                return e, kk, "bool"
            x = leaf[0] if leaf is not None else ["col", self.pick(self.by_kind(cols, "bool"))]
            tgt = self.pick(["int64", "float64", "boolean", "str"])
            return ["astype", x, tgt], kind_of_dtype(tgt), "astype"
        if k == "str":
            if w < 0.55:
                e, kk = self.string(cols, 0, leaf)
                return e, kk, "str"
            x = leaf[0] if leaf is not None else ["col", self.pick(self.by_kind(cols, "str"))]
            if w < 0.65:
                return ["str", "len", x, [], {}], "int", "str"
            if w < 0.75:
                return ["astype", x, "category"], "ucat", "astype"
            if w < 0.82:
                return ["str", "split", x, [self.pick(["x", "y", "-"])], {}], "obj", "str"
            if w < 0.90:
                name = self._prist_name(x, leaf)
                if name == "b":
                    vals = self.pick([[10, 11, 12, 13, 14], ["X", "Y", "Z", "W", "XY"], [0.5, 1.5, 2.5, 3.5, 4.5]])
                    out = kind_of_dtype(pd.Series(vals).dtype)
                    self.uses_meta = True
                    return ["map", x, {"dict": [[a, b] for a, b in zip(DOMAIN["b"], vals)]}, DTYPE_OF[out]], out, "map"
            e, kk = self.boolean(cols, 0, leaf)
            return e, kk, "cmp"
        if k == "dt":
            x = leaf[0] if leaf is not None else ["col", self.pick(self.by_kind(cols, "dt"))]
            if w < 0.4:
                return ["dt", self.pick(["year", "hour", "dayofweek", "day", "month", "minute", "quarter",
                                         "dayofyear", "is_month_start", "weekday", "second", "days_in_month"]), x], "int", "dt"
            if w < 0.6:
                return ["dtm", "floor", x, [self.pick(["D", "6h", "h", "12h"])]], "dt", "dt"
            if w < 0.7:
                return ["dtm", self.pick(["ceil", "round"]), x, [self.pick(["D", "6h"])]], "dt", "dt"
            if w < 0.78:
                return ["dtm", "normalize", x, []], "dt", "dt"
            if w < 0.86:
                return ["dtm", "strftime", x, [self.pick(["%Y-%m-%d", "%H:%M", "%d/%m %H"])]], "str", "dt"
            if w < 0.93:
                return ["bin", self.pick(["+", "-"]), x, ["td", self.pick(["3h", "1D", "90min"])]], "dt", "arith"
            e, kk = self.boolean(cols, 0, leaf)
            return e, kk, "cmp"
        if k == "cat":
            x = leaf[0] if leaf is not None else ["col", self.pick(self.by_kind(cols, "cat"))]
            if w < 0.22:
                return ["cat", "codes", x], "int", "cat"
            if w < 0.40:
                cats = self.pick([["p", "q"], ["r", "q", "p"], ["q", "zz", "p", "r"], ["p", "q", "r", "unused", "more"]])
                return ["catm", "set_categories", x, [cats]], "cat", "cat"
            if w < 0.55:
                return ["catm", "remove_unused_categories", x, []], "cat", "cat"
            if w < 0.65:
                return ["catm", "as_known", x, []], "cat", "cat"
            if w < 0.72:
                return ["catm", "as_unknown", x, []], "ucat", "cat"
            if w < 0.80:
                return ["catm", "add_categories", x, [["extra"]]], "cat", "cat"
            if w < 0.86:
                return ["catm", "as_ordered", x, []], "cat", "cat"
            if w < 0.93:
                return ["astype", x, "str"], "str", "astype"
            e, kk = self.boolean(cols, 0, leaf)
            return e, kk, "cmp"
        if k == "ucat":     # categories unknown to dask: only documented-safe operations
            x = leaf[0] if leaf is not None else ["col", self.pick(self.by_kind(cols, "ucat"))]
            if w < 0.3:
                return ["catm", "as_known", x, []], "ucat", "cat"
            if w < 0.55:
                cats = self.pick([["x", "y", "z", "w", "xy"], ["y", "x", "other", "z", "w", "xy"], ["0", "1", "2", "3"],
                                  ["x", "y"], [0, 1, 2, 3], [3, 1, 2, 0, -1]])
                return ["catm", "set_categories", x, [cats]], "cat", "cat"
            if w < 0.75:
                return ["astype", x, "str"], "str", "astype"
            if w < 0.9:
                return ["isin", x, r.sample(["x", "y", "0", "1", "True", "2.0"], 2)], "bool", "cmp"
            return ["cmp", self.pick(["==", "!="]), x, ["lit", self.pick(["x", "1", "True"])]], "bool", "cmp"
        if k == "boolean":
            x = leaf[0] if leaf is not None else ["col", self.pick(self.by_kind(cols, "boolean"))]
            if w < 0.3:
                return ["fillna", x, ["lit", bool(r.getrandbits(1))]], "boolean", "fillna"
            if w < 0.5:
                return ["un", "inv", x], "boolean", "bool"
            if w < 0.7:
                return ["un", self.pick(["isna", "notna"]), x], "bool", "bool"
            if w < 0.85:
                return ["astype", x, self.pick(["float64", "Int64"])], "float", "astype"
            bs = self.by_kind(cols, "bool") if leaf is None else []
            if bs:
                return ["bin", self.pick(["&", "|"]), x, ["col", self.pick(bs)]], "boolean", "bool"
            return ["un", "inv", x], "boolean", "bool"
        x = leaf[0] if leaf is not None else ["col", self.pick(list(cols))]
        return ["un", "notna", x], "bool", "bool"

    def _prist_name(self, x, leaf):
        if leaf is not None:
            return self.sprist if x == ["self"] else None
        if x[0] == "col" and x[1] in self.prist:
            return x[1]
        return None

    # ---- frame-level steps
    def fresh(self):
        self.newcount += 1
        return "x%d" % self.newcount

    def numcols(self, kinds=("int", "float"), kmin=1):
        cs = self.by_kind(self.cols, *kinds)
        if len(cs) < kmin:
            return None
        n = self.r.randint(kmin, min(len(cs), 3))
        return self.r.sample(cs, n)

    def _commit(self, step, cols, klass, filt=False):
        """record one emitted step together with the frame schema it produces"""
        self.cols = cols
        self.prist &= set(cols)
        if filt:
            self.filtered = True
            self.last_filter = len(self.schemas)
        self.schemas.append(dict(cols))
        self.classes.append(klass)
        self.steps.append(step)
        return step

    def _commit_series(self, step, klass, kind, prist=None, name=None, filt=False):
        self.state = "series"
        self.skind = kind
        self.sprist = prist
        self.sname = name
        if filt:
            self.filtered = True
            self.last_filter = len(self.schemas)
        self.schemas.append(None)
        self.classes.append(klass)
        self.steps.append(step)
        return step

    def _narrow(self, sel):
        """explicit projection step in front of a whole-frame operation"""
        if list(sel) != list(self.cols):
            self._commit({"op": "project", "cols": list(sel)}, {c: self.cols[c] for c in sel}, "project:list")

    def op_frame(self):
        """one operation of the table on the current frame; emits 1-2 steps (an explicit projection in front of
        whole-frame operations that only make sense on a typed sub-frame)"""
        table = [("project", 10), ("getcol", 5), ("filter", 16), ("assign", 18), ("frame_arith", 8), ("frame_cmp", 4),
                 ("astype", 7), ("fillna", 6), ("where", 7), ("isin", 3), ("clip", 4), ("apply_rows", 4),
                 ("rename", 6), ("other", 32 if self.other else 0)]
        pool = [k for k, w in table for _ in range(w)]
        for _ in range(20):
            op = self.pick(pool)
            if getattr(self, "s_" + op)() is not None:
                return
        self.s_rename() or self.s_getcol()

    def s_project(self):
        names = list(self.cols)
        if len(names) < 2:
            return None
        k = self.r.randint(1, min(len(names), 5))
        sel = self.r.sample(names, k)
        return self._commit({"op": "project", "cols": sel}, {c: self.cols[c] for c in sel}, "project:list")

    def s_getcol(self):
        c = self.pick(list(self.cols))
        if self.cols[c] == "obj":
            return None
        # attribute access only for names that are not DataFrame attributes (df.T is the transpose)
        st = {"op": "getcol", "col": c, "attr": bool(self.r.random() < 0.3 and c.isidentifier() and not hasattr(pd.DataFrame, c))}
        return self._commit_series(st, "project:single", self.cols[c], c if c in self.prist else None, c)

    def s_filter(self):
        r = self.r
        # predicate evaluated on an earlier state with the same row set ("mask from another aligned series")
        at = len(self.schemas) - 1
        if r.random() < 0.3:
            cands = [j for j in range(self.last_filter, at + 1) if self.schemas[j] is not None]
            at = self.pick(cands)
        pred, _ = self.boolean(self.schemas[at])
        how = "getitem" if r.random() < 0.75 else "loc"
        klass = "filter:" + ("compound" if pred[0] in ("bin", "un") and pred[1] in ("&", "|", "^", "inv") else "simple")
        if at != len(self.schemas) - 1:
            klass = "filter:earlier-state-mask"
        return self._commit({"op": "filter", "pred": pred, "at": at, "how": how}, dict(self.cols), klass, filt=True)

    def s_assign(self):
        r = self.r
        items = []
        cols = dict(self.cols)
        now = len(self.schemas) - 1
        klass = []
        seen = set()
        for _ in range(1 if r.random() < 0.65 else 2):
            shadow = r.random() < 0.4
            name = self.pick(list(self.cols)) if shadow else self.fresh()
            if name in seen:
                continue
            seen.add(name)
            w = r.random()
            if w < 0.08:
                v = self.pick([1, 2.5, "s", True])
                items.append([name, ["lit", v], "scalar", now])
                kind = {int: "int", float: "float", str: "str", bool: "bool"}[type(v)]
            else:
                mode = "lambda" if w < 0.45 else "series"
                at = now
                base = self.cols
                if mode == "series" and r.random() < 0.25:
                    cands = [j for j in range(self.last_filter, now + 1) if self.schemas[j] is not None]
                    at = self.pick(cands)
                    base = self.schemas[at]
                if mode == "lambda" and items:
                    base = cols     # callables see the frame with the earlier keyword arguments applied (both libraries)
                e, kind, kl = self.any_expr(base)
                items.append([name, e, mode, at])
                klass.append(kl)
                klass.append(mode)
            cols[name] = kind
            self.prist.discard(name)
            klass.append("shadow" if shadow else "new")
        if not items:
            return None
        tags = [t for t in ("shadow", "new", "lambda", "series") if t in klass]
        return self._commit({"op": "assign", "items": items}, cols, "assign:" + "+".join(tags))

    def s_frame_arith(self):
        r = self.r
        sel = self.numcols()
        if not sel:
            return None
        op = self.pick(["+", "-", "*", "/", "//", "%", "**"])
        w = r.random()
        cols = {c: self.cols[c] for c in sel}
        if w < 0.45 or op == "**":
            v = self.numlit()[1]
            if op == "**":
                v = r.choice([2, 3])
            if op in ("/", "//", "%") and v == 0:
                v = 2
            rhs = {"kind": "scalar", "v": v}
            out = {c: self._numkind(op, k, "int" if isinstance(v, int) else "float") for c, k in cols.items()}
            style = self.pick(["operator", "method", "reversed", "rmethod"])
        elif w < 0.75:
            sel2 = r.sample(sel, r.randint(1, len(sel)))
            r.shuffle(sel2)
            rhs = {"kind": "frame", "cols": sel2}
            out = {}
            for c in sorted(sel) if set(sel2) != set(sel) else sel:
                out[c] = self._numkind(op, self.cols[c], self.cols[c]) if c in sel2 else "float"
            style = self.pick(["operator", "method"])
        else:
            e, k = self.num(self.cols, 1)
            rhs = {"kind": "series", "expr": e, "at": len(self.schemas) - 1}
            out = {c: self._numkind(op, kk, k) for c, kk in cols.items()}
            style = "method"
        self._narrow(sel)
        st = {"op": "frame_arith", "binop": op, "rhs": rhs, "style": style}
        return self._commit(st, out, "frame-arith:%s:%s" % (rhs["kind"], style))

    def s_frame_cmp(self):
        sel = self.numcols()
        if not sel:
            return None
        op = self.pick(list(_CMP))
        w = self.r.random()
        if w < 0.6:
            rhs = {"kind": "scalar", "v": self.numlit()[1]}
            style = self.pick(["operator", "method"])
        elif w < 0.8:
            rhs = {"kind": "frame", "cols": list(sel)}    # identically-labelled frames only (pandas requirement)
            style = self.pick(["operator", "method"])
        else:
            e, k = self.num(self.cols, 1)
            rhs = {"kind": "series", "expr": e, "at": len(self.schemas) - 1}
            style = "method"
        self._narrow(sel)
        out = {c: "bool" for c in sel}
        return self._commit({"op": "frame_cmp", "cmpop": op, "rhs": rhs, "style": style}, out,
                            "frame-cmp:%s:%s" % (rhs["kind"], style))

    _ASTYPE = {"int": ["float64", "Int64", "str", "category", "bool", "int32"], "float": ["int64", "Int64", "str", "float32"],
               "bool": ["int64", "float64", "boolean", "str"], "str": ["category"],
               "cat": ["str"], "Int": ["float64", "int64", "str"], "boolean": ["bool", "float64", "Int64"],
               "dt": ["str", "datetime64[s]"]}

    @staticmethod
    def _kind_of_target(t):
        if t == "category":
            return "ucat"
        if t == "str":
            return "str"
        return kind_of_dtype(pd.api.types.pandas_dtype(t))

    def s_astype(self):
        r = self.r
        w = r.random()
        cols = dict(self.cols)
        if w < 0.7:
            names = [c for c in cols if cols[c] in self._ASTYPE]
            if not names:
                return None
            sel = r.sample(names, r.randint(1, min(3, len(names))))
            spec = {}
            for c in sel:
                t = self.pick(self._ASTYPE[cols[c]])
                spec[c] = t
                cols[c] = self._kind_of_target(t)
                self.prist.discard(c)
            kl = "astype:dict:" + "+".join(sorted({self._tkl(t) for t in spec.values()}))
            return self._commit({"op": "astype", "spec": spec}, cols, kl)
        sel = self.numcols(kinds=("int", "float", "bool", "Int"))
        if not sel:
            return None
        t = self.pick(["float64", "str", "Int64", "int64", "category"])
        out = {c: self._kind_of_target(t) for c in sel}
        self._narrow(sel)
        self.prist = set()
        return self._commit({"op": "astype", "spec": t}, out, "astype:frame:" + self._tkl(t))

    @staticmethod
    def _tkl(t):
        return {"category": "category", "str": "str", "object": "object", "Int64": "nullable", "boolean": "nullable"}.get(t, "numpy")

    def _fillval(self, kind):
        r = self.r
        return {"int": 0, "float": r.choice([0.0, -1.5, 7]), "Int": r.choice([0, 9]), "boolean": bool(r.getrandbits(1)),
                "str": "?", "bool": False, "cat": "p"}.get(kind)

    def s_fillna(self):
        r = self.r
        w = r.random()
        if w < 0.5:
            names = [c for c in self.cols if self.cols[c] in ("float", "Int", "boolean", "int", "str", "cat")]
            if not names:
                return None
            sel = r.sample(names, r.randint(1, min(3, len(names))))
            val = {c: self._fillval(self.cols[c]) for c in sel}
            return self._commit({"op": "fillna", "value": val}, dict(self.cols), "fillna:dict")
        sel = self.numcols(kinds=("int", "float", "Int"))
        if not sel:
            return None
        v = r.choice([0, 1, -1]) if any(self.cols[c] == "Int" for c in sel) else r.choice([0, 0.5, -1])
        out = {c: self.cols[c] for c in sel}
        self._narrow(sel)
        return self._commit({"op": "fillna", "value": v}, out, "fillna:scalar")

    def s_where(self):
        r = self.r
        sel = self.numcols(kinds=("int", "float"))
        if not sel:
            return None
        which = self.pick(["where", "mask"])
        cond = {"kind": "frame_cmp", "op": self.pick(list(_CMP)), "v": r.choice([0, 1, 0.5])}
        w = r.random()
        out = {c: self.cols[c] for c in sel}
        if w < 0.35:
            other = {"kind": "none"}
            out = {c: "float" for c in sel}
        elif w < 0.7:
            v = self.numlit()[1]
            other = {"kind": "scalar", "v": v}
            out = {c: self._numkind("+", k, "int" if isinstance(v, int) else "float") for c, k in out.items()}
        else:
            v = r.choice([-1, 2, 0.5])
            other = {"kind": "frame_mul", "v": v}
            out = {c: self._numkind("+", k, "int" if isinstance(v, int) else "float") for c, k in out.items()}
        self._narrow(sel)
        return self._commit({"op": "where", "which": which, "cond": cond, "other": other}, out,
                            "%s:frame:other-%s" % (which, other["kind"]))

    def s_isin(self):
        r = self.r
        names = [c for c in self.cols if self.cols[c] in ("int", "float", "str", "Int")]
        if not names:
            return None
        sel = r.sample(names, r.randint(1, min(3, len(names))))
        vals = r.sample([0, 1, 2, 3, -1.0, 2.0, "x", "y", "xy"], r.randint(1, 4))
        self._narrow(sel)
        return self._commit({"op": "isin", "values": vals}, {c: "bool" for c in sel}, "isin:frame")

    def s_clip(self):
        sel = self.numcols(kinds=("int", "float"))
        if not sel:
            return None
        r = self.r
        lo, hi = sorted([r.choice([-2, -1, 0, 0.5]), r.choice([1, 2, 3, 1.5])])
        w = r.random()
        lo_, hi_ = (lo, hi) if w < 0.5 else ((lo, None) if w < 0.75 else (None, hi))
        out = {c: self.cols[c] for c in sel}
        self._narrow(sel)
        return self._commit({"op": "clip", "lower": lo_, "upper": hi_}, out, "clip:frame")

    def s_apply_rows(self):
        r = self.r
        nums = self.by_kind(self.cols, "int", "float")
        strs = self.by_kind(self.cols, "str")
        w = r.random()
        if len(nums) >= 2 and w < 0.7:
            x, y = r.sample(nums, 2)
            if r.random() < 0.6:
                fn = "r_add"
                out = self._numkind("+", self.cols[x], self.cols[y])
                # a frame holding only numeric columns hands float rows to the function
                if out == "int" and all(k in ("int", "float", "bool") for k in self.cols.values()) \
                        and "float" in self.cols.values():
                    out = "float"
            else:
                fn, out = "r_gt", "bool"
        elif strs and nums:
            x, y = self.pick(strs), self.pick(nums)
            fn, out = "r_lab", "str"
        else:
            return None
        self.uses_meta = True
        st = {"op": "apply_rows", "func": fn, "args": [x, y], "meta": DTYPE_OF[out]}
        return self._commit_series(st, "apply:axis1", out)

    def s_rename(self):
        r = self.r
        names = list(self.cols)
        sel = r.sample(names, r.randint(1, min(3, len(names))))
        mapping = {}
        for c in sel:
            new = c.upper() if r.random() < 0.5 else c + "_r"
            if new in self.cols or new in mapping.values():
                continue
            mapping[c] = new
        if not mapping:
            return None
        if r.random() < 0.2:
            mapping["zz_absent"] = "ZZ"    # mapping keys that are not columns are ignored by pandas
        cols = {}
        pr = set()
        for c, k in self.cols.items():
            cols[mapping.get(c, c)] = k
            if c in self.prist and c not in mapping:
                pr.add(c)
        self.prist = pr
        return self._commit({"op": "rename", "columns": mapping}, cols, "rename:columns")

    def s_other(self):
        """Second operand living in a differently partitioned frame (same index values or a different row set)."""
        r = self.r
        o = self.other
        if o is None:
            return None
        identical = o["same_rows"] and not self.filtered
        if not identical and not self.unique:
            return None     # pandas cannot align non-identical indexes with duplicates
        ocols = o["cols"]
        mine = self.by_kind(self.cols, "int", "float")
        theirs = self.by_kind(ocols, "int", "float")
        if not mine or not theirs:
            return None
        w = r.random()
        self.uses_other = True
        tag = "" if identical else ":partial-overlap"
        if w < 0.3:   # series (op) series -> series
            c, oc = self.pick(mine), self.pick(theirs)
            op = self.pick(["+", "-", "*", "/"])
            st = {"op": "other", "mode": "series_bin", "col": c, "ocol": oc, "binop": op, "swap": r.random() < 0.3,
                  "style": self.pick(["operator", "method"])}
            if st["style"] == "method" and r.random() < 0.6:
                st["fill_value"] = r.choice([0, 1])
            kind = "float" if not identical else self._numkind(op, self.cols[c], ocols[oc])
            return self._commit_series(st, "other:series-arith" + tag, kind)
        if w < 0.5:   # frame (op) frame
            sel = self.numcols()
            osel = r.sample(theirs, r.randint(1, min(3, len(theirs))))
            op = self.pick(["+", "-", "*"])
            names = sorted(set(sel) | set(osel)) if set(sel) != set(osel) else sel
            out = {c: ("float" if not identical or c not in sel or c not in osel else self._numkind(op, self.cols[c], ocols[c])) for c in names}
            self._narrow(sel)
            st = {"op": "other", "mode": "frame_bin", "ocols": osel, "binop": op, "style": self.pick(["operator", "method"])}
            if st["style"] == "method" and r.random() < 0.6:
                st["fill_value"] = r.choice([0, 1])
            return self._commit(st, out, "other:frame-arith" + tag)
        if w < 0.7:   # assign a column of the other frame (left-aligned on the index)
            oc = self.pick(list(ocols))
            if ocols[oc] == "obj":
                return None
            name = self.fresh() if r.random() < 0.6 else self.pick(list(self.cols))
            cols = dict(self.cols)
            cols[name] = ocols[oc] if identical else "obj"
            self.prist.discard(name)
            return self._commit({"op": "other", "mode": "assign", "name": name, "ocol": oc}, cols, "other:assign" + tag)
        if w < 0.85 and identical:   # mask from the other frame
            oc = self.pick(theirs)
            st = {"op": "other", "mode": "mask", "ocol": oc, "cmpop": self.pick(list(_CMP)), "v": r.choice([0, 1, 2])}
            return self._commit(st, dict(self.cols), "other:mask", filt=True)
        if identical:   # where with `other` series from the other frame
            c, oc = self.pick(mine), self.pick(theirs)
            cond, _ = self.boolean(self.cols, 1)
            st = {"op": "other", "mode": "where", "which": self.pick(["where", "mask"]), "col": c, "ocol": oc, "cond": cond}
            return self._commit_series(st, "other:where-other", self._numkind("+", self.cols[c], ocols[oc]))
        return None

    # ---- series-level steps
    def op_series(self):
        r = self.r
        w = r.random()
        leaf = (["self"], self.skind)
        if self.skind == "obj":
            return self._commit_series({"op": "series", "expr": ["rename", ["self"], "renamed"]}, "rename:series", "obj")
        if w < 0.15:
            pred, _ = self.boolean({}, 0, leaf)
            return self._commit_series({"op": "sfilter", "pred": pred}, "filter:series", self.skind, self.sprist, filt=True)
        if w < 0.25:
            st = {"op": "series", "expr": ["rename", ["self"], self.pick(["renamed", "a", "z z"])]}
            return self._commit_series(st, "rename:series", self.skind, self.sprist)
        if w < 0.33 and self.skind == "str":
            # split(expand=True) needs rows with exactly n separators: build them with cat(sep)
            sep = self.pick(["-", "_"])
            n = r.randint(1, 2)
            e = ["self"]
            for _ in range(n):
                e = ["strcat", e, ["self"], sep]
            self.state = "frame"
            self.final_only = True      # columns are the integers 0..n: not addressed by later steps
            return self._commit({"op": "series", "expr": ["str", "split", e, [sep], {"n": n, "expand": True}]},
                                {}, "str:split-expand")
        e, k, kl = self.any_expr({}, leaf)
        return self._commit_series({"op": "series", "expr": e}, "series:" + kl, k)


def gen_pipeline(rng, ncols_info=None, nops=None, allow_other=True):
    """-> JSON description {"steps": [...], "classes": [class of each step], "uses_meta": bool,
    "uses_other": bool (apply() needs other=), "final": "frame"|"series"}; 2-5 operations (an operation on a typed
    sub-frame is emitted as an explicit projection step plus the operation)."""
    info = _norm_info(ncols_info)
    if not allow_other:
        info["other"] = None
    g = _G(rng, info)
    n = nops or rng.choice((2, 2, 3, 3, 4, 5))
    for _ in range(n):
        if g.final_only:
            break
        if g.state == "frame":
            g.op_frame()
        else:
            g.op_series()
    fk = dict(g.cols) if g.state == "frame" else {"": g.skind}
    return {"steps": g.steps, "classes": g.classes, "uses_meta": g.uses_meta, "uses_other": g.uses_other,
            "final": g.state, "final_kinds": fk, "nops": n}


# --------------------------------------------------------------------------- evaluation
class _Env:
    __slots__ = ("is_dask", "other", "self_", "full_meta")

    def __init__(self, is_dask, other, full_meta=False):
        self.is_dask = is_dask
        self.other = other
        self.self_ = None
        self.full_meta = full_meta


def _meta_kw(env, x, dtype, name=False):
    """meta= for user functions: the documented (name, dtype) tuple, or - full_meta - an empty pandas Series that also
    carries the index of the input (a tuple cannot say anything about the index)."""
    if not env.is_dask:
        return {}
    nm = x.name if name is False else name
    if env.full_meta:
        return {"meta": pd.Series([], dtype=dtype, name=nm, index=x._meta.index[:0])}
    return {"meta": (nm, dtype)}


def _user_dtype(env, x, how, declared):
    """dtype a user would declare: dtype-preserving functions (f_inc, f_sq) keep the dtype the lazy collection reports
    (the generator's static guess can be off after value-dependent upcasts such as where() on ints)"""
    if env.is_dask and how.get("func") in ("f_inc", "f_sq") and str(x.dtype) in ("int64", "float64"):
        return str(x.dtype)
    return declared


def _row_dtype(env, cur, st):
    """dtype a user would declare for r_add: rows of an all-numeric frame are upcast to the common dtype, otherwise
    the two cells are added as Python scalars (decided from the dtypes the lazy collection reports)"""
    if not env.is_dask or st["func"] != "r_add":
        return st["meta"]
    try:
        dts = cur.dtypes
        if all(getattr(d, "kind", "O") in "iufb" for d in dts):
            return str(np.result_type(*list(dts)))
        x, y = (dts[c] for c in st["args"])
        if all(getattr(d, "kind", "O") in "iufb" for d in (x, y)):
            return str(np.result_type(x, y))
    except Exception:  # noqa: BLE001
        pass
    return st["meta"]


def ev(e, df, env):
    """Evaluate an expression against frame `df` (dask or pandas); env.self_ is the series of ["self"]."""
    t = e[0]
    if t == "col":
        return df[e[1]]
    if t == "self":
        return env.self_
    if t == "lit":
        return e[1]
    if t == "ts":
        return pd.Timestamp(e[1])
    if t == "td":
        return pd.Timedelta(e[1])
    if t == "none":
        return np.nan
    if t == "bin":
        return _BIN[e[1]](ev(e[2], df, env), ev(e[3], df, env))
    if t == "cmp":
        return _CMP[e[1]](ev(e[2], df, env), ev(e[3], df, env))
    if t == "meth":
        return getattr(ev(e[2], df, env), e[1])(ev(e[3], df, env), **e[4])
    if t == "un":
        x = ev(e[2], df, env)
        if e[1] == "neg":
            return -x
        if e[1] == "abs":
            return abs(x)
        if e[1] == "inv":
            return ~x
        if e[1] == "isna":
            return x.isna()
        return x.notnull() if e[1] == "notna" else None
    if t == "astype":
        return ev(e[1], df, env).astype(e[2])
    if t == "fillna":
        return ev(e[1], df, env).fillna(ev(e[2], df, env))
    if t == "isin":
        return ev(e[1], df, env).isin(list(e[2]))
    if t == "clip":
        kw = {}
        if e[2] is not None:
            kw["lower"] = e[2]
        if e[3] is not None:
            kw["upper"] = e[3]
        return ev(e[1], df, env).clip(**kw)
    if t == "between":
        return ev(e[1], df, env).between(e[2], e[3], inclusive=e[4])
    if t in ("where", "mask"):
        x = ev(e[1], df, env)
        c = ev(e[2], df, env)
        if e[3][0] == "none":
            return getattr(x, t)(c)
        return getattr(x, t)(c, ev(e[3], df, env))
    if t == "map":
        x = ev(e[1], df, env)
        arg = dict((k, v) for k, v in e[2]["dict"]) if "dict" in e[2] else FUNCS[e[2]["func"]]
        return x.map(arg, **_meta_kw(env, x, _user_dtype(env, x, e[2], e[3])))
    if t == "apply":
        x = ev(e[1], df, env)
        return x.apply(FUNCS[e[2]["func"]], **_meta_kw(env, x, _user_dtype(env, x, e[2], e[3])))
    if t == "str":
        x = ev(e[2], df, env)
        return getattr(x.str, e[1])(*e[3], **e[4])
    if t == "strcat":
        x = ev(e[1], df, env)
        return x.str.cat(ev(e[2], df, env), sep=e[3])
    if t == "dt":
        return getattr(ev(e[2], df, env).dt, e[1])
    if t == "dtm":
        return getattr(ev(e[2], df, env).dt, e[1])(*e[3])
    if t == "cat":
        return getattr(ev(e[2], df, env).cat, e[1])
    if t == "catm":
        x = ev(e[2], df, env)
        if e[1] in ("as_known", "as_unknown"):
            if env.is_dask:
                return getattr(x.cat, e[1])()
            x.cat       # pandas has no such method: identity, but only for categorical data
            return x
        return getattr(x.cat, e[1])(*e[3])
    if t == "rename":
        return ev(e[1], df, env).rename(e[2])
    raise ValueError("unknown expression node %r" % (t,))


_ANAMES = {"+": "add", "-": "sub", "*": "mul", "/": "truediv", "//": "floordiv", "%": "mod", "**": "pow"}
_CNAMES = {"<": "lt", "<=": "le", ">": "gt", ">=": "ge", "==": "eq", "!=": "ne"}


def apply(description, frame, is_dask, other=None, upto=None, full_meta=False):
    """Run the steps of `description` on `frame` (dask collection when is_dask else pandas).  `other` is the second
    frame needed when description["uses_other"]; `upto` limits the run to the first `upto` steps; `full_meta` passes
    complete pandas objects (with index) as meta= of user functions instead of (name, dtype) tuples."""
    env = _Env(is_dask, other, full_meta)
    states = [frame]
    cur = frame
    steps = description["steps"] if upto is None else description["steps"][:upto]
    for st in steps:
        op = st["op"]
        if op == "project":
            cur = cur[list(st["cols"])]
        elif op == "getcol":
            cur = getattr(cur, st["col"]) if st.get("attr") else cur[st["col"]]
        elif op == "filter":
            mask = ev(st["pred"], states[st["at"]], env)
            cur = cur[mask] if st["how"] == "getitem" else cur.loc[mask]
        elif op == "assign":
            kw = {}
            for name, e, mode, at in st["items"]:
                if mode == "scalar":
                    kw[name] = e[1]
                elif mode == "lambda":
                    kw[name] = (lambda ee: (lambda d: ev(ee, d, env)))(e)
                else:
                    kw[name] = ev(e, states[at], env)
            cur = cur.assign(**kw)
        elif op in ("frame_arith", "frame_cmp"):
            table, names, o = (_BIN, _ANAMES, st["binop"]) if op == "frame_arith" else (_CMP, _CNAMES, st["cmpop"])
            rhs = st["rhs"]
            if rhs["kind"] == "series":
                cur = getattr(cur, names[o])(ev(rhs["expr"], states[rhs["at"]], env), axis=0)
            else:
                y = rhs["v"] if rhs["kind"] == "scalar" else cur[list(rhs["cols"])]
                style = st["style"]
                if style == "operator":
                    cur = table[o](cur, y)
                elif style == "reversed":
                    cur = table[o](y, cur)
                else:
                    cur = getattr(cur, ("r" + names[o]) if style == "rmethod" else names[o])(y)
        elif op == "astype":
            cur = cur.astype(st["spec"])
        elif op == "fillna":
            cur = cur.fillna(st["value"])
        elif op == "where":
            c = st["cond"]
            cond = _CMP[c["op"]](cur, c["v"])
            o = st["other"]
            args = () if o["kind"] == "none" else ((o["v"],) if o["kind"] == "scalar" else (cur * o["v"],))
            cur = getattr(cur, st["which"])(cond, *args)
        elif op == "isin":
            cur = cur.isin(list(st["values"]))
        elif op == "clip":
            kw = {}
            if st["lower"] is not None:
                kw["lower"] = st["lower"]
            if st["upper"] is not None:
                kw["upper"] = st["upper"]
            cur = cur.clip(**kw)
        elif op == "apply_rows":
            cur = cur.apply(FUNCS[st["func"]], axis=1, args=tuple(st["args"]),
                            **_meta_kw(env, cur, _row_dtype(env, cur, st), name=None))
        elif op == "rename":
            cur = cur.rename(columns=dict(st["columns"]))
        elif op == "series":
            env.self_ = cur
            cur = ev(st["expr"], None, env)
        elif op == "sfilter":
            env.self_ = cur
            cur = cur[ev(st["pred"], None, env)]
        elif op == "other":
            cur = _other_step(st, cur, env)
        else:
            raise ValueError("unknown step %r" % (op,))
        states.append(cur)
    return cur


def _other_step(st, cur, env):
    o = env.other
    if o is None:
        raise ValueError("pipeline needs a second frame (other=)")
    mode = st["mode"]
    if mode == "series_bin":
        x, y = cur[st["col"]], o[st["ocol"]]
        if st["swap"]:
            x, y = y, x
        kw = {"fill_value": st["fill_value"]} if st.get("fill_value") is not None else {}
        return _BIN[st["binop"]](x, y) if st["style"] == "operator" else getattr(x, _ANAMES[st["binop"]])(y, **kw)
    if mode == "frame_bin":
        y = o[list(st["ocols"])]
        kw = {"fill_value": st["fill_value"]} if st.get("fill_value") is not None else {}
        return _BIN[st["binop"]](cur, y) if st["style"] == "operator" else getattr(cur, _ANAMES[st["binop"]])(y, **kw)
    if mode == "assign":
        return cur.assign(**{st["name"]: o[st["ocol"]]})
    if mode == "mask":
        return cur[_CMP[st["cmpop"]](o[st["ocol"]], st["v"])]
    if mode == "where":
        return getattr(cur[st["col"]], st["which"])(ev(st["cond"], cur, env), o[st["ocol"]])
    raise ValueError(mode)


def describe(desc):
    """Compact human-readable rendering (for witnesses)."""
    return " | ".join(_short(s) for s in desc["steps"])


def _short(s):
    import json

    return json.dumps(s, default=str, separators=(",", ":"))[:400]
