"""C36 pipeline generator: random row-wise / elementwise DataFrame programs.

One JSON description drives BOTH sides: ``apply(desc, frame, is_dask)`` runs the same steps on a dask
frame or on the pandas reference frame.  Reused by C42 (and by cross-cutting monitors of other modules).

    info = info_for(pdf, other=None | {"same_rows": bool}, known=ddf.known_divisions)
    desc = gen_pipeline(random.Random(seed), info)        # JSON-serialisable
    res  = apply(desc, ddf, True, other=ddf2)             # lazy dask collection
    exp  = apply(desc, pdf, False, other=pdf2)            # pandas object

``ncols_info`` of gen_pipeline is either None (the "wide" frame of vf.gen.frames.rand_frame), a plain
``{column: kind}`` dict, or the full info dict ``{"cols": {column: kind}, "pristine": [columns still holding their
rand_frame domain], "unique_index": bool, "known": bool, "other": None | {"cols":..., "same_rows": bool}}``.

kinds: int (int64) float (float64, may hold NaN) bool str dt (datetime64) cat (categorical of str) Int (nullable
Int64) boolean (nullable) obj (anything else; never used as an operand again).

Expression language (nested JSON lists, evaluated by ``ev`` against the *current* frame ``df``):
  ["col", c] ["self"] ["lit", v] ["ts", iso] ["td", spec]
  ["bin", op, L, R]  ["meth", name, L, R, kwargs]  ["cmp", op, L, R]  ["un", neg|abs|inv|isna|notna, X]
  ["astype", X, dtype] ["fillna", X, V] ["isin", X, values] ["clip", X, lo, hi] ["between", X, lo, hi, inclusive]
  ["where"|"mask", X, COND, OTHER|["none"]]
  ["map", X, {"dict": [[k, v], ...]} | {"func": name}, meta_dtype]  ["apply", X, funcname, meta_dtype]
  ["str", method, X, args, kwargs] ["strcat", X, OTHER, sep]
  ["dt", attr, X] ["dtm", method, X, args]  ["cat", attr, X] ["catm", method, X, args]
  ["rename", X, name]
Frame-level steps: project getcol filter assign frame_arith frame_cmp astype fillna where isin clip apply_rows
rename series sfilter other (arithmetic / assign / mask / where with a second, differently partitioned frame).

Extended operation table (only with ``info["ext"]``; without it the generator consumes the random stream exactly as
before, so C42's reuse is unchanged).  Additional nodes / fields:
  ["map", X, {"func"|"dict"|"series": ..., "dask": bool}, meta_dtype, na_action]   (None in a key list = the NaN key)
  ["apply", X, {"func": name}, meta_dtype, args, kwargs]  ["round", X, n]  ["replace", X, to, value|["nov"], regex]
  ["clip", X, lo|EXPR, hi|EXPR, axis]  ["between", X, lo|EXPR, hi|EXPR, inclusive]  ["isin", X, values, set|ndarray|series]
  ["strcat", X, OTHER, sep, na_rep]  ["catm", method, X, args, kwargs]
steps: frame_map round abs replace fseries locsel; fillna {"axis"} / {"value_from": {col: source col}}; clip {"axis",
"lower_expr", "upper_expr", "at"} and list bounds; rename {"callable"}; isin {"values_dict"}; frame_arith / frame_cmp
{"fill_value", "axis"} and rhs kinds "pdseries" / "list"; apply_rows {"kwargs"}.  kind ``mstr`` = text with missing values
made by a user function (only isna / notna / fillna / == are generated on it).  ``description["features"]`` lists the
extended step kinds a pipeline uses, ``description["unordered"]`` says that an operand was aligned by an index shuffle.
"""
from __future__ import annotations

import operator

import numpy as np
import pandas as pd

WIDE = {"a": "int", "b": "str", "c": "float", "d": "float", "e": "bool", "t": "dt", "k": "cat", "n": "Int", "m": "boolean"}
DOMAIN = {"a": [0, 1, 2, 3], "b": ["x", "y", "z", "w", "xy"], "k": ["p", "q", "r"]}
NUM = ("int", "float", "Int")
DTYPE_OF = {"int": "int64", "float": "float64", "bool": "bool", "str": "str", "Int": "Int64", "boolean": "boolean",
            "cat": "category", "dt": "datetime64[ns]"}

_BIN = {"+": operator.add, "-": operator.sub, "*": operator.mul, "/": operator.truediv, "//": operator.floordiv,
        "%": operator.mod, "**": operator.pow, "&": operator.and_, "|": operator.or_, "^": operator.xor}
_CMP = {"<": operator.lt, "<=": operator.le, ">": operator.gt, ">=": operator.ge, "==": operator.eq, "!=": operator.ne}


# --------------------------------------------------------------------------- user functions (module level: stable tokens)
def f_inc(v):
    return v + 1


def f_sq(v):
    return v * v


def f_half(v):
    return v / 2


def f_pos(v):
    return v > 0


def f_tag(v):
    return "<" + v + ">"


def f_len(v):
    return len(v)


def f_first(v):
    return v[:1]


def f_fmt(v):
    """NOT NaN-propagating: a missing value that reaches the function becomes the text "<nan>" / "<<NA>>"."""
    return "<%s>" % (v,)


def f_slen(v):
    """NOT NaN-propagating, float result: number of characters of the printed value."""
    return float(len(str(v)))


def f_addk(v, k, j=0):
    return v + k + j


def r_add(row, x, y):
    return row[x] + row[y]


def r_addk(row, x, y, k=0):
    return row[x] + row[y] + k


def r_gt(row, x, y):
    return row[x] > row[y]


def r_lab(row, x, y):
    return "%s:%s" % (row[x], row[y])


FUNCS = {f.__name__: f for f in (f_inc, f_sq, f_half, f_pos, f_tag, f_len, f_first, r_add, r_gt, r_lab,
                                 f_fmt, f_slen, f_addk, r_addk)}
# func -> (input kinds, result kind given input kind)
SFUNCS = {"f_inc": (("int", "float"), None), "f_sq": (("int", "float"), None), "f_half": (("int", "float"), "float"),
          "f_pos": (("int", "float"), "bool"), "f_tag": (("str",), "str"), "f_len": (("str",), "int"),
          "f_first": (("str",), "str")}


def kind_of_dtype(dt):
    s = str(dt)
    if isinstance(dt, pd.CategoricalDtype):
        return "cat"
    if s == "int64":
        return "int"
    if s == "float64":
        return "float"
    if s == "bool":
        return "bool"
    if s in ("str", "string", "object"):
        return "str"
    if s.startswith("datetime64"):
        return "dt"
    if s == "Int64":
        return "Int"
    if s == "boolean":
        return "boolean"
    return "obj"


def info_for(pdf, other=None, known=True, same_rows=True, ext=False, orig=None, other_unknown=False):
    """Schema info of a pandas frame made by vf.gen.frames.rand_frame.  ``ext`` switches the extended operation table
    on (keyword-argument variants, map with na_action, round/replace, loc projections ...); ``orig`` maps the column
    names of ``pdf`` to the rand_frame names they were renamed from (name pool with substrings of each other);
    ``other_unknown``: the second operand is NOT co-partitioned by known divisions (dask aligns it by an index shuffle,
    which defines the rows but no row order)."""
    orig = dict(orig or {})
    cols = {str(c): kind_of_dtype(pdf.dtypes[c]) for c in pdf.columns}
    info = {"cols": cols, "pristine": [c for c in cols if orig.get(c, c) in DOMAIN],
            "unique_index": bool(pdf.index.is_unique), "known": bool(known), "other": None}
    if ext:
        info["ext"] = True
        info["orig"] = orig
    if other is not None:
        info["other"] = {"cols": {str(c): kind_of_dtype(other.dtypes[c]) for c in other.columns},
                         "same_rows": bool(same_rows)}
        if other_unknown:
            info["other"]["unknown"] = True
    return info


def _norm_info(x):
    if x is None:
        x = WIDE
    if "cols" not in x or not isinstance(x.get("cols"), dict):
        x = {"cols": dict(x)}
    x = dict(x)
    x.setdefault("pristine", [c for c in x["cols"] if c in DOMAIN and
                              x["cols"][c] == WIDE.get(c)])
    x.setdefault("unique_index", True)
    x.setdefault("known", True)
    x.setdefault("other", None)
    x.setdefault("ext", False)
    x.setdefault("orig", {})
    return x


def _ren_suffix(c):
    return c + "_z"


_RENAMERS = {"upper": str.upper, "title": str.title, "suffix": _ren_suffix}


# --------------------------------------------------------------------------- generator
class _G:
    def __init__(self, rng, info):
        self.r = rng
        self.cols = dict(info["cols"])           # current frame schema
        self.prist = set(info["pristine"])
        self.unique = info["unique_index"]
        self.known = info["known"]
        self.other = info["other"]
        self.state = "frame"                      # or "series"
        self.skind = None
        self.sprist = None
        self.schemas = [dict(self.cols)]          # schema after step j-1 (index 0 = input)
        self.last_filter = 0                      # states >= last_filter share the current row set
        self.filtered = False
        self.classes = []
        self.newcount = 0
        self.uses_meta = False
        self.uses_other = False
        self.steps = []
        self.final_only = False
        self.ext = bool(info.get("ext"))          # extended operation table (off: the generator is bit-for-bit the old one)
        self.orig = dict(info.get("orig") or {})  # column name -> rand_frame name it was renamed from
        self.features = set()                     # extended step kinds / keyword variants used by this pipeline
        self.unordered = False                    # a step aligns operands by an index shuffle (no row order defined)

    # ---- helpers
    def pick(self, seq):
        return seq[self.r.randrange(len(seq))]

    def by_kind(self, cols, *kinds):
        return [c for c, k in cols.items() if k in kinds]

    def numlit(self, kind=None):
        r = self.r
        if kind == "int" or (kind is None and r.random() < 0.6):
            return ["lit", r.choice([-2, -1, 0, 1, 2, 3])]
        return ["lit", r.choice([-1.5, 0.5, 1.25, 2.0, 0.0])]

    # ---- numeric expressions
    def num(self, cols, depth=0, leaf=None):
        """-> (expr, kind) numeric series expression over the frame schema `cols`."""
        r = self.r
        cands = self.by_kind(cols, *NUM)
        choice = r.random()
        if leaf is not None and depth >= 1:
            return leaf
        if depth >= 2 or choice < 0.22 or not cols:
            if leaf is not None:
                return leaf
            if cands:
                c = self.pick(cands)
                return ["col", c], cols[c]
            return self.num_from_other(cols, depth)
        sub = lambda: self.num(cols, depth + 1, leaf)  # noqa: E731
        if self.ext and r.random() < 0.4:
            got = self.x_num(cols, depth, leaf, sub)
            if got is not None:
                return got
        if choice < 0.45:   # binary with scalar (either side) or series
            op = self.pick(["+", "-", "*", "/", "//", "%", "**"])
            x, kx = sub()
            form = r.random()
            if op == "**":
                y = ["lit", r.choice([2, 3, 0.5])]
                return self._binform(op, x, y, False), ("float" if y[1] == 0.5 and kx != "Int" else kx)
            if form < 0.45:
                y = self.numlit()
                if op in ("/", "//", "%") and y[1] == 0 and r.random() < 0.7:
                    y = ["lit", 2]
                ky = "int" if isinstance(y[1], int) else "float"
                rev = r.random() < 0.35
                return self._binform(op, x, y, rev), self._numkind(op, kx, ky)
            y, ky = sub()
            return self._binform(op, x, y, False), self._numkind(op, kx, ky)
        if choice < 0.52:
            x, kx = sub()
            return ["un", self.pick(["neg", "abs"]), x], kx
        if choice < 0.60:   # astype among numeric kinds
            x, kx = sub()
            tgt = self.pick([k for k in ("int", "float", "Int") if k != kx])
            return ["astype", x, DTYPE_OF[tgt]], tgt
        if choice < 0.67:
            x, kx = sub()
            v = self.numlit("int" if kx in ("int", "Int") else None)
            return ["fillna", x, v], kx
        if choice < 0.74:
            x, kx = sub()
            lo, hi = sorted([r.choice([-2, -1, 0, 1]), r.choice([1, 2, 3])])
            w = r.random()
            lo_, hi_ = (lo, hi) if w < 0.5 else ((lo, None) if w < 0.75 else (None, hi))
            return ["clip", x, lo_, hi_], kx
        if choice < 0.84:   # where / mask
            x, kx = sub()
            cond, _ = self.boolean(cols, depth + 1, leaf)
            w = r.random()
            if w < 0.3:
                other = ["none"]
                kx = "float" if kx == "int" else kx
            elif w < 0.6:
                other = self.numlit("int" if kx in ("int", "Int") else None)
                kx = self._numkind("+", kx, "int" if isinstance(other[1], int) else "float")
            else:
                other, ko = sub()
                kx = self._numkind("+", kx, ko)
            return [self.pick(["where", "mask"]), x, cond, other], kx
        if choice < 0.90:   # map / apply with meta
            x, kx = sub()
            if kx in ("int", "float"):
                fn = self.pick(["f_inc", "f_sq", "f_half"])
                out = SFUNCS[fn][1] or kx
                self.uses_meta = True
                return [self.pick(["map", "apply"]), x, {"func": fn}, DTYPE_OF[out]], out
            return ["un", "abs", x], kx
        if choice < 0.95:   # accessors giving ints
            for kind, mk in (("str", lambda c: ["str", "len", ["col", c], [], {}]),
                             ("dt", lambda c: ["dt", self.pick(["year", "hour", "dayofweek", "day", "month", "minute",
                                                                "quarter", "dayofyear"]), ["col", c]]),
                             ("cat", lambda c: ["cat", "codes", ["col", c]])):
                cs = self.by_kind(cols, kind)
                if cs and r.random() < 0.5:
                    return mk(self.pick(cs)), "int"
        cs = self.by_kind(cols, "bool")
        if cs:
            return ["astype", ["col", self.pick(cs)], self.pick(["int64", "float64"])], "int"
        return sub()

    def num_from_other(self, cols, depth):
        for kind in ("str", "dt", "cat", "bool"):
            cs = self.by_kind(cols, kind)
            if cs:
                c = self.pick(cs)
                if kind == "str":
                    return ["str", "len", ["col", c], [], {}], "int"
                if kind == "dt":
                    return ["dt", "hour", ["col", c]], "int"
                if kind == "cat":
                    return ["cat", "codes", ["col", c]], "int"
                return ["astype", ["col", c], "int64"], "int"
        c = self.pick(list(cols))
        return ["un", "notna", ["col", c]], "bool"

    def _binform(self, op, x, y, rev):
        """operator form, method form (add/radd...), with occasional fill_value."""
        r = self.r
        names = {"+": "add", "-": "sub", "*": "mul", "/": "truediv", "//": "floordiv", "%": "mod", "**": "pow"}
        w = r.random()
        if w < 0.6:
            return ["bin", op, y, x] if rev else ["bin", op, x, y]
        nm = names[op]
        if op == "/" and r.random() < 0.5:
            nm = "div"
        kw = {}
        if y[0] != "lit" and r.random() < 0.3:
            kw = {"fill_value": r.choice([0, 1])}
        return ["meth", ("r" + nm) if rev else nm, x, y, kw]

    @staticmethod
    def _numkind(op, a, b):
        if "Int" in (a, b):
            return "Int"
        if op == "/" or "float" in (a, b):
            return "float"
        return "int"

    # ---- boolean expressions
    def boolean(self, cols, depth=0, leaf=None):
        r = self.r
        choice = r.random()
        sub = lambda: self.boolean(cols, depth + 1, leaf)  # noqa: E731
        if leaf is not None:
            lx, lk = leaf
        if depth < 2 and choice < 0.22:
            x, _ = sub()
            y, _ = sub()
            return ["bin", self.pick(["&", "|", "&", "|", "^"]), x, y], "bool"
        if depth < 2 and choice < 0.30:
            x, _ = sub()
            return ["un", "inv", x], "bool"
        kinds = {}
        if leaf is not None:
            kinds = {lk: [None]}
        else:
            for c, k in cols.items():
                kinds.setdefault(k, []).append(c)
        if self.ext and r.random() < 0.3:
            got = self.x_bool(cols, depth, leaf, kinds)
            if got is not None:
                return got
        avail = [k for k in ("int", "float", "Int", "str", "bool", "dt", "cat") if k in kinds]
        if not avail:
            if leaf is not None:
                return ["un", "notna", lx], "bool"
            c = self.pick(list(cols))
            return ["un", "notna", ["col", c]], "bool"
        weights = {"int": 4, "float": 4, "Int": 1, "str": 2, "bool": 2, "dt": 1, "cat": 1}
        pool = [k for k in avail for _ in range(weights[k])]
        k = self.pick(pool)

        def L():
            if leaf is not None:
                return lx
            return ["col", self.pick(kinds[k])]
        if k in ("int", "float", "Int"):
            w = r.random()
            if leaf is None and depth < 2 and w < 0.25:
                x, kx = self.num(cols, depth + 1)
            else:
                x, kx = L(), k
            if kx == "Int" and r.random() < 0.5:
                return ["un", self.pick(["isna", "notna"]), x], "bool"
            w = r.random()
            if w < 0.12 and kx == "float":
                return ["un", self.pick(["isna", "notna"]), x], "bool"
            if w < 0.24:
                return ["isin", x, sorted(r.sample([-1, 0, 1, 2, 3, 4], r.randint(1, 3)))], "bool"
            if w < 0.32:
                lo, hi = sorted([r.choice([-2, -1, 0, 1]), r.choice([1, 2, 3])])
                return ["between", x, lo, hi, self.pick(["both", "neither", "left", "right"])], "bool"
            op = self.pick(list(_CMP))
            if leaf is None and r.random() < 0.3:
                others = [c for c in kinds.get("int", []) + kinds.get("float", []) if ["col", c] != x]
                y = ["col", self.pick(others)] if others else self.numlit()
            else:
                y = self.numlit()
            res = "boolean" if kx == "Int" else "bool"
            if r.random() < 0.25:
                nm = {"<": "lt", "<=": "le", ">": "gt", ">=": "ge", "==": "eq", "!=": "ne"}[op]
                e = ["meth", nm, x, y, {}]
            elif y[0] == "lit" and r.random() < 0.2:
                e = ["cmp", op, y, x]    # reversed: scalar on the left
            else:
                e = ["cmp", op, x, y]
            if res == "boolean":
                e = ["fillna", e, ["lit", bool(r.getrandbits(1))]]
                e = ["astype", e, "bool"]
            return e, "bool"
        if k == "str":
            x = L()
            w = r.random()
            if w < 0.3:
                return ["cmp", self.pick(["==", "!="]), x, ["lit", self.pick(DOMAIN["b"])]], "bool"
            if w < 0.5:
                return ["isin", x, r.sample(DOMAIN["b"] + ["q"], r.randint(1, 3))], "bool"
            if w < 0.75:
                return ["str", "contains", x, [self.pick(["x", "y", "z|w", "^x"])], {}], "bool"
            return ["str", "startswith", x, [self.pick(["x", "y", "w"])], {}], "bool"
        if k == "bool":
            return L(), "bool"
        if k == "dt":
            x = L()
            if r.random() < 0.5:
                return ["cmp", self.pick(["<", ">=", ">"]), x, ["ts", "2020-01-0%d %02d:00" % (r.randint(1, 3), r.randint(0, 23))]], "bool"
            return ["cmp", self.pick(["<", ">=", "=="]), ["dt", "hour", x], ["lit", r.randint(0, 23)]], "bool"
        x = L()   # cat
        if r.random() < 0.5:
            return ["cmp", self.pick(["==", "!="]), x, ["lit", self.pick(DOMAIN["k"])]], "bool"
        return ["isin", x, r.sample(DOMAIN["k"] + ["unused"], r.randint(1, 2))], "bool"

    # ---- string expressions
    def string(self, cols, depth=0, leaf=None):
        r = self.r
        if leaf is not None:
            x = leaf[0]
        else:
            cs = self.by_kind(cols, "str")
            if not cs:
                ns = self.by_kind(cols, "int", "cat")
                if not ns:
                    return None
                return ["astype", ["col", self.pick(ns)], "str"], "str"
            x = ["col", self.pick(cs)]
        if depth >= 2:
            return x, "str"
        w = r.random()
        if depth < 1 and w < 0.2:
            x, _ = self.string(cols, depth + 1, leaf)
        if self.ext and r.random() < 0.45:
            got = self.x_string(cols, depth, leaf, x)
            if got is not None:
                return got
        w = r.random()
        if w < 0.12:
            return ["str", "upper", x, [], {}], "str"
        if w < 0.22:
            a = r.randint(0, 1)
            return ["str", "slice", x, [a, a + r.randint(1, 2)], {}], "str"
        if w < 0.34:
            return ["str", "replace", x, [self.pick(["x", "y", "z"]), self.pick(["Q", "", "xx"])],
                    {"regex": bool(r.getrandbits(1))}], "str"
        if w < 0.46:
            if leaf is None and r.random() < 0.6:
                cs2 = self.by_kind(cols, "str")
                y = ["col", self.pick(cs2)] if cs2 else x
            else:
                y = x
            return ["strcat", x, y, self.pick(["-", "", "_"])], "str"
        if w < 0.56:
            rev = r.random() < 0.4
            lit = ["lit", self.pick(["_s", "p-", "x"])]
            return (["bin", "+", lit, x] if rev else ["bin", "+", x, lit]), "str"
        if w < 0.64:
            return ["str", self.pick(["lower", "title", "capitalize", "strip"]), x, [], {}], "str"
        if w < 0.72:
            return ["str", self.pick(["zfill", "center", "ljust"]), x, [r.randint(1, 4)], {}], "str"
        if w < 0.80:
            self.uses_meta = True
            return [self.pick(["map", "apply"]), x, {"func": self.pick(["f_tag", "f_first"])}, "str"], "str"
        if w < 0.88:
            cond, _ = self.boolean(cols, depth + 1, leaf)
            return [self.pick(["where", "mask"]), x, cond, ["lit", "?"]], "str"
        if w < 0.94:
            return ["str", "get", x, [r.randint(0, 1)], {}], "str"
        return x, "str"

    # ---- any typed column expression for assign / series steps
    def any_expr(self, cols, leaf=None):
        """-> (expr, kind, klass)"""
        r = self.r
        if leaf is not None:
            k = leaf[1]
        else:
            ks = sorted(set(cols.values()) - {"obj"})
            weights = {"int": 5, "float": 5, "Int": 2, "str": 4, "bool": 3, "dt": 3, "cat": 3, "ucat": 3, "boolean": 1,
                       "mstr": 3}
            k = self.pick([q for q in ks for _ in range(weights.get(q, 1))]) if ks else "int"
        w = r.random()
        if self.ext:
            got = self.x_any(cols, leaf, k)
            if got is not None:
                return got
        if k in NUM:
            if w < 0.75:
                e, kk = self.num(cols, 0, leaf)
                return e, kk, "arith"
            e, kk = self.boolean(cols, 0, leaf)
            return e, kk, "cmp"
        if k == "bool":
            if w < 0.7:
                e, kk = self.boolean(cols, 0, leaf)
                return e, kk, "bool"
            x = leaf[0] if leaf is not None else ["col", self.pick(self.by_kind(cols, "bool"))]
            tgt = self.pick(["int64", "float64", "boolean", "str"])
            return ["astype", x, tgt], kind_of_dtype(tgt), "astype"
        if k == "str":
            if w < 0.55:
                e, kk = self.string(cols, 0, leaf)
                return e, kk, "str"
            x = leaf[0] if leaf is not None else ["col", self.pick(self.by_kind(cols, "str"))]
            if w < 0.65:
                return ["str", "len", x, [], {}], "int", "str"
            if w < 0.75:
                return ["astype", x, "category"], "ucat", "astype"
            if w < 0.82:
                return ["str", "split", x, [self.pick(["x", "y", "-"])], {}], "obj", "str"
            if w < 0.90:
                name = self._prist_name(x, leaf)
                if name == "b":
                    vals = self.pick([[10, 11, 12, 13, 14], ["X", "Y", "Z", "W", "XY"], [0.5, 1.5, 2.5, 3.5, 4.5]])
                    out = kind_of_dtype(pd.Series(vals).dtype)
                    self.uses_meta = True
                    return ["map", x, {"dict": [[a, b] for a, b in zip(DOMAIN["b"], vals)]}, DTYPE_OF[out]], out, "map"
            e, kk = self.boolean(cols, 0, leaf)
            return e, kk, "cmp"
        if k == "dt":
            x = leaf[0] if leaf is not None else ["col", self.pick(self.by_kind(cols, "dt"))]
            if w < 0.4:
                return ["dt", self.pick(["year", "hour", "dayofweek", "day", "month", "minute", "quarter",
                                         "dayofyear", "is_month_start", "weekday", "second", "days_in_month"]), x], "int", "dt"
            if w < 0.6:
                return ["dtm", "floor", x, [self.pick(["D", "6h", "h", "12h"])]], "dt", "dt"
            if w < 0.7:
                return ["dtm", self.pick(["ceil", "round"]), x, [self.pick(["D", "6h"])]], "dt", "dt"
            if w < 0.78:
                return ["dtm", "normalize", x, []], "dt", "dt"
            if w < 0.86:
                return ["dtm", "strftime", x, [self.pick(["%Y-%m-%d", "%H:%M", "%d/%m %H"])]], "str", "dt"
            if w < 0.93:
                return ["bin", self.pick(["+", "-"]), x, ["td", self.pick(["3h", "1D", "90min"])]], "dt", "arith"
            e, kk = self.boolean(cols, 0, leaf)
            return e, kk, "cmp"
        if k == "cat":
            x = leaf[0] if leaf is not None else ["col", self.pick(self.by_kind(cols, "cat"))]
            if w < 0.22:
                return ["cat", "codes", x], "int", "cat"
            if w < 0.40:
                cats = self.pick([["p", "q"], ["r", "q", "p"], ["q", "zz", "p", "r"], ["p", "q", "r", "unused", "more"]])
                return ["catm", "set_categories", x, [cats]], "cat", "cat"
            if w < 0.55:
                return ["catm", "remove_unused_categories", x, []], "cat", "cat"
            if w < 0.65:
                return ["catm", "as_known", x, []], "cat", "cat"
            if w < 0.72:
                return ["catm", "as_unknown", x, []], "ucat", "cat"
            if w < 0.80:
                return ["catm", "add_categories", x, [["extra"]]], "cat", "cat"
            if w < 0.86:
                return ["catm", "as_ordered", x, []], "cat", "cat"
            if w < 0.93:
                return ["astype", x, "str"], "str", "astype"
            e, kk = self.boolean(cols, 0, leaf)
            return e, kk, "cmp"
        if k == "ucat":     # categories unknown to dask: only documented-safe operations
            x = leaf[0] if leaf is not None else ["col", self.pick(self.by_kind(cols, "ucat"))]
            if w < 0.3:
                return ["catm", "as_known", x, []], "ucat", "cat"
            if w < 0.55:
                cats = self.pick([["x", "y", "z", "w", "xy"], ["y", "x", "other", "z", "w", "xy"], ["0", "1", "2", "3"],
                                  ["x", "y"], [0, 1, 2, 3], [3, 1, 2, 0, -1]])
                return ["catm", "set_categories", x, [cats]], "cat", "cat"
            if w < 0.75:
                return ["astype", x, "str"], "str", "astype"
            if w < 0.9:
                return ["isin", x, r.sample(["x", "y", "0", "1", "True", "2.0"], 2)], "bool", "cmp"
            return ["cmp", self.pick(["==", "!="]), x, ["lit", self.pick(["x", "1", "True"])]], "bool", "cmp"
        if k == "boolean":
            x = leaf[0] if leaf is not None else ["col", self.pick(self.by_kind(cols, "boolean"))]
            if w < 0.3:
                return ["fillna", x, ["lit", bool(r.getrandbits(1))]], "boolean", "fillna"
            if w < 0.5:
                return ["un", "inv", x], "boolean", "bool"
            if w < 0.7:
                return ["un", self.pick(["isna", "notna"]), x], "bool", "bool"
            if w < 0.85:
                return ["astype", x, self.pick(["float64", "Int64"])], "float", "astype"
            bs = self.by_kind(cols, "bool") if leaf is None else []
            if bs:
                return ["bin", self.pick(["&", "|"]), x, ["col", self.pick(bs)]], "boolean", "bool"
            return ["un", "inv", x], "boolean", "bool"
        x = leaf[0] if leaf is not None else ["col", self.pick(list(cols))]
        return ["un", "notna", x], "bool", "bool"

    def _prist_name(self, x, leaf):
        """rand_frame name ("a", "b", "k") of a column that still holds its rand_frame domain, else None"""
        if leaf is not None:
            return self.orig.get(self.sprist, self.sprist) if x == ["self"] else None
        if x[0] == "col" and x[1] in self.prist:
            return self.orig.get(x[1], x[1])
        return None

    # ---- frame-level steps
    def fresh(self):
        self.newcount += 1
        return "x%d" % self.newcount

    def numcols(self, kinds=("int", "float"), kmin=1):
        cs = self.by_kind(self.cols, *kinds)
        if len(cs) < kmin:
            return None
        n = self.r.randint(kmin, min(len(cs), 3))
        return self.r.sample(cs, n)

    def _commit(self, step, cols, klass, filt=False):
        """record one emitted step together with the frame schema it produces"""
        self.cols = cols
        self.prist &= set(cols)
        if filt:
            self.filtered = True
            self.last_filter = len(self.schemas)
        self.schemas.append(dict(cols))
        self.classes.append(klass)
        self.steps.append(step)
        return step

    def _commit_series(self, step, klass, kind, prist=None, name=None, filt=False):
        self.state = "series"
        self.skind = kind
        self.sprist = prist
        self.sname = name
        if filt:
            self.filtered = True
            self.last_filter = len(self.schemas)
        self.schemas.append(None)
        self.classes.append(klass)
        self.steps.append(step)
        return step

    def _narrow(self, sel):
        """explicit projection step in front of a whole-frame operation"""
        if list(sel) != list(self.cols):
            self._commit({"op": "project", "cols": list(sel)}, {c: self.cols[c] for c in sel}, "project:list")

    def op_frame(self):
        """one operation of the table on the current frame; emits 1-2 steps (an explicit projection in front of
        whole-frame operations that only make sense on a typed sub-frame)"""
        table = [("project", 10), ("getcol", 5), ("filter", 16), ("assign", 18), ("frame_arith", 8), ("frame_cmp", 4),
                 ("astype", 7), ("fillna", 6), ("where", 7), ("isin", 3), ("clip", 4), ("apply_rows", 4),
                 ("rename", 6), ("other", 32 if self.other else 0)]
        if self.ext and self.steps and self.r.random() < 0.6 and self.s_x_after_mapping() is not None:
            return
        if self.ext:
            table += [("x_mapna", 12), ("x_frame_map", 8), ("x_round", 4), ("x_replace", 5), ("x_abs", 2), ("x_fillna", 6),
                      ("x_clip", 5), ("x_rename", 3), ("x_loc", 6), ("x_arith", 9), ("x_cmp", 3), ("x_isin", 3),
                      ("x_apply_rows", 2), ("x_series_kw", 9), ("astype", 4)]
        pool = [k for k, w in table for _ in range(w)]
        for _ in range(20):
            op = self.pick(pool)
            if getattr(self, "s_" + op)() is not None:
                return
        self.s_rename() or self.s_getcol()

    def s_project(self):
        names = list(self.cols)
        if len(names) < 2:
            return None
        k = self.r.randint(1, min(len(names), 5))
        sel = self.r.sample(names, k)
        return self._commit({"op": "project", "cols": sel}, {c: self.cols[c] for c in sel}, "project:list")

    def s_getcol(self):
        c = self.pick(list(self.cols))
        if self.cols[c] == "obj":
            return None
        # attribute access only for names that are not DataFrame attributes (df.T is the transpose)
        st = {"op": "getcol", "col": c, "attr": bool(self.r.random() < 0.3 and c.isidentifier() and not hasattr(pd.DataFrame, c))}
        return self._commit_series(st, "project:single", self.cols[c], c if c in self.prist else None, c)

    def s_filter(self):
        r = self.r
        # predicate evaluated on an earlier state with the same row set ("mask from another aligned series")
        at = len(self.schemas) - 1
        if r.random() < 0.3:
            cands = [j for j in range(self.last_filter, at + 1) if self.schemas[j] is not None]
            at = self.pick(cands)
        pred, _ = self.boolean(self.schemas[at])
        how = "getitem" if r.random() < 0.75 else "loc"
        klass = "filter:" + ("compound" if pred[0] in ("bin", "un") and pred[1] in ("&", "|", "^", "inv") else "simple")
        if at != len(self.schemas) - 1:
            klass = "filter:earlier-state-mask"
        return self._commit({"op": "filter", "pred": pred, "at": at, "how": how}, dict(self.cols), klass, filt=True)

    def s_assign(self):
        r = self.r
        items = []
        cols = dict(self.cols)
        now = len(self.schemas) - 1
        klass = []
        seen = set()
        for _ in range(1 if r.random() < 0.65 else 2):
            shadow = r.random() < 0.4
            name = self.pick(list(self.cols)) if shadow else self.fresh()
            if name in seen:
                continue
            seen.add(name)
            w = r.random()
            if w < 0.08:
                v = self.pick([1, 2.5, "s", True])
                items.append([name, ["lit", v], "scalar", now])
                kind = {int: "int", float: "float", str: "str", bool: "bool"}[type(v)]
            else:
                mode = "lambda" if w < 0.45 else "series"
                at = now
                base = self.cols
                if mode == "series" and r.random() < 0.25:
                    cands = [j for j in range(self.last_filter, now + 1) if self.schemas[j] is not None]
                    at = self.pick(cands)
                    base = self.schemas[at]
                if mode == "lambda" and items:
                    base = cols     # callables see the frame with the earlier keyword arguments applied (both libraries)
                e, kind, kl = self.any_expr(base)
                items.append([name, e, mode, at])
                klass.append(kl)
                klass.append(mode)
            cols[name] = kind
            self.prist.discard(name)
            klass.append("shadow" if shadow else "new")
        if not items:
            return None
        tags = [t for t in ("shadow", "new", "lambda", "series") if t in klass]
        return self._commit({"op": "assign", "items": items}, cols, "assign:" + "+".join(tags))

    def s_frame_arith(self):
        r = self.r
        sel = self.numcols()
        if not sel:
            return None
        op = self.pick(["+", "-", "*", "/", "//", "%", "**"])
        w = r.random()
        cols = {c: self.cols[c] for c in sel}
        if w < 0.45 or op == "**":
            v = self.numlit()[1]
            if op == "**":
                v = r.choice([2, 3])
            if op in ("/", "//", "%") and v == 0:
                v = 2
            rhs = {"kind": "scalar", "v": v}
            out = {c: self._numkind(op, k, "int" if isinstance(v, int) else "float") for c, k in cols.items()}
            style = self.pick(["operator", "method", "reversed", "rmethod"])
        elif w < 0.75:
            sel2 = r.sample(sel, r.randint(1, len(sel)))
            r.shuffle(sel2)
            rhs = {"kind": "frame", "cols": sel2}
            out = {}
            for c in sorted(sel) if set(sel2) != set(sel) else sel:
                out[c] = self._numkind(op, self.cols[c], self.cols[c]) if c in sel2 else "float"
            style = self.pick(["operator", "method"])
        else:
            e, k = self.num(self.cols, 1)
            rhs = {"kind": "series", "expr": e, "at": len(self.schemas) - 1}
            out = {c: self._numkind(op, kk, k) for c, kk in cols.items()}
            style = "method"
        self._narrow(sel)
        st = {"op": "frame_arith", "binop": op, "rhs": rhs, "style": style}
        return self._commit(st, out, "frame-arith:%s:%s" % (rhs["kind"], style))

    def s_frame_cmp(self):
        sel = self.numcols()
        if not sel:
            return None
        op = self.pick(list(_CMP))
        w = self.r.random()
        if w < 0.6:
            rhs = {"kind": "scalar", "v": self.numlit()[1]}
            style = self.pick(["operator", "method"])
        elif w < 0.8:
            rhs = {"kind": "frame", "cols": list(sel)}    # identically-labelled frames only (pandas requirement)
            style = self.pick(["operator", "method"])
        else:
            e, k = self.num(self.cols, 1)
            rhs = {"kind": "series", "expr": e, "at": len(self.schemas) - 1}
            style = "method"
        self._narrow(sel)
        out = {c: "bool" for c in sel}
        return self._commit({"op": "frame_cmp", "cmpop": op, "rhs": rhs, "style": style}, out,
                            "frame-cmp:%s:%s" % (rhs["kind"], style))

    _ASTYPE = {"int": ["float64", "Int64", "str", "category", "bool", "int32"], "float": ["int64", "Int64", "str", "float32"],
               "bool": ["int64", "float64", "boolean", "str"], "str": ["category"],
               "cat": ["str"], "Int": ["float64", "int64", "str"], "boolean": ["bool", "float64", "Int64"],
               "dt": ["str", "datetime64[s]"]}

    @staticmethod
    def _kind_of_target(t):
        if t == "category":
            return "ucat"
        if t == "str":
            return "str"
        return kind_of_dtype(pd.api.types.pandas_dtype(t))

    def s_astype(self):
        r = self.r
        w = r.random()
        cols = dict(self.cols)
        if w < 0.7:
            names = [c for c in cols if cols[c] in self._ASTYPE]
            if not names:
                return None
            sel = r.sample(names, r.randint(1, min(3, len(names))))
            spec = {}
            for c in sel:
                t = self.pick(self._ASTYPE[cols[c]])
                spec[c] = t
                cols[c] = self._kind_of_target(t)
                self.prist.discard(c)
            kl = "astype:dict:" + "+".join(sorted({self._tkl(t) for t in spec.values()}))
            return self._commit({"op": "astype", "spec": spec}, cols, kl)
        sel = self.numcols(kinds=("int", "float", "bool", "Int"))
        if not sel:
            return None
        t = self.pick(["float64", "str", "Int64", "int64", "category"])
        out = {c: self._kind_of_target(t) for c in sel}
        self._narrow(sel)
        self.prist = set()
        return self._commit({"op": "astype", "spec": t}, out, "astype:frame:" + self._tkl(t))

    @staticmethod
    def _tkl(t):
        return {"category": "category", "str": "str", "object": "object", "Int64": "nullable", "boolean": "nullable"}.get(t, "numpy")

    def _fillval(self, kind):
        r = self.r
        return {"int": 0, "float": r.choice([0.0, -1.5, 7]), "Int": r.choice([0, 9]), "boolean": bool(r.getrandbits(1)),
                "str": "?", "bool": False, "cat": "p"}.get(kind)

    def s_fillna(self):
        r = self.r
        w = r.random()
        if w < 0.5:
            names = [c for c in self.cols if self.cols[c] in ("float", "Int", "boolean", "int", "str", "cat")]
            if not names:
                return None
            sel = r.sample(names, r.randint(1, min(3, len(names))))
            val = {c: self._fillval(self.cols[c]) for c in sel}
            return self._commit({"op": "fillna", "value": val}, dict(self.cols), "fillna:dict")
        sel = self.numcols(kinds=("int", "float", "Int"))
        if not sel:
            return None
        v = r.choice([0, 1, -1]) if any(self.cols[c] == "Int" for c in sel) else r.choice([0, 0.5, -1])
        out = {c: self.cols[c] for c in sel}
        self._narrow(sel)
        return self._commit({"op": "fillna", "value": v}, out, "fillna:scalar")

    def s_where(self):
        r = self.r
        sel = self.numcols(kinds=("int", "float"))
        if not sel:
            return None
        which = self.pick(["where", "mask"])
        cond = {"kind": "frame_cmp", "op": self.pick(list(_CMP)), "v": r.choice([0, 1, 0.5])}
        w = r.random()
        out = {c: self.cols[c] for c in sel}
        if w < 0.35:
            other = {"kind": "none"}
            out = {c: "float" for c in sel}
        elif w < 0.7:
            v = self.numlit()[1]
            other = {"kind": "scalar", "v": v}
            out = {c: self._numkind("+", k, "int" if isinstance(v, int) else "float") for c, k in out.items()}
        else:
            v = r.choice([-1, 2, 0.5])
            other = {"kind": "frame_mul", "v": v}
            out = {c: self._numkind("+", k, "int" if isinstance(v, int) else "float") for c, k in out.items()}
        self._narrow(sel)
        return self._commit({"op": "where", "which": which, "cond": cond, "other": other}, out,
                            "%s:frame:other-%s" % (which, other["kind"]))

    def s_isin(self):
        r = self.r
        names = [c for c in self.cols if self.cols[c] in ("int", "float", "str", "Int")]
        if not names:
            return None
        sel = r.sample(names, r.randint(1, min(3, len(names))))
        vals = r.sample([0, 1, 2, 3, -1.0, 2.0, "x", "y", "xy"], r.randint(1, 4))
        self._narrow(sel)
        return self._commit({"op": "isin", "values": vals}, {c: "bool" for c in sel}, "isin:frame")

    def s_clip(self):
        sel = self.numcols(kinds=("int", "float"))
        if not sel:
            return None
        r = self.r
        lo, hi = sorted([r.choice([-2, -1, 0, 0.5]), r.choice([1, 2, 3, 1.5])])
        w = r.random()
        lo_, hi_ = (lo, hi) if w < 0.5 else ((lo, None) if w < 0.75 else (None, hi))
        out = {c: self.cols[c] for c in sel}
        self._narrow(sel)
        return self._commit({"op": "clip", "lower": lo_, "upper": hi_}, out, "clip:frame")

    def s_apply_rows(self):
        r = self.r
        nums = self.by_kind(self.cols, "int", "float")
        strs = self.by_kind(self.cols, "str")
        w = r.random()
        if len(nums) >= 2 and w < 0.7:
            x, y = r.sample(nums, 2)
            if r.random() < 0.6:
                fn = "r_add"
                out = self._numkind("+", self.cols[x], self.cols[y])
                # a frame holding only numeric columns hands float rows to the function
                if out == "int" and all(k in ("int", "float", "bool") for k in self.cols.values()) \
                        and "float" in self.cols.values():
                    out = "float"
            else:
                fn, out = "r_gt", "bool"
        elif strs and nums:
            x, y = self.pick(strs), self.pick(nums)
            fn, out = "r_lab", "str"
        else:
            return None
        self.uses_meta = True
        st = {"op": "apply_rows", "func": fn, "args": [x, y], "meta": DTYPE_OF[out]}
        return self._commit_series(st, "apply:axis1", out)

    def s_rename(self):
        r = self.r
        names = list(self.cols)
        sel = r.sample(names, r.randint(1, min(3, len(names))))
        mapping = {}
        for c in sel:
            new = c.upper() if r.random() < 0.5 else c + "_r"
            if new in self.cols or new in mapping.values():
                continue
            mapping[c] = new
        if not mapping:
            return None
        if r.random() < 0.2:
            mapping["zz_absent"] = "ZZ"    # mapping keys that are not columns are ignored by pandas
        cols = {}
        pr = set()
        for c, k in self.cols.items():
            cols[mapping.get(c, c)] = k
            if c in self.prist and c not in mapping:
                pr.add(c)
        self.prist = pr
        return self._commit({"op": "rename", "columns": mapping}, cols, "rename:columns")

    def s_other(self):
        """Second operand living in a differently partitioned frame (same index values or a different row set)."""
        r = self.r
        o = self.other
        if o is None:
            return None
        identical = o["same_rows"] and not self.filtered
        if not identical and not self.unique:
            return None     # pandas cannot align non-identical indexes with duplicates
        ocols = o["cols"]
        mine = self.by_kind(self.cols, "int", "float")
        theirs = self.by_kind(ocols, "int", "float")
        if not mine or not theirs:
            return None
        w = r.random()
        self.uses_other = True
        tag = "" if identical else ":partial-overlap"
        unknown = bool(o.get("unknown"))
        if unknown:
            # operands that are not co-partitioned by KNOWN divisions: dask aligns them by an index shuffle, which
            # defines the rows of the result but no row order -> the whole pipeline is compared as a row multiset
            if not self.unique:
                return None
            tag += ":unknown-divisions"
            self.unordered = True
            self.feat("other:unknown-divisions")
            w = w * 0.5
        if w < 0.3:   # series (op) series -> series
            c, oc = self.pick(mine), self.pick(theirs)
            op = self.pick(["+", "-", "*", "/"])
            st = {"op": "other", "mode": "series_bin", "col": c, "ocol": oc, "binop": op, "swap": r.random() < 0.3,
                  "style": self.pick(["operator", "method"])}
            if st["style"] == "method" and r.random() < 0.6:
                st["fill_value"] = r.choice([0, 1])
            kind = "float" if not identical else self._numkind(op, self.cols[c], ocols[oc])
            return self._commit_series(st, "other:series-arith" + tag, kind, filt=unknown)
        if w < 0.5:   # frame (op) frame
            sel = self.numcols()
            osel = r.sample(theirs, r.randint(1, min(3, len(theirs))))
            op = self.pick(["+", "-", "*"])
            names = sorted(set(sel) | set(osel)) if set(sel) != set(osel) else sel
            out = {c: ("float" if not identical or c not in sel or c not in osel else self._numkind(op, self.cols[c], ocols[c])) for c in names}
            self._narrow(sel)
            st = {"op": "other", "mode": "frame_bin", "ocols": osel, "binop": op, "style": self.pick(["operator", "method"])}
            if st["style"] == "method" and r.random() < 0.6:
                st["fill_value"] = r.choice([0, 1])
            return self._commit(st, out, "other:frame-arith" + tag, filt=unknown)
        if w < 0.7:   # assign a column of the other frame (left-aligned on the index)
            oc = self.pick(list(ocols))
            if ocols[oc] == "obj":
                return None
            name = self.fresh() if r.random() < 0.6 else self.pick(list(self.cols))
            cols = dict(self.cols)
            cols[name] = ocols[oc] if identical else "obj"
            self.prist.discard(name)
            return self._commit({"op": "other", "mode": "assign", "name": name, "ocol": oc}, cols, "other:assign" + tag)
        if w < 0.85 and identical:   # mask from the other frame
            oc = self.pick(theirs)
            st = {"op": "other", "mode": "mask", "ocol": oc, "cmpop": self.pick(list(_CMP)), "v": r.choice([0, 1, 2])}
            return self._commit(st, dict(self.cols), "other:mask", filt=True)
        if identical:   # where with `other` series from the other frame
            c, oc = self.pick(mine), self.pick(theirs)
            cond, _ = self.boolean(self.cols, 1)
            st = {"op": "other", "mode": "where", "which": self.pick(["where", "mask"]), "col": c, "ocol": oc, "cond": cond}
            return self._commit_series(st, "other:where-other", self._numkind("+", self.cols[c], ocols[oc]))
        return None

    # =========================================================================== extended operation table (ext only)
    # Every step kind below passes a NON-default keyword argument (or an argument form the base table never uses)
    # whose effect is visible in the generated data; each one registers a feature name (-> counter with a floor).
    def feat(self, name):
        self.features.add(name)

    def _missing_src(self, cols, leaf, kinds=("float", "str")):
        """-> (expr, kind) of a series expression holding missing values (column c / m of rand_frame, or a
        where/mask without `other`), or None"""
        r = self.r
        if leaf is not None:
            x, k = leaf
            if k not in kinds:
                return None
        else:
            cs = self.by_kind(cols, *kinds)
            if not cs:
                return None
            c = self.pick(cs)
            x, k = ["col", c], cols[c]
        if k == "str" or (k == "float" and r.random() < 0.5):
            cond = self._simple_pred(cols, leaf)
            x = [self.pick(["where", "mask"]), x, cond, ["none"]]
        return x, k

    def _simple_pred(self, cols, leaf):
        """a plain comparison (no recursion into the extended table)"""
        r = self.r
        if leaf is not None:
            x, k = leaf
        else:
            cs = self.by_kind(cols, "int", "float", "str", "bool")
            if not cs:
                return ["un", "notna", ["col", self.pick(list(cols))]]
            c = self.pick(cs)
            x, k = ["col", c], cols[c]
        if k in ("int", "float"):
            return ["cmp", self.pick(["<", ">", ">=", "!="]), x, ["lit", r.choice([0, 1, 2])]]
        if k == "str":
            return ["cmp", self.pick(["==", "!="]), x, ["lit", self.pick(DOMAIN["b"])]]
        if k == "bool":
            return x
        return ["un", "notna", x]

    def mapna_expr(self, cols, leaf=None, want=None):
        """Series.map(mapper, na_action=None|"ignore") on a series WITH missing values -> (expr, kind) | None.
        mapper forms: function mapping NaN to a non-missing value (f_fmt -> text, f_slen -> float), NaN-propagating
        function (f_inc), dict and Series mappers (pandas Series, or a one-partition dask Series) with and without a
        NaN key.  want="float": only mappers with float results."""
        r = self.r
        src = self._missing_src(cols, leaf)
        if src is None:
            return None
        x, k = src
        # value-producing functions with a NUMERIC result only on numeric sources: an EMPTY partition keeps the dtype of
        # its input (the known meta-not-enforced mechanism), which for a str input breaks every later arithmetic step
        forms = {"float": ["fmt", "fmt", "slen", "inc", "dict", "series", "series"],
                 "str": ["fmt", "fmt", "dict", "series"]}[k]
        if want == "float":
            forms = [f for f in forms if f in ("slen", "inc") or (k == "float" and f in ("dict", "series"))]
        if not forms:
            return None
        form = self.pick(forms)
        na = self.pick([None, "ignore", "ignore"])
        self.uses_meta = True
        if form == "fmt":
            how, out, dt = {"func": "f_fmt"}, "mstr", "str"
        elif form == "slen":
            how, out, dt = {"func": "f_slen"}, "float", "float64"
        elif form == "inc":
            how, out, dt = {"func": "f_inc"}, "float", "float64"
        else:
            if k == "float":
                keys = r.sample([-3.0, -2.0, -1.0, 0.0, 1.0, 2.0, 3.0, 0.5], r.randint(2, 5))
                pairs = [[q, float(10 + i)] for i, q in enumerate(keys)]
                if r.random() < 0.7:
                    pairs.append([None, -1.0])        # None = the NaN key
                out, dt = "float", "float64"
            else:
                keys = r.sample(DOMAIN["b"], r.randint(2, 4))
                pairs = [[q, q.upper() + "!"] for q in keys]
                if r.random() < 0.7:
                    pairs.append([None, "?"])
                out, dt = "mstr", "str"
            # a dask Series mapper is gathered into one partition and broadcast; only with known divisions (with
            # unknown divisions every later combination with the original frame is an index shuffle)
            as_dask = bool(form == "series" and r.random() < 0.4 and self.known)
            if as_dask and k == "str" and pairs[-1][0] is None:
                pairs.pop()      # from_pandas refuses a non-numeric index holding nulls (documented NotImplementedError)
            how = {"dict": pairs} if form == "dict" else {"series": pairs, "dask": as_dask}
        self.feat("map:na_action=ignore" if na == "ignore" else "map:on-missing-values")
        if na == "ignore" and form in ("fmt", "slen"):
            self.feat("map:na_action=ignore:nan-to-value-function")
        if form in ("dict", "series"):
            self.feat("map:%s-mapper" % form)
        return ["map", x, how, dt, na], out

    def x_num(self, cols, depth, leaf, sub):
        r = self.r
        w = r.random()
        if w < 0.15:
            return self.mapna_expr(cols, leaf, want="float") if depth < 2 else None
        x, kx = sub()
        if w < 0.26:    # round(decimals)
            self.feat("round:series")
            return ["round", x, self.pick([0, 1, 1, -1])], kx
        if kx not in ("int", "float"):
            return None
        if w < 0.40:    # replace
            isint = kx == "int"
            keys = [0, 1, 2, 3, -1] if isint else [0.0, 1.0, 2.0, -1.0, 3.0]
            vals = [100, -7, 50] if isint else [100.5, -7.25, 50.0]
            form = self.pick(["scalar", "list", "lists", "dict"])
            self.feat("replace:series")
            if form == "scalar":
                k = None if (not isint and r.random() < 0.35) else self.pick(keys)
                return ["replace", x, k, self.pick(vals), False], kx
            ks = r.sample(keys, 2)
            if form == "list":
                return ["replace", x, ks, self.pick(vals), False], kx
            if form == "lists":
                return ["replace", x, ks, r.sample(vals, 2), False], kx
            return ["replace", x, {"dict": [[a, b] for a, b in zip(ks, r.sample(vals, 2))]}, ["nov"], False], kx
        if w < 0.56:    # fillna(value=<series>)
            y, ky = sub()
            if ky not in ("int", "float"):
                y, ky = self.num(cols, 2, leaf)
            if ky not in ("int", "float"):
                return None
            self.feat("fillna:series-value")
            return ["fillna", x, y], (kx if kx == "int" else "float")
        if w < 0.68:    # clip with series bounds / axis=
            if kx == "int":
                x = ["astype", x, "float64"]
            v = r.random()
            if v < 0.3:
                lo, hi = sorted([r.choice([-2, -1, 0]), r.choice([1, 2])])
                self.feat("clip:axis")
                return ["clip", x, lo, hi, self.pick([0, "index"])], "float"
            y, ky = sub()
            if ky not in ("int", "float"):
                return None
            self.feat("clip:series-bounds")
            ax = self.pick([None, 0])
            if v < 0.55:
                return ["clip", x, y, None, ax], "float"
            if v < 0.8:
                return ["clip", x, None, y, ax], "float"
            return ["clip", x, y, ["bin", "+", y, ["lit", 1]], ax], "float"
        if w < 0.83:    # arithmetic method with a scalar and fill_value=
            op = self.pick(["+", "-", "*", "/", "//", "%"])
            names = {"+": "add", "-": "sub", "*": "mul", "/": "truediv", "//": "floordiv", "%": "mod"}
            y = ["lit", r.choice([1, 2, 3, 0.5, -2])]
            rev = r.random() < 0.3
            fv = r.choice([0, 1, 2.5])
            if rev and fv == 0 and op in ("/", "//", "%"):
                fv = 1
            self.feat("arith:series-scalar-fill_value")
            ky = "int" if isinstance(y[1], int) else "float"
            kf = "int" if isinstance(fv, int) else "float"
            kind = self._numkind(op, kx, ky)
            if kx == "float":
                kind = self._numkind(op, kind, kf)
            return ["meth", ("r" if rev else "") + names[op], x, y, {"fill_value": fv}], kind
        # Series.apply(f, args=, **kwargs)
        self.uses_meta = True
        self.feat("apply:args-kwargs")
        if r.random() < 0.5:
            return ["apply", x, {"func": "f_addk"}, DTYPE_OF[kx], [r.choice([1, 2, 5])], {"j": r.choice([0, 10])}], kx
        return ["apply", x, {"func": "f_addk"}, DTYPE_OF[kx], [], {"k": r.choice([1, 2, 5])}], kx

    def x_bool(self, cols, depth, leaf, kinds):
        r = self.r

        def one(*ks):
            if leaf is not None:
                return leaf[0] if leaf[1] in ks else None
            cs = [c for k in ks for c in kinds.get(k, [])]
            return ["col", self.pick(cs)] if cs else None
        w = r.random()
        if w < 0.25:    # comparison method with fill_value=
            x = one("float") or one("int")
            if x is None:
                return None
            nm = self.pick(["lt", "le", "gt", "ge", "eq", "ne"])
            y = None
            if leaf is None and r.random() < 0.5:
                others = [c for c in kinds.get("float", []) + kinds.get("int", []) if ["col", c] != x]
                if others:
                    y = ["col", self.pick(others)]
            if y is None:
                y = ["lit", r.choice([0, 1, -1, 0.5])]
            self.feat("cmp:series-fill_value")
            return ["meth", nm, x, y, {"fill_value": r.choice([0, 1, -5])}], "bool"
        if w < 0.45:    # isin(values) as set / ndarray / pandas Series
            x = one("int", "float")
            if x is None:
                return None
            self.feat("isin:non-list-values")
            vals = sorted(r.sample([-1, 0, 1, 2, 3, 4], r.randint(1, 3)))
            return ["isin", x, vals, self.pick(["set", "ndarray", "series"])], "bool"
        if w < 0.60:    # between with series bounds
            x = one("int", "float")
            if x is None:
                return None
            self.feat("between:series-bounds")
            d = r.choice([1, 2])
            if leaf is None:
                cs = kinds.get("float", []) + kinds.get("int", [])
                base = ["col", self.pick(cs)]
            else:
                base = ["bin", "*", x, ["lit", 0.5]]
            return ["between", x, ["bin", "-", base, ["lit", d]], ["bin", "+", base, ["lit", d]],
                    self.pick(["both", "neither", "left", "right"])], "bool"
        if w < 0.85:    # str predicates with keyword arguments
            x = one("str")
            if x is None:
                return None
            self.feat("str:kwargs")
            v = r.random()
            if v < 0.2:
                return ["str", "contains", x, [self.pick(["X", "Y", "W"])], {"case": False}], "bool"
            if v < 0.35:
                return ["str", "contains", x, [self.pick(["x|y", "x", "^x"])], {"regex": False}], "bool"
            if depth >= 2:
                return ["str", "contains", x, [self.pick(["X", "y"])], {"case": False}], "bool"
            src = self._missing_src(cols, leaf, kinds=("str",))
            if src is None:
                return None
            self.feat("str:na=")
            meth = self.pick(["contains", "startswith", "endswith"])
            return ["str", meth, src[0], [self.pick(["x", "y", "w"])], {"na": bool(r.getrandbits(1))}], "bool"
        x = one("mstr")
        if x is None:
            return None
        if r.random() < 0.7:
            return ["un", self.pick(["isna", "notna"]), x], "bool"
        return ["cmp", self.pick(["==", "!="]), x, ["lit", self.pick(["<nan>", "<1.0>", "X!", "?"])]], "bool"

    def x_string(self, cols, depth, leaf, x):
        r = self.r
        w = r.random()
        if w >= 0.65 and depth >= 2:
            w = r.random() * 0.65
        if w < 0.65:
            self.feat("str:kwargs")
        if w < 0.12:
            return ["str", self.pick(["strip", "lstrip", "rstrip"]), x, [self.pick(["x", "xy", "w"])], {}], "str"
        if w < 0.24:
            return ["str", "pad", x, [r.randint(2, 4)], {"side": self.pick(["left", "right", "both"]),
                                                         "fillchar": self.pick(["*", "0"])}], "str"
        if w < 0.34:
            return ["str", self.pick(["center", "ljust", "rjust"]), x, [r.randint(2, 4), self.pick(["*", "."])], {}], "str"
        if w < 0.45:
            y = ["strcat", x, x, "-"]
            return ["str", "slice", y, self.pick([[0, None, 2], [None, None, -1], [1, None, 2]]), {}], "str"
        if w < 0.55:
            y = ["strcat", x, x, ""]
            return ["str", "replace", y, [self.pick(["x", "y", "w"]), "Q"], {"n": 1, "regex": False}], "str"
        if w < 0.65:
            return ["str", "replace", x, [self.pick(["X", "Y", "W"]), "q"], {"case": False, "regex": True}], "str"
        src = self._missing_src(cols, leaf, kinds=("str",))
        if src is None:
            return None
        self.feat("str:cat-na_rep")
        return ["strcat", x, src[0], self.pick(["-", "_"]), self.pick(["?", ""])], "str"

    def x_any(self, cols, leaf, k):
        """-> (expr, kind, klass) | None   (extended alternatives for assign / series steps)"""
        r = self.r
        x = leaf[0] if leaf is not None else None
        if k == "mstr":
            if x is None:
                x = ["col", self.pick(self.by_kind(cols, "mstr"))]
            w = r.random()
            if w < 0.55:
                return ["un", self.pick(["isna", "notna"]), x], "bool", "bool"
            if w < 0.8:
                return ["fillna", x, ["lit", "?"]], "obj", "fillna"
            return ["cmp", self.pick(["==", "!="]), x, ["lit", self.pick(["<nan>", "<1.0>", "X!", "?"])]], "bool", "cmp"
        if k in ("float", "str") and r.random() < 0.15:
            got = self.mapna_expr(cols, leaf)
            if got is not None:
                return got[0], got[1], "map-na"
        if k == "cat" and r.random() < 0.45:
            if x is None:
                x = ["col", self.pick(self.by_kind(cols, "cat"))]
            if self._prist_name(x, leaf) != "k":
                return None
            self.feat("cat:kwargs")
            w = r.random()
            if w < 0.3:
                cats = self.pick([["r", "q", "p"], ["p", "q"], ["q", "zz", "p", "r"]])
                return ["catm", "set_categories", x, [cats], {"ordered": True}], "cat", "cat"
            if w < 0.55:
                return ["catm", "reorder_categories", x, [["unused", "r", "q", "p"]], {"ordered": True}], "cat", "cat"
            if w < 0.8:
                return ["catm", "rename_categories", x, [{"p": "P", "unused": "U"}], {}], "cat", "cat"
            return ["catm", "remove_categories", x, [self.pick([["p"], ["unused"], ["q", "r"]])], {}], "cat", "cat"
        return None

    # ---- extended frame-level steps
    def s_x_mapna(self):
        """a mapped column (Series.map with na_action on missing values) assigned / used as a filter / taken as a series"""
        r = self.r
        got = self.mapna_expr(self.cols)
        if got is None:
            return None
        e, kind = got
        now = len(self.schemas) - 1
        w = r.random()
        if w < 0.6:
            name = self.fresh() if r.random() < 0.7 else self.pick(list(self.cols))
            mode = self.pick(["lambda", "series"])
            cols = dict(self.cols)
            cols[name] = kind
            self.prist.discard(name)
            return self._commit({"op": "assign", "items": [[name, e, mode, now]]}, cols, "assign:map-na:" + mode)
        if w < 0.8:
            if kind == "mstr":
                pred = ["un", self.pick(["isna", "notna"]), e]
            elif kind == "str":
                pred = ["cmp", self.pick(["==", "!="]), e, ["lit", self.pick(["<nan>", "<<NA>>", "<1.0>"])]]
            else:
                pred = ["un", self.pick(["isna", "notna"]), e] if r.random() < 0.6 else ["cmp", ">", e, ["lit", 3.5]]
            how = "getitem" if r.random() < 0.75 else "loc"
            return self._commit({"op": "filter", "pred": pred, "at": now, "how": how}, dict(self.cols), "filter:map-na",
                                filt=True)
        return self._commit_series({"op": "fseries", "expr": e}, "series:map-na", kind)

    @staticmethod
    def mapping_keys(st):
        """column names that key a per-column mapping argument of step `st` (astype / fillna / round / replace /
        isin with a dict, rename(columns=dict)), else None"""
        op = st.get("op")
        if op == "astype" and isinstance(st.get("spec"), dict):
            return list(st["spec"])
        if op == "fillna" and isinstance(st.get("value"), dict):
            return list(st["value"])
        if op == "round" and isinstance(st.get("decimals"), dict):
            return list(st["decimals"])
        if op == "isin" and "values_dict" in st:
            return list(st["values_dict"])
        if op == "replace" and isinstance(st.get("to"), dict):
            return list(st["to"].get("nested") or st["to"].get("percol") or {})
        if op == "rename" and "columns" in st:
            return list(st["columns"].values())
        return None

    def s_x_after_mapping(self):
        """after a step whose argument is a mapping keyed by column names: select ONE column whose name contains such a
        key (or is contained in one) - "a" / "ab" / "abc" from the name pool"""
        keys = self.mapping_keys(self.steps[-1])
        if not keys:
            return None
        cands = [c for c in self.cols if self.cols[c] != "obj" and
                 any(k != c and (str(k) in c or c in str(k)) for k in keys)]
        if not cands:
            return None
        c = self.pick(cands)
        self.feat("names:column-related-to-mapping-key-selected")
        if self.r.random() < 0.7:
            return self._commit_series({"op": "getcol", "col": c, "attr": False}, "project:single", self.cols[c],
                                       c if c in self.prist else None, c)
        return self._commit({"op": "project", "cols": [c]}, {c: self.cols[c]}, "project:list")

    def s_x_series_kw(self):
        """a new column from one of the series-level keyword variants (round / replace / fillna(series) / clip with
        series bounds or axis / arithmetic method with fill_value / apply with args and kwargs / str keyword arguments)"""
        r = self.r
        now = len(self.schemas) - 1
        got = None
        w = r.random()
        if w < 0.1:
            if any(self.orig.get(c, c) == "k" and c in self.prist for c in self.by_kind(self.cols, "cat")):
                for _ in range(6):
                    g3 = self.x_any(self.cols, None, "cat")
                    if g3 is not None and g3[2] == "cat":
                        got = g3[0], g3[1]
                        break
        elif w < 0.42:
            cs = self.by_kind(self.cols, "str")
            if cs:
                x = ["col", self.pick(cs)]
                if r.random() < 0.6:
                    got = self.x_string(self.cols, 0, None, x)
                else:
                    src = self._missing_src(self.cols, None, kinds=("str",))
                    self.feat("str:kwargs")
                    self.feat("str:na=")
                    meth = self.pick(["contains", "startswith", "endswith"])
                    got = ["str", meth, src[0], [self.pick(["x", "y", "w"])], {"na": bool(r.getrandbits(1))}], "bool"
        else:
            sub = lambda: self.num(self.cols, 1)  # noqa: E731
            for _ in range(4):
                got = self.x_num(self.cols, 1, None, sub)
                if got is not None:
                    break
        if got is None:
            return None
        e, kind = got
        name = self.fresh() if r.random() < 0.7 else self.pick(list(self.cols))
        mode = self.pick(["lambda", "series"])
        cols = dict(self.cols)
        cols[name] = kind
        self.prist.discard(name)
        return self._commit({"op": "assign", "items": [[name, e, mode, now]]}, cols, "assign:kw-variant:" + mode)

    def s_x_frame_map(self):
        """DataFrame.map(func, na_action=...) on a typed sub-frame that holds missing values"""
        r = self.r
        miss = self.by_kind(self.cols, "float")
        if not miss:
            return None
        fn = self.pick(["f_fmt", "f_fmt", "f_slen", "f_inc"])
        extra_kinds = ("int", "float", "bool", "str") if fn == "f_fmt" else ("int", "float")
        sel = [self.pick(miss)]
        extra = [c for c in self.by_kind(self.cols, *extra_kinds) if c not in sel]
        sel += r.sample(extra, r.randint(0, min(2, len(extra))))
        r.shuffle(sel)
        na = self.pick([None, "ignore", "ignore"])
        if fn == "f_fmt":
            out = {c: "mstr" for c in sel}
            meta = {c: "str" for c in sel}
        elif fn == "f_slen":
            out = {c: "float" for c in sel}
            meta = {c: "float64" for c in sel}
        else:
            out = {c: self.cols[c] for c in sel}
            meta = {c: DTYPE_OF[self.cols[c]] for c in sel}
        self._narrow(sel)
        self.uses_meta = True
        self.prist = set()
        self.feat("frame-map:na_action=ignore" if na == "ignore" else "frame-map:on-missing-values")
        if na == "ignore" and fn != "f_inc":
            self.feat("frame-map:na_action=ignore:nan-to-value-function")
        st = {"op": "frame_map", "func": fn, "na_action": na, "meta": meta, "meta_form": self.pick(["dict", "frame"])}
        return self._commit(st, out, "map-frame:%s" % ("na_action=ignore" if na else "na_action=None"))

    def s_x_round(self):
        r = self.r
        sel = self.numcols()
        if not sel or not any(self.cols[c] == "float" for c in sel):
            return None
        out = {c: self.cols[c] for c in sel}
        if r.random() < 0.5:
            dec = self.pick([0, 1, 1, -1])
            form = "int"
        else:
            dec = {c: self.pick([0, 1, -1]) for c in r.sample(sel, r.randint(1, len(sel)))}
            form = "dict"
        self._narrow(sel)
        self.feat("round:frame")
        return self._commit({"op": "round", "decimals": dec}, out, "round:frame:" + form)

    def s_x_replace(self):
        r = self.r
        if r.random() < 0.25:
            strs = self.by_kind(self.cols, "str")
            if not strs:
                return None
            sel = r.sample(strs, r.randint(1, min(2, len(strs))))
            out = {c: "str" for c in sel}
            self._narrow(sel)
            for c in sel:
                self.prist.discard(c)
            self.feat("replace:frame")
            if r.random() < 0.5:
                st = {"op": "replace", "to": self.pick(["x", "y", "xy"]), "value": "R", "regex": False}
                return self._commit(st, out, "replace:frame:str")
            st = {"op": "replace", "to": self.pick(["^x", "y$", "[xw]"]), "value": "R", "regex": True}
            return self._commit(st, out, "replace:frame:regex")
        sel = self.numcols()
        if not sel:
            return None
        out = {c: self.cols[c] for c in sel}
        keys, vals = [0, 1, 2, 3, -1], [100, -7, 50]
        form = self.pick(["scalar", "list", "nested", "dict-value"])
        if form == "scalar":
            st = {"op": "replace", "to": self.pick(keys), "value": self.pick(vals), "regex": False}
        elif form == "list":
            st = {"op": "replace", "to": r.sample(keys, 2), "value": self.pick(vals), "regex": False}
        elif form == "nested":
            sub = r.sample(sel, r.randint(1, len(sel)))
            st = {"op": "replace", "to": {"nested": {c: [[self.pick(keys), self.pick(vals)]] for c in sub}}, "regex": False}
        else:
            sub = r.sample(sel, r.randint(1, len(sel)))
            st = {"op": "replace", "to": {"percol": {c: self.pick(keys) for c in sub}}, "value": self.pick(vals), "regex": False}
        self._narrow(sel)
        for c in sel:
            self.prist.discard(c)
        self.feat("replace:frame")
        return self._commit(st, out, "replace:frame:" + form)

    def s_x_abs(self):
        sel = self.numcols()
        if not sel:
            return None
        out = {c: self.cols[c] for c in sel}
        self._narrow(sel)
        for c in sel:
            self.prist.discard(c)
        self.feat("abs:frame")
        return self._commit({"op": "abs"}, out, "abs:frame")

    def s_x_fillna(self):
        r = self.r
        sel = self.numcols(kinds=("int", "float"))
        if not sel or not any(self.cols[c] == "float" for c in sel):
            return None
        out = {c: self.cols[c] for c in sel}
        if r.random() < 0.55 or len(sel) < 2:
            self._narrow(sel)
            self.feat("fillna:axis")
            st = {"op": "fillna", "value": r.choice([0, 7, -1.5]), "axis": self.pick([1, "columns", "index", 0])}
            return self._commit(st, out, "fillna:axis")
        # value = a frame: every column is filled from another column of the same frame
        perm = list(sel)
        while perm == list(sel):
            r.shuffle(perm)
        self._narrow(sel)
        self.feat("fillna:frame-value")
        return self._commit({"op": "fillna", "value_from": dict(zip(sel, perm))}, out, "fillna:frame-value")

    def s_x_clip(self):
        r = self.r
        w = r.random()
        now = len(self.schemas) - 1
        if w < 0.4:     # scalar bounds with axis=
            sel = self.numcols(kinds=("int", "float"))
            if not sel:
                return None
            lo, hi = sorted([r.choice([-2, -1, 0]), r.choice([1, 2, 3])])
            v = r.random()
            lo_, hi_ = (lo, hi) if v < 0.5 else ((lo, None) if v < 0.75 else (None, hi))
            out = {c: self.cols[c] for c in sel}
            self._narrow(sel)
            self.feat("clip:axis")
            st = {"op": "clip", "lower": lo_, "upper": hi_, "axis": self.pick([0, 1, "index", "columns"])}
            return self._commit(st, out, "clip:frame:axis")
        if w < 0.7:     # one bound per column (list), axis=1; float columns only (an integer column of another width,
            # e.g. the int32 of a .dt field, is upcast by pandas depending on the values: empty pieces keep the dtype)
            sel = self.numcols(kinds=("float",))
            if not sel:
                return None
            out = {c: self.cols[c] for c in sel}
            self._narrow(sel)
            self.feat("clip:list-bounds-axis1")
            which = self.pick(["lower", "upper"])
            st = {"op": "clip", "lower": None, "upper": None, "axis": self.pick([1, "columns"])}
            st[which] = [r.choice([-1, 0, 1, 2]) for _ in sel]
            return self._commit(st, out, "clip:frame:list-bounds")
        fl = self.by_kind(self.cols, "float")
        if not fl:
            return None
        sel = r.sample(fl, r.randint(1, min(2, len(fl))))
        nums = self.by_kind(self.cols, "int", "float")
        b = ["col", self.pick(nums)]
        v = r.random()
        st = {"op": "clip", "lower": None, "upper": None, "axis": self.pick([0, "index"]), "at": now}
        if v < 0.4:
            st["lower_expr"] = b
        elif v < 0.7:
            st["upper_expr"] = b
        else:
            st["lower_expr"] = ["bin", "-", b, ["lit", 1]]
            st["upper_expr"] = ["bin", "+", b, ["lit", 1]]
        out = {c: "float" for c in sel}
        self._narrow(sel)
        self.feat("clip:series-bounds")
        return self._commit(st, out, "clip:frame:series-bounds")

    def s_x_rename(self):
        how = self.pick(["upper", "suffix", "title"])
        fn = _RENAMERS[how]
        new = [fn(c) for c in self.cols]
        if len(set(new)) != len(new) or new == list(self.cols):
            return None
        cols = {fn(c): k for c, k in self.cols.items()}
        self.prist = {c for c in self.prist if fn(c) == c}
        self.feat("rename:callable")
        return self._commit({"op": "rename", "callable": how}, cols, "rename:callable")

    def s_x_loc(self):
        r = self.r
        names = list(self.cols)
        if len(names) < 2:
            return None
        now = len(self.schemas) - 1
        w = r.random()
        self.feat("loc:columns")
        if w < 0.3:
            sel = r.sample(names, r.randint(1, min(len(names), 4)))
            return self._commit({"op": "locsel", "cols": sel}, {c: self.cols[c] for c in sel}, "loc:cols")
        if w < 0.45:
            c = self.pick(names)
            if self.cols[c] == "obj":
                return None
            return self._commit_series({"op": "locsel", "cols": c}, "loc:col", self.cols[c], c if c in self.prist else None, c)
        if w < 0.6:
            if len(set(names)) != len(names):
                return None
            i, j = sorted(r.sample(range(len(names)), 2))
            sel = names[i:j + 1]
            return self._commit({"op": "locsel", "slice": [names[i], names[j]]}, {c: self.cols[c] for c in sel}, "loc:col-slice")
        pred, _ = self.boolean(self.cols)
        if w < 0.85:
            sel = r.sample(names, r.randint(1, min(len(names), 4)))
            return self._commit({"op": "locsel", "pred": pred, "at": now, "cols": sel}, {c: self.cols[c] for c in sel},
                                "loc:mask+cols", filt=True)
        c = self.pick(names)
        if self.cols[c] == "obj":
            return None
        return self._commit_series({"op": "locsel", "pred": pred, "at": now, "cols": c}, "loc:mask+col", self.cols[c],
                                   c if c in self.prist else None, c, filt=True)

    def s_x_arith(self):
        r = self.r
        sel = self.numcols()
        if not sel:
            return None
        op = self.pick(["+", "-", "*", "/", "//", "%"])
        cols = {c: self.cols[c] for c in sel}
        now = len(self.schemas) - 1
        w = r.random()
        if w < 0.3:      # scalar with fill_value=
            if not any(k == "float" for k in cols.values()):
                return None
            v = r.choice([1, 2, 3, 0.5, -2])
            fv = r.choice([1, 2, 2.5])
            kv, kf = ("int" if isinstance(v, int) else "float"), ("int" if isinstance(fv, int) else "float")
            out = {c: (self._numkind(op, self._numkind(op, k, kv), kf) if k == "float" else self._numkind(op, k, kv))
                   for c, k in cols.items()}
            st = {"op": "frame_arith", "binop": op, "rhs": {"kind": "scalar", "v": v}, "fill_value": fv,
                  "style": self.pick(["method", "rmethod"])}
            self._narrow(sel)
            self.feat("arith:frame-scalar-fill_value")
            return self._commit(st, out, "frame-arith:scalar:fill_value")
        if w < 0.55:     # frame (same rows, some of the columns) with fill_value=
            sel2 = r.sample(sel, r.randint(1, len(sel)))
            r.shuffle(sel2)
            if not any(cols[c] == "float" for c in sel) and set(sel2) == set(sel):
                return None
            out = {}
            for c in sorted(sel) if set(sel2) != set(sel) else sel:
                out[c] = self._numkind(op, cols[c], cols[c]) if c in sel2 and cols[c] != "float" else "float"
            st = {"op": "frame_arith", "binop": op, "rhs": {"kind": "frame", "cols": sel2}, "fill_value": r.choice([1, 2]),
                  "style": "method"}
            self._narrow(sel)
            self.feat("arith:frame-frame-fill_value")
            return self._commit(st, out, "frame-arith:frame:fill_value")
        if w < 0.8:      # one scalar per column: pandas Series / list with axis=1 | "columns"
            if op in ("/", "//", "%"):
                vals = [r.choice([1, 2, 4, 0.5]) for _ in sel]
            else:
                vals = [r.choice([0, 1, 2, 3, 0.5, -1]) for _ in sel]
            ax = self.pick([1, "columns"])
            if r.random() < 0.6:
                data = [[c, v] for c, v in zip(sel, vals)]
                v = r.random()
                if v < 0.3:
                    r.shuffle(data)
                elif v < 0.5:
                    data.append(["qq", 2])
                elif v < 0.65 and len(data) > 1:
                    data.pop()
                rhs = {"kind": "pdseries", "data": data}
                keys = [c for c, _ in data]
                names = sel if keys == list(sel) else sorted(set(sel) | set(keys))
                out = {}
                for c in names:
                    if c in cols and c in keys:
                        lit = dict(data)[c]
                        out[c] = self._numkind(op, cols[c], "int" if isinstance(lit, int) else "float")
                    else:
                        out[c] = "float"
            else:
                rhs = {"kind": "list", "v": vals}
                out = {c: self._numkind(op, cols[c], "int" if isinstance(v, int) else "float") for c, v in zip(sel, vals)}
            st = {"op": "frame_arith", "binop": op, "rhs": rhs, "axis": ax, "style": "method"}
            self._narrow(sel)
            self.feat("arith:frame-axis-columns")
            return self._commit(st, out, "frame-arith:%s:axis-columns" % rhs["kind"])
        e, k = self.num(self.cols, 1)
        out = {c: self._numkind(op, kk, k) for c, kk in cols.items()}
        st = {"op": "frame_arith", "binop": op, "rhs": {"kind": "series", "expr": e, "at": now}, "axis": "index",
              "style": "method"}
        self._narrow(sel)
        self.feat("arith:frame-axis-index")
        return self._commit(st, out, "frame-arith:series:axis-index")

    def s_x_cmp(self):
        r = self.r
        sel = self.numcols()
        if not sel:
            return None
        op = self.pick(list(_CMP))
        now = len(self.schemas) - 1
        if r.random() < 0.5:
            e, k = self.num(self.cols, 1)
            rhs, ax = {"kind": "series", "expr": e, "at": now}, "index"
        else:
            rhs, ax = {"kind": "list", "v": [r.choice([0, 1, 2, -1, 0.5]) for _ in sel]}, self.pick([1, "columns"])
        self._narrow(sel)
        self.feat("cmp:frame-axis")
        st = {"op": "frame_cmp", "cmpop": op, "rhs": rhs, "axis": ax, "style": "method"}
        return self._commit(st, {c: "bool" for c in sel}, "frame-cmp:%s:axis-%s" % (rhs["kind"], "index" if ax == "index" else "columns"))

    def s_x_isin(self):
        r = self.r
        names = [c for c in self.cols if self.cols[c] in ("int", "float", "str")]
        if not names:
            return None
        sel = r.sample(names, r.randint(1, min(3, len(names))))
        vd = {}
        for c in r.sample(sel, r.randint(1, len(sel))):
            pool = ["x", "y", "xy", "w"] if self.cols[c] == "str" else [0, 1, 2, 3, -1.0, 2.0]
            vd[c] = r.sample(pool, r.randint(1, 3))
        if r.random() < 0.3:
            vd["zz_absent"] = [1]
        self._narrow(sel)
        self.feat("isin:dict")
        return self._commit({"op": "isin", "values_dict": vd}, {c: "bool" for c in sel}, "isin:frame:dict")

    def s_x_apply_rows(self):
        r = self.r
        nums = self.by_kind(self.cols, "int", "float")
        if len(nums) < 2:
            return None
        x, y = r.sample(nums, 2)
        out = self._numkind("+", self.cols[x], self.cols[y])
        if out == "int" and all(k in ("int", "float", "bool") for k in self.cols.values()) and "float" in self.cols.values():
            out = "float"
        self.uses_meta = True
        self.feat("apply:axis1-kwargs")
        st = {"op": "apply_rows", "func": "r_addk", "args": [x, y], "kwargs": {"k": r.choice([1, 2, 10])}, "meta": DTYPE_OF[out]}
        return self._commit_series(st, "apply:axis1", out)

    # ---- series-level steps
    def op_series(self):
        r = self.r
        w = r.random()
        leaf = (["self"], self.skind)
        if self.skind == "obj":
            return self._commit_series({"op": "series", "expr": ["rename", ["self"], "renamed"]}, "rename:series", "obj")
        if w < 0.15:
            pred, _ = self.boolean({}, 0, leaf)
            return self._commit_series({"op": "sfilter", "pred": pred}, "filter:series", self.skind, self.sprist, filt=True)
        if w < 0.25:
            st = {"op": "series", "expr": ["rename", ["self"], self.pick(["renamed", "a", "z z"])]}
            return self._commit_series(st, "rename:series", self.skind, self.sprist)
        if w < 0.33 and self.skind == "str":
            # split(expand=True) needs rows with exactly n separators: build them with cat(sep)
            sep = self.pick(["-", "_"])
            n = r.randint(1, 2)
            e = ["self"]
            for _ in range(n):
                e = ["strcat", e, ["self"], sep]
            self.state = "frame"
            self.final_only = True      # columns are the integers 0..n: not addressed by later steps
            return self._commit({"op": "series", "expr": ["str", "split", e, [sep], {"n": n, "expand": True}]},
                                {}, "str:split-expand")
        e, k, kl = self.any_expr({}, leaf)
        return self._commit_series({"op": "series", "expr": e}, "series:" + kl, k)


def gen_pipeline(rng, ncols_info=None, nops=None, allow_other=True):
    """-> JSON description {"steps": [...], "classes": [class of each step], "uses_meta": bool,
    "uses_other": bool (apply() needs other=), "final": "frame"|"series"}; 2-5 operations (an operation on a typed
    sub-frame is emitted as an explicit projection step plus the operation)."""
    info = _norm_info(ncols_info)
    if not allow_other:
        info["other"] = None
    g = _G(rng, info)
    n = nops or rng.choice((2, 2, 3, 3, 4, 5))
    for _ in range(n):
        if g.final_only:
            break
        if g.state == "frame":
            g.op_frame()
        else:
            g.op_series()
    fk = dict(g.cols) if g.state == "frame" else {"": g.skind}
    out = {"steps": g.steps, "classes": g.classes, "uses_meta": g.uses_meta, "uses_other": g.uses_other,
           "final": g.state, "final_kinds": fk, "nops": n}
    if g.ext:
        out["features"] = sorted(g.features)
        out["unordered"] = bool(g.unordered)
    return out


# --------------------------------------------------------------------------- evaluation
class _Env:
    __slots__ = ("is_dask", "other", "self_", "full_meta")

    def __init__(self, is_dask, other, full_meta=False):
        self.is_dask = is_dask
        self.other = other
        self.self_ = None
        self.full_meta = full_meta


def _meta_kw(env, x, dtype, name=False):
    """meta= for user functions: the documented (name, dtype) tuple, or - full_meta - an empty pandas Series that also
    carries the index of the input (a tuple cannot say anything about the index)."""
    if not env.is_dask:
        return {}
    nm = x.name if name is False else name
    if env.full_meta:
        return {"meta": pd.Series([], dtype=dtype, name=nm, index=x._meta.index[:0])}
    return {"meta": (nm, dtype)}


def _user_dtype(env, x, how, declared):
    """dtype a user would declare: dtype-preserving functions (f_inc, f_sq) keep the dtype the lazy collection reports
    (the generator's static guess can be off after value-dependent upcasts such as where() on ints)"""
    if env.is_dask and how.get("func") in ("f_inc", "f_sq", "f_addk") and str(x.dtype) in ("int64", "float64"):
        return str(x.dtype)
    return declared


def _row_dtype(env, cur, st):
    """dtype a user would declare for r_add: rows of an all-numeric frame are upcast to the common dtype, otherwise
    the two cells are added as Python scalars (decided from the dtypes the lazy collection reports)"""
    if not env.is_dask or st["func"] not in ("r_add", "r_addk"):
        return st["meta"]
    try:
        dts = cur.dtypes
        if all(getattr(d, "kind", "O") in "iufb" for d in dts):
            return str(np.result_type(*list(dts)))
        x, y = (dts[c] for c in st["args"])
        if all(getattr(d, "kind", "O") in "iufb" for d in (x, y)):
            return str(np.result_type(x, y))
    except Exception:  # noqa: BLE001
        pass
    return st["meta"]


def _nan_key(k):
    """None stands for the NaN key / value in JSON descriptions"""
    return np.nan if k is None else k


def ev(e, df, env):
    """Evaluate an expression against frame `df` (dask or pandas); env.self_ is the series of ["self"]."""
    t = e[0]
    if t == "col":
        return df[e[1]]
    if t == "self":
        return env.self_
    if t == "lit":
        return e[1]
    if t == "ts":
        return pd.Timestamp(e[1])
    if t == "td":
        return pd.Timedelta(e[1])
    if t == "none":
        return np.nan
    if t == "bin":
        return _BIN[e[1]](ev(e[2], df, env), ev(e[3], df, env))
    if t == "cmp":
        return _CMP[e[1]](ev(e[2], df, env), ev(e[3], df, env))
    if t == "meth":
        return getattr(ev(e[2], df, env), e[1])(ev(e[3], df, env), **e[4])
    if t == "un":
        x = ev(e[2], df, env)
        if e[1] == "neg":
            return -x
        if e[1] == "abs":
            return abs(x)
        if e[1] == "inv":
            return ~x
        if e[1] == "isna":
            return x.isna()
        return x.notnull() if e[1] == "notna" else None
    if t == "astype":
        return ev(e[1], df, env).astype(e[2])
    if t == "fillna":
        return ev(e[1], df, env).fillna(ev(e[2], df, env))
    if t == "isin":
        vals = list(e[2])
        form = e[3] if len(e) > 3 else "list"
        if form == "set":
            vals = set(vals)
        elif form == "ndarray":
            vals = np.array(vals)
        elif form == "series":
            vals = pd.Series(vals)
        return ev(e[1], df, env).isin(vals)
    if t == "clip":
        kw = {}
        if e[2] is not None:
            kw["lower"] = ev(e[2], df, env) if isinstance(e[2], list) else e[2]
        if e[3] is not None:
            kw["upper"] = ev(e[3], df, env) if isinstance(e[3], list) else e[3]
        if len(e) > 4 and e[4] is not None:
            kw["axis"] = e[4]
        return ev(e[1], df, env).clip(**kw)
    if t == "between":
        lo = ev(e[2], df, env) if isinstance(e[2], list) else e[2]
        hi = ev(e[3], df, env) if isinstance(e[3], list) else e[3]
        return ev(e[1], df, env).between(lo, hi, inclusive=e[4])
    if t == "round":
        return ev(e[1], df, env).round(e[2])
    if t == "replace":
        x = ev(e[1], df, env)
        to = e[2]
        if isinstance(to, dict):
            return x.replace({_nan_key(k): v for k, v in to["dict"]}, regex=e[4])
        to = [_nan_key(k) for k in to] if isinstance(to, list) else _nan_key(to)
        return x.replace(to, e[3], regex=e[4])
    if t in ("where", "mask"):
        x = ev(e[1], df, env)
        c = ev(e[2], df, env)
        if e[3][0] == "none":
            return getattr(x, t)(c)
        return getattr(x, t)(c, ev(e[3], df, env))
    if t == "map":
        x = ev(e[1], df, env)
        how = e[2]
        if "dict" in how:
            arg = dict((_nan_key(k), v) for k, v in how["dict"])
        elif "series" in how:
            arg = pd.Series([v for _, v in how["series"]], index=[_nan_key(k) for k, _ in how["series"]])
            if env.is_dask and how.get("dask"):
                import dask.dataframe as dd

                arg = dd.from_pandas(arg, npartitions=1)      # a one-partition dask Series is broadcast to every partition
        else:
            arg = FUNCS[how["func"]]
        kw = _meta_kw(env, x, _user_dtype(env, x, e[2], e[3]))
        if len(e) > 4:
            kw["na_action"] = e[4]
        return x.map(arg, **kw)
    if t == "apply":
        x = ev(e[1], df, env)
        kw = _meta_kw(env, x, _user_dtype(env, x, e[2], e[3]))
        if len(e) > 4:
            kw["args"] = tuple(e[4])
            kw.update(e[5])
        return x.apply(FUNCS[e[2]["func"]], **kw)
    if t == "str":
        x = ev(e[2], df, env)
        return getattr(x.str, e[1])(*e[3], **e[4])
    if t == "strcat":
        x = ev(e[1], df, env)
        if len(e) > 4:
            return x.str.cat(ev(e[2], df, env), sep=e[3], na_rep=e[4])
        return x.str.cat(ev(e[2], df, env), sep=e[3])
    if t == "dt":
        return getattr(ev(e[2], df, env).dt, e[1])
    if t == "dtm":
        return getattr(ev(e[2], df, env).dt, e[1])(*e[3])
    if t == "cat":
        return getattr(ev(e[2], df, env).cat, e[1])
    if t == "catm":
        x = ev(e[2], df, env)
        if e[1] in ("as_known", "as_unknown"):
            if env.is_dask:
                return getattr(x.cat, e[1])()
            x.cat       # pandas has no such method: identity, but only for categorical data
            return x
        return getattr(x.cat, e[1])(*e[3], **(e[4] if len(e) > 4 else {}))
    if t == "rename":
        return ev(e[1], df, env).rename(e[2])
    raise ValueError("unknown expression node %r" % (t,))


_ANAMES = {"+": "add", "-": "sub", "*": "mul", "/": "truediv", "//": "floordiv", "%": "mod", "**": "pow"}
_CNAMES = {"<": "lt", "<=": "le", ">": "gt", ">=": "ge", "==": "eq", "!=": "ne"}


def apply(description, frame, is_dask, other=None, upto=None, full_meta=False):
    """Run the steps of `description` on `frame` (dask collection when is_dask else pandas).  `other` is the second
    frame needed when description["uses_other"]; `upto` limits the run to the first `upto` steps; `full_meta` passes
    complete pandas objects (with index) as meta= of user functions instead of (name, dtype) tuples."""
    env = _Env(is_dask, other, full_meta)
    states = [frame]
    cur = frame
    steps = description["steps"] if upto is None else description["steps"][:upto]
    for st in steps:
        op = st["op"]
        if op == "project":
            cur = cur[list(st["cols"])]
        elif op == "getcol":
            cur = getattr(cur, st["col"]) if st.get("attr") else cur[st["col"]]
        elif op == "filter":
            mask = ev(st["pred"], states[st["at"]], env)
            cur = cur[mask] if st["how"] == "getitem" else cur.loc[mask]
        elif op == "assign":
            kw = {}
            for name, e, mode, at in st["items"]:
                if mode == "scalar":
                    kw[name] = e[1]
                elif mode == "lambda":
                    kw[name] = (lambda ee: (lambda d: ev(ee, d, env)))(e)
                else:
                    kw[name] = ev(e, states[at], env)
            cur = cur.assign(**kw)
        elif op in ("frame_arith", "frame_cmp"):
            table, names, o = (_BIN, _ANAMES, st["binop"]) if op == "frame_arith" else (_CMP, _CNAMES, st["cmpop"])
            rhs = st["rhs"]
            kw = {"fill_value": st["fill_value"]} if st.get("fill_value") is not None else {}
            if rhs["kind"] == "series":
                cur = getattr(cur, names[o])(ev(rhs["expr"], states[rhs["at"]], env), axis=st.get("axis", 0))
            elif rhs["kind"] in ("pdseries", "list"):
                y = pd.Series(dict((c, v) for c, v in rhs["data"])) if rhs["kind"] == "pdseries" else list(rhs["v"])
                cur = getattr(cur, names[o])(y, axis=st["axis"])
            elif kw:
                y = rhs["v"] if rhs["kind"] == "scalar" else cur[list(rhs["cols"])]
                cur = getattr(cur, ("r" + names[o]) if st["style"] == "rmethod" else names[o])(y, **kw)
            else:
                y = rhs["v"] if rhs["kind"] == "scalar" else cur[list(rhs["cols"])]
                style = st["style"]
                if style == "operator":
                    cur = table[o](cur, y)
                elif style == "reversed":
                    cur = table[o](y, cur)
                else:
                    cur = getattr(cur, ("r" + names[o]) if style == "rmethod" else names[o])(y)
        elif op == "astype":
            cur = cur.astype(st["spec"])
        elif op == "fillna":
            if "value_from" in st:      # value = a frame: column c is filled from column value_from[c] of the same frame
                src = st["value_from"]
                val = cur[[src[c] for c in cur.columns]].rename(columns={v: k for k, v in src.items()})
                cur = cur.fillna(val)
            elif "axis" in st:
                cur = cur.fillna(st["value"], axis=st["axis"])
            else:
                cur = cur.fillna(st["value"])
        elif op == "where":
            c = st["cond"]
            cond = _CMP[c["op"]](cur, c["v"])
            o = st["other"]
            args = () if o["kind"] == "none" else ((o["v"],) if o["kind"] == "scalar" else (cur * o["v"],))
            cur = getattr(cur, st["which"])(cond, *args)
        elif op == "isin":
            cur = cur.isin({c: list(v) for c, v in st["values_dict"].items()} if "values_dict" in st else list(st["values"]))
        elif op == "clip":
            kw = {}
            if st["lower"] is not None:
                kw["lower"] = st["lower"]
            if st["upper"] is not None:
                kw["upper"] = st["upper"]
            if st.get("lower_expr") is not None:
                kw["lower"] = ev(st["lower_expr"], states[st["at"]], env)
            if st.get("upper_expr") is not None:
                kw["upper"] = ev(st["upper_expr"], states[st["at"]], env)
            if st.get("axis") is not None:
                kw["axis"] = st["axis"]
            cur = cur.clip(**kw)
        elif op == "apply_rows":
            cur = cur.apply(FUNCS[st["func"]], axis=1, args=tuple(st["args"]), **st.get("kwargs", {}),
                            **_meta_kw(env, cur, _row_dtype(env, cur, st), name=None))
        elif op == "rename":
            cur = cur.rename(columns=_RENAMERS[st["callable"]] if "callable" in st else dict(st["columns"]))
        elif op == "frame_map":
            kw = {}
            if is_dask:
                meta = {c: st["meta"][str(c)] for c in cur.columns}
                if st.get("meta_form") == "frame" or full_meta:
                    meta = pd.DataFrame({c: pd.Series([], dtype=dt) for c, dt in meta.items()}, index=cur._meta.index[:0])
                kw["meta"] = meta
            cur = cur.map(FUNCS[st["func"]], na_action=st["na_action"], **kw)
        elif op == "round":
            cur = cur.round(st["decimals"])
        elif op == "abs":
            cur = cur.abs()
        elif op == "replace":
            to = st["to"]
            if isinstance(to, dict) and "nested" in to:
                cur = cur.replace({c: {k: v for k, v in pairs} for c, pairs in to["nested"].items()})
            elif isinstance(to, dict):
                cur = cur.replace(dict(to["percol"]), st["value"])
            else:
                cur = cur.replace(to, st["value"], regex=st["regex"])
        elif op == "fseries":
            cur = ev(st["expr"], cur, env)
        elif op == "locsel":
            rows = ev(st["pred"], states[st["at"]], env) if "pred" in st else slice(None)
            cols = slice(st["slice"][0], st["slice"][1]) if "slice" in st else st["cols"]
            cur = cur.loc[rows, list(cols) if isinstance(cols, list) else cols]
        elif op == "series":
            env.self_ = cur
            cur = ev(st["expr"], None, env)
        elif op == "sfilter":
            env.self_ = cur
            cur = cur[ev(st["pred"], None, env)]
        elif op == "other":
            cur = _other_step(st, cur, env)
        else:
            raise ValueError("unknown step %r" % (op,))
        states.append(cur)
    return cur


def _other_step(st, cur, env):
    o = env.other
    if o is None:
        raise ValueError("pipeline needs a second frame (other=)")
    mode = st["mode"]
    if mode == "series_bin":
        x, y = cur[st["col"]], o[st["ocol"]]
        if st["swap"]:
            x, y = y, x
        kw = {"fill_value": st["fill_value"]} if st.get("fill_value") is not None else {}
        return _BIN[st["binop"]](x, y) if st["style"] == "operator" else getattr(x, _ANAMES[st["binop"]])(y, **kw)
    if mode == "frame_bin":
        y = o[list(st["ocols"])]
        kw = {"fill_value": st["fill_value"]} if st.get("fill_value") is not None else {}
        return _BIN[st["binop"]](cur, y) if st["style"] == "operator" else getattr(cur, _ANAMES[st["binop"]])(y, **kw)
    if mode == "assign":
        return cur.assign(**{st["name"]: o[st["ocol"]]})
    if mode == "mask":
        return cur[_CMP[st["cmpop"]](o[st["ocol"]], st["v"])]
    if mode == "where":
        return getattr(cur[st["col"]], st["which"])(ev(st["cond"], cur, env), o[st["ocol"]])
    raise ValueError(mode)


def describe(desc):
    """Compact human-readable rendering (for witnesses)."""
    return " | ".join(_short(s) for s in desc["steps"])


def _short(s):
    import json

    return json.dumps(s, default=str, separators=(",", ":"))[:400]
