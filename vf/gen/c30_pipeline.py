"""C30 helper: a tiny JSON language of array pipelines restricted to what the statement of C30 lists
(creation, elementwise, slicing, reductions, rechunk, concatenate/stack, map_blocks, transpose), a seeded
generator that tracks shapes, and ONE evaluator used for NumPy, for the expression engine and (in the helper
subprocess vf.props.c30_classic) for the classic engine.

A case is {"src": <source>, "steps": [<step>, ...], "exact": bool[, "config": {dask config key: value}]}: a spine of
operations applied to one array; a step may bring its own auxiliary sources (second operand of a binary operation,
other parts of a concatenate/stack).  Evaluating steps[:k] gives the k-th prefix, which the monitor uses to localise a
mismatch.  "config" (optional) is applied with dask.config.set around construction AND computation, identically for
both engines (array.rechunk.threshold, array.chunk-size, split_every).

Two generators:
* gen_case      random pipelines over every step kind; every keyword of the step kinds that the expression engine
                implements is given a non-default, result-relevant value in some cases (see KEYWORDS below);
* gen_rcplan_case  the rechunk-plan family: candidates (transposing long-thin -> thin-long chunkings, irregular
                chunkings, small block_size_limit, threshold 1..4 by keyword or by config) are run through the pure
                planner dask.array.rechunk.plan_rechunk and SELECTED by the shape of their plan: >= 2 passes, and
                preferably >= 2 passes that cut blocks (a pass cuts when some block boundary of its output is not a
                boundary of its input).  The rechunk is optionally preceded and followed by elementwise steps,
                reductions, slices, transposes or a rechunk back.

KEYWORDS (step kind: keyword -> how it is made non-default)
  from_array: lock=True, inline_array=True, fancy=False, asarray=True/False ("kw" of the source)
  arange: dtype; linspace: endpoint=False, dtype  (dtype keywords are passed as str and as numpy.dtype)
  elementwise: binary ufunc called as da.<ufunc>(a, b, dtype=...) ("call": dtype).  out= raises NotImplementedError in the
      engine and where= without out= leaves the unselected elements undefined in NumPy: neither is generated.
  slicing: Ellipsis (["e"]) besides slices, integers and None
  reductions: axis (int, negative, tuple, None), keepdims, split_every (int and {axis: k}), dtype (sum/prod/mean), and the
      config key split_every
  rechunk: chunks as tuple of tuples / int / dict (several axes, negative axes, None, -1, "auto") / -1 / "auto" / mixed
      per-axis entries (tuple, int, -1, None, "auto"); threshold; block_size_limit; balance; method="tasks"
  concatenate: axis (negative, None), allow_unknown_chunksizes=True, parts of another dtype, zero-length parts
  stack: axis (negative), allow_unknown_chunksizes=True, parts of another dtype
  map_blocks: dtype given / inferred (no dtype) / meta=, keyword and positional extra arguments (scalar, second array),
      drop_axis, new_axis, chunks (block shape changing function), block_info, enforce_ndim=True
  transpose: axes (permutation, negative, None)
"""
from __future__ import annotations

import contextlib
import operator

import numpy as np

from . import arrays as A

DT = ["int64", "int64", "float64", "float64", "float32", "int32", "bool"]
EW1 = ["neg", "abs", "square"]
EWK = ["add", "sub", "mul", "maximum", "minimum"]
EWCMP = ["lt", "ge", "eq"]
REDS = ["sum", "mean", "min", "max", "any", "all", "prod", "std", "var"]
MB = ["double", "plus1", "negate", "tofloat"]
MBKINDS = ["kw", "arg2", "drop", "newax", "chunks", "binfo", "endim"]
UF = {"add": "add", "sub": "subtract", "mul": "multiply", "maximum": "maximum", "minimum": "minimum"}
ALL_OPS = ("ew1", "ewk", "ew2", "ew2", "slice", "slice", "red", "red", "rechunk", "rechunk", "concat",
           "stack", "mb", "T", "transpose", "cmp")


# ---------------------------------------------------------------------------------------------
# generator

def _jl(chunks):
    return [list(c) for c in chunks]


class _S:
    """Generator state: what is known about the current array of the spine."""
    __slots__ = ("shape", "dtype", "exact", "isbool")

    def __init__(self, shape, dtype, exact):
        self.shape, self.dtype, self.exact, self.isbool = list(shape), dtype, exact, dtype == "bool"

    def set_dtype(self, dtype):
        self.dtype, self.isbool = dtype, dtype == "bool"


def gen_source(rng, shape=None, dtype=None, allow_creation=True):
    aux = shape is not None           # an auxiliary source (second operand, part of a concatenate/stack)
    if shape is None:
        shape = [rng.choice((1, 2, 3, 4, 5, 6)) for _ in range(rng.choice((1, 1, 2, 2, 2, 3)))]
    shape = list(shape)
    dtype = dtype or rng.choice(DT)
    kind = rng.choice(("from_array",) * 6 + ("ones", "zeros", "arange", "linspace")) if allow_creation else "from_array"
    chunks = _jl(A.rand_chunks(rng, shape))
    if kind in ("arange", "linspace") and len(shape) != 1:
        kind = "from_array"
    if kind == "from_array":
        s = {"k": kind, "shape": shape, "dtype": dtype, "seed": rng.randrange(2 ** 31), "chunks": chunks}
        if rng.random() < 0.12:
            s["kw"] = rng.choice(({"lock": True}, {"lock": True, "inline_array": True}, {"fancy": False, "lock": True},
                                  {"asarray": True}, {"asarray": False, "lock": True}, {"inline_array": True}))
        return s
    if kind in ("ones", "zeros"):
        return {"k": kind, "shape": shape, "dtype": dtype, "chunks": chunks}
    if kind == "arange":
        step = rng.choice((1, 1, 2, -1))
        start = rng.randint(-3, 3)
        stop = start + step * shape[0]
        s = {"k": kind, "start": start, "stop": stop, "step": step, "shape": shape, "dtype": "int64", "chunks": chunks}
        if rng.random() < 0.25:
            s["dtype"] = s["dt"] = rng.choice(("float64", "float32", "int32"))
            s["dtobj"] = aux or rng.random() < 0.5   # passed as numpy.dtype / as str (str only for the spine's source)
        return s
    start = rng.randint(-3, 3)
    s = {"k": "linspace", "start": start, "stop": start + rng.randint(1, 5), "num": shape[0], "shape": shape,
         "dtype": "float64", "chunks": chunks}
    if rng.random() < 0.3:
        s["endpoint"] = False
    if rng.random() < 0.15:
        s["dtype"] = s["dt"] = "float32"
        s["dtobj"] = aux or rng.random() < 0.5
    return s


def _rand_index(rng, shape):
    per_axis = []          # per axis: (index items, output lengths)
    for n in shape:
        items, outs = [], []
        r = rng.random()
        if r < 0.15:
            items.append(["n"])
            outs.append(1)
        r = rng.random()
        if r < 0.2 and n > 0:
            items.append(["i", rng.randrange(-n, n)])
        elif r < 0.45:
            items.append(["s", None, None, None])
            outs.append(n)
        else:
            step = rng.choice((None, 1, 1, 2, 3, -1, -2))
            # out-of-range bounds only with positive steps: with a negative step a start below -n is normalised wrongly
            # by dask.array.slicing.normalize_index, which both engines share (finding of C20, not of this property)
            lo, hi = (-n - 1, n + 1) if (step or 1) > 0 else (-n, max(n - 1, 0))
            start = rng.choice((None, rng.randint(lo, hi)))
            stop = rng.choice((None, rng.randint(lo, hi)))
            outs.append(len(range(*slice(start, stop, step).indices(n))))
            items.append(["s", start, stop, step])
        per_axis.append((items, outs))
    if rng.random() < 0.12 and shape:
        # an Ellipsis standing for a (possibly empty) run of axes taken whole
        i = rng.randint(0, len(shape))
        j = rng.randint(i, len(shape))
        per_axis[i:j] = [([["e"]], list(shape[i:j]))]
    idx = [it for items, _ in per_axis for it in items]
    out = [o for _, outs in per_axis for o in outs]
    if rng.random() < 0.1:
        idx.append(["n"])
        out.append(1)
    if rng.random() < 0.2:            # drop trailing full slices: x[1:3] on a 2-d array
        while idx and idx[-1] == ["s", None, None, None]:
            idx.pop()
    return idx, out


def _rand_rechunk_entry(rng, n):
    r = rng.random()
    if r < 0.35:
        return list(A.rand_comp(rng, n))
    if r < 0.55:
        return rng.randint(1, n)
    if r < 0.7:
        return -1
    if r < 0.9:
        return None
    return "auto"


def gen_step(rng, S, op):
    """One step of kind `op` applicable to the state S (mutated on success), or None."""
    shape, dtype = S.shape, S.dtype
    nd = len(shape)
    size = int(np.prod(shape)) if shape else 1
    if op == "ew1":
        if S.isbool:
            return None
        return {"op": "ew1", "f": rng.choice(EW1)}
    if op == "ewk":
        if S.isbool:
            return None
        return {"op": "ewk", "f": rng.choice(EWK), "k": rng.choice((2, -1, 3, 1)), "rev": rng.random() < 0.3}
    if op == "cmp":
        if not S.exact or S.isbool:
            return None
        st = {"op": "ewk", "f": rng.choice(EWCMP), "k": rng.choice((0, 1, 2)), "rev": False}
        S.set_dtype("bool")
        return st
    if op == "ew2":
        if S.isbool:
            return None
        s2 = list(shape)
        for a in range(len(s2)):
            if rng.random() < 0.3:
                s2[a] = 1
        s2 = s2[rng.randint(0, len(s2)):] if rng.random() < 0.4 else s2
        d2 = rng.choice(("int64", "float64", dtype))
        if d2 == "bool":
            d2 = "int64"
        o = gen_source(rng, s2, d2)
        call = rng.random() < 0.15          # the ufunc called with dtype=: da.add(a, b, dtype="float32")
        if rng.random() < 0.7 or call:
            # chunked like the current array on the axes it shares with it (the evaluator derives the chunks):
            # the pinned expression engine cannot unify differently chunked elementwise operands
            o["chunks"] = "match"
        if o["k"] == "linspace":
            S.exact = False
        st = {"op": "ew2", "f": rng.choice(EWK), "src": o, "rev": rng.random() < 0.3}
        if (o["dtype"].startswith("float") or o["k"] == "linspace") and not dtype.startswith("float"):
            S.set_dtype("float64")
        if call:
            st["call"] = rng.choice(("float64", "float32"))
            st["callobj"] = rng.random() < 0.5       # dtype passed as numpy.dtype / as str
            if st["call"] == "float32":
                S.exact = False
            S.set_dtype(st["call"])
        return st
    if op == "slice":
        if nd == 0:
            return None
        idx, out = _rand_index(rng, shape)
        if not idx or (0 in out and rng.random() < 0.7):
            return None
        S.shape = out
        return {"op": "slice", "idx": idx}
    if op == "red":
        if nd == 0 or size == 0:
            return None
        f = rng.choice(REDS)
        if f in ("std", "var") and rng.random() < 0.85:      # not implemented by the pinned expression engine
            f = rng.choice(("sum", "mean", "min", "max"))
        if f in ("any", "all") and not S.exact:
            return None
        if S.isbool and f in ("std", "var", "prod", "mean"):
            return None
        r = rng.random()
        if r < 0.25:
            axis = None
        elif r < 0.75:
            axis = rng.randrange(-nd, nd)
        else:
            axis = sorted(rng.sample(range(nd), rng.randint(1, nd)))
        keepdims = rng.random() < 0.4
        axes = list(range(nd)) if axis is None else ([axis % nd] if isinstance(axis, int) else axis)
        se = rng.choice((None, None, 2, 3))
        if rng.random() < 0.1:
            # dict form; axes left out of the dict get the engine's default of 2
            se = {str(a): rng.choice((2, 3, 4)) for a in axes if rng.random() < 0.7} or {str(axes[0]): 2}
        st = {"op": "red", "f": f, "axis": axis, "keepdims": keepdims, "split_every": se}
        S.shape = [1 if (i in axes) else n for i, n in enumerate(shape)] if keepdims else \
            [n for i, n in enumerate(shape) if i not in axes]
        if f in ("mean", "std", "var") or (f == "prod" and dtype.startswith("float")):
            S.exact = False
            S.set_dtype("float64" if not dtype.startswith("float") else dtype)
        if f in ("any", "all"):
            S.set_dtype("bool")
        elif S.isbool and f in ("sum",):
            S.set_dtype("int64")
        if f in ("sum", "prod", "mean") and rng.random() < 0.12:
            dt = rng.choice(("float64", "float32") if (f == "mean" or S.dtype.startswith("float")) else ("float64", "int32", "int64"))
            st["dtype"] = dt
            if dt == "float32" or (f == "prod" and dt.startswith("float")):
                S.exact = False
            S.set_dtype(dt)
        return st
    if op == "rechunk":
        if nd == 0 or size == 0:
            return None
        form = rng.choice(("tuple", "tuple", "tuple", "int", "dict", "dict", "minus1", "mixed", "mixed", "auto"))
        if form == "tuple":
            ch = _jl(A.rand_chunks(rng, shape))
        elif form == "int":
            ch = rng.randint(1, max(shape))
        elif form == "dict":
            ch = {}
            for a in rng.sample(range(nd), rng.randint(1, nd)):
                e = _rand_rechunk_entry(rng, shape[a])
                ch[str(a - nd if rng.random() < 0.3 else a)] = e
        elif form == "mixed":
            ch = [_rand_rechunk_entry(rng, n) for n in shape]
        elif form == "auto":
            ch = "auto"
        else:
            ch = -1
        st = {"op": "rechunk", "chunks": ch, "balance": rng.random() < 0.1}
        isz = np.dtype(S.dtype).itemsize
        if rng.random() < 0.15 or form == "auto":
            st["block_size_limit"] = isz * rng.randint(1, 12)
        if rng.random() < 0.15:
            st["threshold"] = rng.randint(1, 4)
        if rng.random() < 0.1:
            st["method"] = "tasks"
        return st
    if op in ("concat", "stack"):
        if nd == 0 and op == "concat":
            return None
        if size == 0:
            return None
        axis = rng.randrange(nd) if op == "concat" else rng.randrange(nd + 1)
        if rng.random() < 0.3:
            axis -= (nd if op == "concat" else nd + 1)
        flat = op == "concat" and rng.random() < 0.05          # concatenate(axis=None): every part flattened first
        others = []
        rdt = dtype
        for _ in range(rng.randint(1, 2)):
            if rng.random() < 0.3:
                others.append("self")
            else:
                s2 = list(shape)
                if op == "concat":
                    s2[axis] = rng.randint(1, 4) if rng.random() > 0.08 else 0
                d2 = dtype
                if dtype != "bool" and rng.random() < 0.2:
                    d2 = rng.choice(("int64", "float64", "float32", "int32"))
                others.append(gen_source(rng, s2, d2, allow_creation=len(s2) == 1 and rng.random() < 0.3))
                o = others[-1]
                if o["k"] == "linspace":
                    S.exact = False
                rdt = np.result_type(rdt, o["dtype"]).name
        pos = rng.randint(0, len(others))
        st = {"op": op, "axis": None if flat else axis, "others": others, "pos": pos}
        if rng.random() < 0.1:
            st["auc"] = True
        S.set_dtype(rdt)
        if flat:
            S.shape = [size + sum(size if o == "self" else int(np.prod(o["shape"])) for o in others)]
        elif op == "concat":
            a = axis % nd
            S.shape = list(shape)
            S.shape[a] = shape[a] + sum(shape[a] if o == "self" else o["shape"][a] for o in others)
        else:
            a = axis % (nd + 1)
            S.shape = shape[:a] + [len(others) + 1] + shape[a:]
        return st
    if op == "mb":
        if rng.random() < 0.45:
            kind = rng.choice(MBKINDS)
            if S.isbool or size == 0:
                return None
            st = {"op": "mb", "f": kind}
            if kind == "kw":
                st["k"] = rng.choice((2, 3, -1))
                st["how"] = rng.choice(("kw", "pos"))
            elif kind == "arg2":
                st["src"] = {"k": "from_array", "shape": list(shape), "dtype": dtype, "seed": rng.randrange(2 ** 31),
                             "chunks": "match"}
            elif kind == "drop":
                if nd < 2:
                    return None
                a = rng.randrange(nd)
                st["axis"] = a - nd if rng.random() < 0.3 else a
                S.shape = [n for i, n in enumerate(shape) if i != a]
                if not dtype.startswith("float"):
                    S.set_dtype("int64")
            elif kind == "newax":
                st["axis"] = rng.randint(0, nd)
                S.shape = shape[:st["axis"]] + [1] + shape[st["axis"]:]
            elif kind == "chunks":
                if nd < 1:
                    return None
                S.shape = shape[:-1] + [1]
                if not dtype.startswith("float"):
                    S.set_dtype("int64")
            elif kind == "binfo":
                if nd < 1:
                    return None
            st["dt"] = rng.choice(("dtype", "dtype", "infer", "meta"))
            return st
        f = rng.choice(MB)
        if S.isbool and f != "tofloat":
            return None
        st = {"op": "mb", "f": f}
        if rng.random() < 0.3:
            st["dt"] = rng.choice(("infer", "meta"))
        if f == "tofloat":
            S.set_dtype("float64")
        return st
    if op == "T":
        if nd < 2 and rng.random() < 0.7:
            return None
        S.shape = shape[::-1]
        return {"op": "T"}
    if op == "transpose":
        if nd < 2:
            return None
        if rng.random() < 0.15:
            S.shape = shape[::-1]
            return {"op": "transpose", "axes": None}
        axes = list(range(nd))
        rng.shuffle(axes)
        S.shape = [shape[a] for a in axes]
        if rng.random() < 0.3:
            axes = [a - nd for a in axes]
        return {"op": "transpose", "axes": axes}
    raise ValueError(op)


def gen_case(rng, maxsteps=5):
    src = gen_source(rng)
    S = _S(src["shape"], src["dtype"], src["k"] != "linspace")
    steps = []
    nsteps = rng.randint(1, maxsteps)
    tries = 0
    while len(steps) < nsteps and tries < 40:
        tries += 1
        st = gen_step(rng, S, rng.choice(ALL_OPS))
        if st is not None:
            steps.append(st)
    case = {"src": src, "steps": steps, "exact": S.exact}
    if rng.random() < 0.08:
        case["config"] = rng.choice(({"split_every": 2}, {"split_every": 3}, {"array.rechunk.threshold": 1},
                                     {"array.rechunk.threshold": 2}, {"array.chunk-size": "64B"}))
    return case


# ---------------------------------------------------------------------------------------------
# the rechunk-plan family

def _bounds(c):
    s, out = 0, set()
    for q in c:
        s += q
        out.add(s)
    return out


def cutting_passes(old, plan):
    """Per pass of a rechunk plan: does it cut blocks (some output boundary is not an input boundary)?"""
    res, cur = [], old
    for st in plan:
        res.append(any(not _bounds(n) <= _bounds(o) for o, n in zip(cur, st)))
        cur = st
    return res


def plan_info(old, new, itemsize, threshold=None, block_size_limit=None):
    """(number of passes, number of passes that cut blocks) of the plan the classic pure planner chooses."""
    from dask.array.rechunk import plan_rechunk

    old = tuple(tuple(int(q) for q in c) for c in old)
    new = tuple(tuple(int(q) for q in c) for c in new)
    plan = plan_rechunk(old, new, itemsize, threshold, block_size_limit)
    return len(plan), sum(cutting_passes(old, plan))


def _reg(n, k):
    k = max(1, min(n, k))
    return tuple([k] * (n // k) + ([n % k] if n % k else []))


def _near(rng, n, k):
    """Irregular chunking of n with block sizes around k."""
    out, r = [], n
    while r > 0:
        q = min(r, max(1, k + rng.choice((-1, 0, 0, 0, 1))))
        out.append(q)
        r -= q
    return tuple(out)


def _rc_candidate(rng, maxlen):
    """One candidate (shape, old chunks, new chunks, dtype, threshold, how, block_size_limit, how)."""
    nd = 3 if rng.random() < 0.2 else 2
    p, q = rng.sample(range(nd), 2)
    n, m = rng.randint(6, maxlen), rng.randint(6, maxlen)
    dtype = rng.choice(("float64", "float64", "int64", "float32", "int32", "bool"))
    isz = np.dtype(dtype).itemsize
    flavour = rng.choice(("transpose", "transpose", "transpose", "bsl", "irregular"))
    a, b = rng.randint(1, 3), rng.randint(1, 3)
    f = (lambda nn, kk: _near(rng, nn, kk)) if (flavour == "irregular" or rng.random() < 0.25) else _reg
    if flavour == "irregular":
        old_p, old_q = f(n, a), A.rand_comp(rng, m)
        new_p, new_q = A.rand_comp(rng, n), f(m, b)
    else:
        M = rng.choice((m, m, max(1, m - rng.randint(1, 4)), max(2, m // 2)))
        N = rng.choice((n, max(1, n - rng.randint(1, 4)), max(2, n // 2), rng.randint(2, n)))
        old_p, old_q = f(n, a), f(m, M)
        new_p, new_q = f(n, N), f(m, b)
    shape, old, new = [0] * nd, [None] * nd, [None] * nd
    shape[p], shape[q] = n, m
    old[p], old[q], new[p], new[q] = old_p, old_q, new_p, new_q
    if nd == 3:
        r = 3 - p - q
        shape[r] = rng.randint(1, 3)
        old[r] = rng.choice(((shape[r],), (1,) * shape[r]))
        new[r] = rng.choice((old[r], old[r], (shape[r],), (1,) * shape[r]))
    thr = rng.choice((None, None, 1, 2, 3, 4))
    thr_how = rng.choice(("kw", "kw", "config")) if thr else None
    bsl = None
    if flavour == "bsl" or rng.random() < 0.15:
        bsl = isz * rng.randint(4, 64)
    bsl_how = rng.choice(("kw", "kw", "kw", "config")) if bsl else None
    return shape, tuple(old), tuple(new), dtype, thr, thr_how, bsl, bsl_how


def gen_rcplan_case(rng, maxlen=24):
    """A case of the rechunk-plan family, selected by the planner: 60 % want >= 2 cutting passes, 30 % want >= 2 passes,
    10 % take the first candidate (one-pass plans with threshold / block_size_limit given)."""
    r = rng.random()
    want = 2 if r < 0.6 else (1 if r < 0.9 else 0)
    best = None
    for _ in range(120):
        cand = _rc_candidate(rng, maxlen)
        shape, old, new, dtype, thr, thr_how, bsl, bsl_how = cand
        npass, ncut = plan_info(old, new, np.dtype(dtype).itemsize, thr, bsl)
        score = 2 if (npass >= 2 and ncut >= 2) else (1 if npass >= 2 else 0)
        if best is None or score > best[0]:
            best = (score, cand, npass, ncut)
        if score >= want:
            best = (score, cand, npass, ncut)
            break
    _, (shape, old, new, dtype, thr, thr_how, bsl, bsl_how), npass, ncut = best
    config = {}
    rc = {"op": "rechunk", "chunks": _jl(new), "balance": False}
    if thr:
        if thr_how == "kw":
            rc["threshold"] = thr
        else:
            config["array.rechunk.threshold"] = thr
    if bsl:
        if bsl_how == "kw":
            rc["block_size_limit"] = bsl
        else:
            config["array.chunk-size"] = "%dB" % bsl
    if rng.random() < 0.1:
        rc["method"] = "tasks"
    src = {"k": "from_array", "shape": list(shape), "dtype": dtype, "seed": rng.randrange(2 ** 31), "chunks": _jl(old)}
    steps = []
    S = _S(shape, dtype, True)
    # 0-1 steps in front that keep shape and chunks (T: the source is laid out transposed)
    r = rng.random()
    if r < 0.15:
        src["shape"] = list(shape[::-1])
        src["chunks"] = _jl(old[::-1])
        steps.append({"op": "T"})
    elif r < 0.5:
        for _ in range(6):
            op = rng.choice(("ew1", "ewk", "ew2", "mb"))
            if op == "ewk" and S.dtype in ("int32", "float32"):
                continue        # known finding of the engine (python scalar with a sub-64-bit array): keep it out of this family
            if op == "mb":
                if S.isbool:
                    continue
                st = {"op": "mb", "f": rng.choice(("double", "plus1", "negate"))}
            elif op == "ew2":
                if S.isbool:
                    continue
                st = {"op": "ew2", "f": rng.choice(EWK), "rev": rng.random() < 0.3,
                      "src": {"k": "from_array", "shape": list(shape), "dtype": dtype, "seed": rng.randrange(2 ** 31),
                              "chunks": "match"}}
            else:
                st = gen_step(rng, S, op)
            if st is not None:
                steps.append(st)
                break
    steps.append(rc)
    # 0-2 steps behind
    for _ in range(rng.choice((0, 1, 1, 2, 2))):
        for _ in range(8):
            op = rng.choice(("ew1", "ewk", "ew2m", "red", "red", "slice", "T", "transpose", "back", "mb", "cmp"))
            if op == "ewk" and S.dtype in ("int32", "float32"):
                continue
            if op == "back":
                if list(S.shape) != list(shape):
                    continue
                st = {"op": "rechunk", "chunks": _jl(old), "balance": False}
                if thr and thr_how == "kw":
                    st["threshold"] = thr
            elif op == "ew2m":
                if S.isbool:
                    continue
                st = {"op": "ew2", "f": rng.choice(EWK), "rev": rng.random() < 0.3,
                      "src": {"k": "from_array", "shape": list(S.shape), "dtype": S.dtype, "seed": rng.randrange(2 ** 31),
                              "chunks": "match"}}
            elif op == "mb":
                if S.isbool:
                    continue
                st = {"op": "mb", "f": rng.choice(("double", "plus1", "negate"))}
            elif op == "red":
                if not S.shape:
                    continue
                f = rng.choice(("any", "all") if S.isbool else ("sum", "sum", "max", "min", "mean"))
                nd = len(S.shape)
                axis = rng.choice([None, 0, -1] + ([1, [0, 1]] if nd >= 2 else []) + ([[0, 2]] if nd >= 3 else []))
                keepdims = rng.random() < 0.3
                axes = list(range(nd)) if axis is None else ([axis % nd] if isinstance(axis, int) else axis)
                st = {"op": "red", "f": f, "axis": axis, "keepdims": keepdims, "split_every": rng.choice((None, None, 2, 4))}
                S.shape = [1 if i in axes else n for i, n in enumerate(S.shape)] if keepdims else \
                    [n for i, n in enumerate(S.shape) if i not in axes]
                if f == "mean":
                    S.exact = False
                    S.set_dtype(S.dtype if S.dtype.startswith("float") else "float64")
            else:
                st = gen_step(rng, S, op)
            if st is not None:
                steps.append(st)
                break
    case = {"family": "rcplan", "src": src, "steps": steps, "exact": S.exact}
    if config:
        case["config"] = config
    return case


# ---------------------------------------------------------------------------------------------
# evaluator (mod is numpy or a dask.array namespace)

def _double(x):
    return x * 2


def _plus1(x):
    return x + 1


def _negate(x):
    return -x


def _tofloat(x):
    return x.astype("float64") / 2


def _addk(x, k=0):
    return x + k


def _add2(x, y):
    return x + y


def _sum_axis(x, axis=0):
    return x.sum(axis=axis)


def _expand(x, axis=0):
    return np.expand_dims(x, axis)


def _sumlast_keep(x):
    return x.sum(axis=-1, keepdims=True)


def _add_loc0(x, block_info=None):
    if block_info is None or 0 not in block_info:      # dtype / meta inference calls
        return x
    lo, hi = block_info[0]["array-location"][0]
    return x + np.arange(lo, hi).astype(x.dtype).reshape((-1,) + (1,) * (x.ndim - 1))


def _ident(x):
    return x + 0


MBF = {"double": _double, "plus1": _plus1, "negate": _negate, "tofloat": _tofloat}


@contextlib.contextmanager
def config_ctx(case):
    """The dask configuration a case asks for (nothing for most cases)."""
    cfg = case.get("config")
    if not cfg:
        yield
        return
    import dask

    with dask.config.set(dict(cfg)):
        yield


def _dt(name, as_object):
    return np.dtype(name) if as_object else name


def build_source(s, mod, like=None):
    isnp = mod is np
    if s["chunks"] == "match":
        chunks = None
        if not isnp:
            # trailing-aligned: same chunks as `like` where the lengths agree, one chunk otherwise
            shp = s["shape"]
            off = like.ndim - len(shp)
            chunks = tuple(tuple(like.chunks[off + i]) if (off + i >= 0 and like.shape[off + i] == n) else (n,)
                           for i, n in enumerate(shp))
    else:
        chunks = A.chunks_of_desc(s["chunks"])
    k = s["k"]
    if k == "from_array":
        x = A.rand_data(s["seed"], s["shape"], s["dtype"], special=False)
        return x if isnp else mod.from_array(x, chunks=chunks, **s.get("kw", {}))
    if k in ("ones", "zeros"):
        f = getattr(mod, k)
        return f(tuple(s["shape"]), dtype=s["dtype"]) if isnp else f(tuple(s["shape"]), dtype=s["dtype"], chunks=chunks)
    if k == "arange":
        kw = {"dtype": _dt(s["dt"], s.get("dtobj"))} if s.get("dt") else {}
        return np.arange(s["start"], s["stop"], s["step"], **kw) if isnp else \
            mod.arange(s["start"], s["stop"], s["step"], chunks=chunks, **kw)
    if k == "linspace":
        kw = {"dtype": _dt(s["dt"], s.get("dtobj"))} if s.get("dt") else {}
        if "endpoint" in s:
            kw["endpoint"] = s["endpoint"]
        return np.linspace(s["start"], s["stop"], s["num"], **kw) if isnp else \
            mod.linspace(s["start"], s["stop"], s["num"], chunks=chunks, **kw)
    raise ValueError(k)


def _index(idx):
    out = []
    for it in idx:
        if it[0] == "n":
            out.append(None)
        elif it[0] == "e":
            out.append(Ellipsis)
        elif it[0] == "i":
            out.append(it[1])
        else:
            out.append(slice(it[1], it[2], it[3]))
    return tuple(out)


def rechunk_arg(ch):
    """The chunks argument of a rechunk step as passed to dask."""
    def entry(e):
        return tuple(e) if isinstance(e, list) else e

    if isinstance(ch, dict):
        return {int(k): entry(v) for k, v in ch.items()}
    if isinstance(ch, list):
        return tuple(entry(e) for e in ch)
    return ch


def _map_blocks(x, st, mod):
    isnp = mod is np
    f = st["f"]
    how = st.get("dt", "dtype")

    def dkw(dtype, ndim):
        if how == "infer":
            return {}
        if how == "meta":
            return {"meta": np.empty((0,) * ndim, dtype=dtype)}
        return {"dtype": dtype}

    if f in MBF:
        if isnp:
            return MBF[f](x)
        return x.map_blocks(MBF[f], **dkw("float64" if f == "tofloat" else x.dtype, x.ndim))
    if f == "kw":
        if isnp:
            return x + st["k"]
        dt = (np.empty(0, x.dtype) + st["k"]).dtype
        if st.get("how") == "pos":
            return x.map_blocks(_addk, st["k"], **dkw(dt, x.ndim))
        return x.map_blocks(_addk, k=st["k"], **dkw(dt, x.ndim))
    if f == "arg2":
        y = build_source(st["src"], mod, like=x)
        if isnp:
            return x + y
        return mod.map_blocks(_add2, x, y, **dkw(np.result_type(x.dtype, y.dtype), x.ndim))
    if f == "drop":
        if isnp:
            return x.sum(axis=st["axis"])
        dt = np.empty((0,) * x.ndim, x.dtype).sum(axis=st["axis"]).dtype
        return x.map_blocks(_sum_axis, axis=st["axis"], drop_axis=st["axis"], **dkw(dt, x.ndim - 1))
    if f == "newax":
        if isnp:
            return np.expand_dims(x, st["axis"])
        return x.map_blocks(_expand, axis=st["axis"], new_axis=st["axis"], **dkw(x.dtype, x.ndim + 1))
    if f == "chunks":
        if isnp:
            return x.sum(axis=-1, keepdims=True)
        dt = np.empty((0,) * x.ndim, x.dtype).sum(axis=-1).dtype
        y = x.rechunk({x.ndim - 1: -1})
        return y.map_blocks(_sumlast_keep, chunks=tuple(y.chunks[:-1]) + ((1,),), **dkw(dt, x.ndim))
    if f == "binfo":
        if isnp:
            return x + np.arange(x.shape[0]).astype(x.dtype).reshape((-1,) + (1,) * (x.ndim - 1))
        return x.map_blocks(_add_loc0, **dkw(x.dtype, x.ndim))
    if f == "endim":
        if isnp:
            return x + 0
        return x.map_blocks(_ident, enforce_ndim=True, **dkw(x.dtype, x.ndim))
    raise ValueError(f)


def apply_step(x, st, mod):
    isnp = mod is np
    op = st["op"]
    if op == "ew1":
        f = st["f"]
        return -x if f == "neg" else abs(x) if f == "abs" else mod.square(x)
    if op in ("ewk", "ew2"):
        f = st["f"]
        y = st["k"] if op == "ewk" else build_source(st["src"], mod, like=x)
        a, b = (y, x) if st.get("rev") else (x, y)
        if st.get("call"):
            return getattr(mod, UF[f])(a, b, dtype=_dt(st["call"], st.get("callobj")))
        if f in ("maximum", "minimum"):
            return getattr(mod, f)(a, b)
        return getattr(operator, f)(a, b)
    if op == "slice":
        return x[_index(st["idx"])]
    if op == "red":
        axis = st["axis"]
        axis = tuple(axis) if isinstance(axis, list) else axis
        kw = {"axis": axis, "keepdims": st["keepdims"]}
        if st.get("dtype"):
            kw["dtype"] = st["dtype"]
        se = st.get("split_every")
        if not isnp and se is not None:
            kw["split_every"] = {int(k): v for k, v in se.items()} if isinstance(se, dict) else se
        return getattr(mod, st["f"])(x, **kw)
    if op == "rechunk":
        if isnp:
            return x
        kw = {k: st[k] for k in ("threshold", "block_size_limit", "method") if st.get(k) is not None}
        if st.get("balance"):
            kw["balance"] = True
        return x.rechunk(rechunk_arg(st["chunks"]), **kw)
    if op in ("concat", "stack"):
        parts = [x if o == "self" else build_source(o, mod) for o in st["others"]]
        parts.insert(st["pos"], x)
        kw = {"allow_unknown_chunksizes": True} if (st.get("auc") and not isnp) else {}
        return (mod.concatenate if op == "concat" else mod.stack)(parts, axis=st["axis"], **kw)
    if op == "mb":
        return _map_blocks(x, st, mod)
    if op == "T":
        return x.T
    if op == "transpose":
        if st["axes"] is None:
            return np.transpose(x) if isnp else x.transpose()
        return mod.transpose(x, st["axes"]) if isnp else x.transpose(st["axes"])
    raise ValueError(op)


def evaluate(case, mod, upto=None):
    x = build_source(case["src"], mod)
    steps = case["steps"] if upto is None else case["steps"][:upto]
    for st in steps:
        x = apply_step(x, st, mod)
    return x


def op_names(case):
    return [case["src"]["k"]] + [st["op"] + (":" + st["f"] if st["op"] in ("red", "mb") else "") for st in case["steps"]]
