"""C30 helper: a tiny JSON language of array pipelines restricted to what the statement of C30 lists
(creation, elementwise, slicing, reductions, rechunk, concatenate/stack, map_blocks, transpose), a seeded
generator that tracks shapes, and ONE evaluator used for NumPy, for the expression engine and (in the helper
subprocess vf.props.c30_classic) for the classic engine.

A case is {"src": <source>, "steps": [<step>, ...]}: a spine of operations applied to one array; a step may bring
its own auxiliary sources (second operand of a binary operation, other parts of a concatenate/stack).
Evaluating steps[:k] gives the k-th prefix, which the monitor uses to localise a mismatch.
"""
from __future__ import annotations

import operator

import numpy as np

from . import arrays as A

DT = ["int64", "int64", "float64", "float64", "float32", "int32", "bool"]
EW1 = ["neg", "abs", "square"]
EWK = ["add", "sub", "mul", "maximum", "minimum"]
EWCMP = ["lt", "ge", "eq"]
REDS = ["sum", "mean", "min", "max", "any", "all", "prod", "std", "var"]
MB = ["double", "plus1", "negate", "tofloat"]


# ---------------------------------------------------------------------------------------------
# generator

def _jl(chunks):
    return [list(c) for c in chunks]


def gen_source(rng, shape=None, dtype=None, allow_creation=True):
    if shape is None:
        shape = [rng.choice((1, 2, 3, 4, 5, 6)) for _ in range(rng.choice((1, 1, 2, 2, 2, 3)))]
    shape = list(shape)
    dtype = dtype or rng.choice(DT)
    kind = rng.choice(("from_array",) * 6 + ("ones", "zeros", "arange", "linspace")) if allow_creation else "from_array"
    chunks = _jl(A.rand_chunks(rng, shape))
    if kind in ("arange", "linspace") and len(shape) != 1:
        kind = "from_array"
    if kind == "from_array":
        return {"k": kind, "shape": shape, "dtype": dtype, "seed": rng.randrange(2 ** 31), "chunks": chunks}
    if kind in ("ones", "zeros"):
        return {"k": kind, "shape": shape, "dtype": dtype, "chunks": chunks}
    if kind == "arange":
        step = rng.choice((1, 1, 2, -1))
        start = rng.randint(-3, 3)
        stop = start + step * shape[0]
        return {"k": kind, "start": start, "stop": stop, "step": step, "shape": shape, "dtype": "int64", "chunks": chunks}
    start = rng.randint(-3, 3)
    return {"k": "linspace", "start": start, "stop": start + rng.randint(1, 5), "num": shape[0], "shape": shape,
            "dtype": "float64", "chunks": chunks}


def _rand_index(rng, shape):
    idx, out = [], []
    for n in shape:
        r = rng.random()
        if r < 0.15:
            idx.append(["n"])
            out.append(1)
        r = rng.random()
        if r < 0.2 and n > 0:
            idx.append(["i", rng.randrange(-n, n)])
        elif r < 0.45:
            idx.append(["s", None, None, None])
            out.append(n)
        else:
            step = rng.choice((None, 1, 1, 2, 3, -1, -2))
            # out-of-range bounds only with positive steps: with a negative step a start below -n is normalised wrongly
            # by dask.array.slicing.normalize_index, which both engines share (finding of C20, not of this property)
            lo, hi = (-n - 1, n + 1) if (step or 1) > 0 else (-n, max(n - 1, 0))
            start = rng.choice((None, rng.randint(lo, hi)))
            stop = rng.choice((None, rng.randint(lo, hi)))
            out.append(len(range(*slice(start, stop, step).indices(n))))
            idx.append(["s", start, stop, step])
    if rng.random() < 0.1:
        idx.append(["n"])
        out.append(1)
    if rng.random() < 0.2:            # drop trailing full slices: x[1:3] on a 2-d array
        while idx and idx[-1] == ["s", None, None, None]:
            idx.pop()
    return idx, out


def gen_case(rng, maxsteps=5):
    src = gen_source(rng)
    shape, dtype = list(src["shape"]), src["dtype"]
    exact = src["k"] != "linspace"
    isbool = dtype == "bool"
    steps = []
    nsteps = rng.randint(1, maxsteps)
    tries = 0
    while len(steps) < nsteps and tries < 40:
        tries += 1
        nd = len(shape)
        size = int(np.prod(shape)) if shape else 1
        op = rng.choice(("ew1", "ewk", "ew2", "ew2", "slice", "slice", "red", "red", "rechunk", "rechunk", "concat",
                         "stack", "mb", "T", "transpose", "cmp"))
        if op == "ew1":
            if isbool:
                continue
            steps.append({"op": "ew1", "f": rng.choice(EW1)})
        elif op == "ewk":
            if isbool:
                continue
            steps.append({"op": "ewk", "f": rng.choice(EWK), "k": rng.choice((2, -1, 3, 1)), "rev": rng.random() < 0.3})
        elif op == "cmp":
            if not exact or isbool:
                continue
            steps.append({"op": "ewk", "f": rng.choice(EWCMP), "k": rng.choice((0, 1, 2)), "rev": False})
            isbool = True
            dtype = "bool"
        elif op == "ew2":
            if isbool:
                continue
            s2 = list(shape)
            for a in range(len(s2)):
                if rng.random() < 0.3:
                    s2[a] = 1
            s2 = s2[rng.randint(0, len(s2)):] if rng.random() < 0.4 else s2
            d2 = rng.choice(("int64", "float64", dtype))
            if d2 == "bool":
                d2 = "int64"
            o = gen_source(rng, s2, d2)
            if rng.random() < 0.7:
                # chunked like the current array on the axes it shares with it (the evaluator derives the chunks):
                # the pinned expression engine cannot unify differently chunked elementwise operands
                o["chunks"] = "match"
            if o["k"] == "linspace":
                exact = False
            steps.append({"op": "ew2", "f": rng.choice(EWK), "src": o, "rev": rng.random() < 0.3})
            if (d2.startswith("float") or o["k"] == "linspace") and not dtype.startswith("float"):
                dtype = "float64"
        elif op == "slice":
            if nd == 0:
                continue
            idx, out = _rand_index(rng, shape)
            if not idx or (0 in out and rng.random() < 0.7):
                continue
            steps.append({"op": "slice", "idx": idx})
            shape = out
        elif op == "red":
            if nd == 0 or size == 0:
                continue
            f = rng.choice(REDS)
            if f in ("std", "var") and rng.random() < 0.85:      # not implemented by the pinned expression engine
                f = rng.choice(("sum", "mean", "min", "max"))
            if f in ("any", "all") and not exact:
                continue
            if isbool and f in ("std", "var", "prod", "mean"):
                continue
            r = rng.random()
            if r < 0.25:
                axis = None
            elif r < 0.75:
                axis = rng.randrange(-nd, nd)
            else:
                axis = sorted(rng.sample(range(nd), rng.randint(1, nd)))
            keepdims = rng.random() < 0.4
            steps.append({"op": "red", "f": f, "axis": axis, "keepdims": keepdims, "split_every": rng.choice((None, None, 2, 3))})
            axes = list(range(nd)) if axis is None else ([axis % nd] if isinstance(axis, int) else axis)
            shape = [1 if (i in axes) else n for i, n in enumerate(shape)] if keepdims else \
                [n for i, n in enumerate(shape) if i not in axes]
            if f in ("mean", "std", "var") or (f == "prod" and dtype.startswith("float")):
                exact = False
                dtype = "float64" if not dtype.startswith("float") else dtype
            if f in ("any", "all"):
                isbool, dtype = True, "bool"
            elif isbool and f in ("sum",):
                isbool, dtype = False, "int64"
        elif op == "rechunk":
            if nd == 0 or size == 0:
                continue
            form = rng.choice(("tuple", "tuple", "tuple", "int", "dict", "minus1"))
            if form == "tuple":
                ch = _jl(A.rand_chunks(rng, shape))
            elif form == "int":
                ch = rng.randint(1, max(shape))
            elif form == "dict":
                a = rng.randrange(nd)
                ch = {str(a): rng.randint(1, shape[a])}
            else:
                ch = -1
            steps.append({"op": "rechunk", "chunks": ch, "balance": rng.random() < 0.1})
        elif op in ("concat", "stack"):
            if nd == 0 and op == "concat":
                continue
            if size == 0:
                continue
            axis = rng.randrange(nd) if op == "concat" else rng.randrange(nd + 1)
            if rng.random() < 0.3:
                axis -= (nd if op == "concat" else nd + 1)
            others = []
            for _ in range(rng.randint(1, 2)):
                if rng.random() < 0.3:
                    others.append("self")
                else:
                    s2 = list(shape)
                    if op == "concat":
                        s2[axis] = rng.randint(1, 4)
                    d2 = dtype if dtype != "bool" else "bool"
                    others.append(gen_source(rng, s2, d2, allow_creation=len(s2) == 1 and rng.random() < 0.3))
                    if others[-1]["k"] == "linspace":
                        exact = False
                        if not dtype.startswith("float"):
                            dtype = "float64"
            pos = rng.randint(0, len(others))
            steps.append({"op": op, "axis": axis, "others": others, "pos": pos})
            if op == "concat":
                a = axis % nd
                shape = list(shape)
                shape[a] = shape[a] + sum(shape[a] if o == "self" else o["shape"][a] for o in others)
            else:
                a = axis % (nd + 1)
                shape = shape[:a] + [len(others) + 1] + shape[a:]
        elif op == "mb":
            f = rng.choice(MB)
            if isbool and f != "tofloat":
                continue
            steps.append({"op": "mb", "f": f})
            if f == "tofloat":
                dtype, isbool = "float64", False
        elif op == "T":
            if nd < 2 and rng.random() < 0.7:
                continue
            steps.append({"op": "T"})
            shape = shape[::-1]
        elif op == "transpose":
            if nd < 2:
                continue
            axes = list(range(nd))
            rng.shuffle(axes)
            if rng.random() < 0.3:
                axes = [a - nd for a in axes]
            steps.append({"op": "transpose", "axes": axes})
            shape = [shape[a] for a in axes]
    return {"src": src, "steps": steps, "exact": exact}


# ---------------------------------------------------------------------------------------------
# evaluator (mod is numpy or a dask.array namespace)

def _double(x):
    return x * 2


def _plus1(x):
    return x + 1


def _negate(x):
    return -x


def _tofloat(x):
    return x.astype("float64") / 2


MBF = {"double": _double, "plus1": _plus1, "negate": _negate, "tofloat": _tofloat}


def build_source(s, mod, like=None):
    isnp = mod is np
    if s["chunks"] == "match":
        chunks = None
        if not isnp:
            # trailing-aligned: same chunks as `like` where the lengths agree, one chunk otherwise
            shp = s["shape"]
            off = like.ndim - len(shp)
            chunks = tuple(tuple(like.chunks[off + i]) if (off + i >= 0 and like.shape[off + i] == n) else (n,)
                           for i, n in enumerate(shp))
    else:
        chunks = A.chunks_of_desc(s["chunks"])
    k = s["k"]
    if k == "from_array":
        x = A.rand_data(s["seed"], s["shape"], s["dtype"], special=False)
        return x if isnp else mod.from_array(x, chunks=chunks)
    if k in ("ones", "zeros"):
        f = getattr(mod, k)
        return f(tuple(s["shape"]), dtype=s["dtype"]) if isnp else f(tuple(s["shape"]), dtype=s["dtype"], chunks=chunks)
    if k == "arange":
        return np.arange(s["start"], s["stop"], s["step"]) if isnp else mod.arange(s["start"], s["stop"], s["step"], chunks=chunks)
    if k == "linspace":
        return np.linspace(s["start"], s["stop"], s["num"]) if isnp else mod.linspace(s["start"], s["stop"], s["num"], chunks=chunks)
    raise ValueError(k)


def _index(idx):
    out = []
    for it in idx:
        if it[0] == "n":
            out.append(None)
        elif it[0] == "i":
            out.append(it[1])
        else:
            out.append(slice(it[1], it[2], it[3]))
    return tuple(out)


def apply_step(x, st, mod):
    isnp = mod is np
    op = st["op"]
    if op == "ew1":
        f = st["f"]
        return -x if f == "neg" else abs(x) if f == "abs" else mod.square(x)
    if op in ("ewk", "ew2"):
        f = st["f"]
        y = st["k"] if op == "ewk" else build_source(st["src"], mod, like=x)
        a, b = (y, x) if st.get("rev") else (x, y)
        if f in ("maximum", "minimum"):
            return getattr(mod, f)(a, b)
        return getattr(operator, f)(a, b)
    if op == "slice":
        return x[_index(st["idx"])]
    if op == "red":
        axis = st["axis"]
        axis = tuple(axis) if isinstance(axis, list) else axis
        kw = {"axis": axis, "keepdims": st["keepdims"]}
        if not isnp and st.get("split_every") is not None:
            kw["split_every"] = st["split_every"]
        return getattr(mod, st["f"])(x, **kw)
    if op == "rechunk":
        if isnp:
            return x
        ch = st["chunks"]
        if isinstance(ch, dict):
            ch = {int(k): v for k, v in ch.items()}
        elif isinstance(ch, list):
            ch = A.chunks_of_desc(ch)
        return x.rechunk(ch, balance=True) if st.get("balance") else x.rechunk(ch)
    if op in ("concat", "stack"):
        parts = [x if o == "self" else build_source(o, mod) for o in st["others"]]
        parts.insert(st["pos"], x)
        return (mod.concatenate if op == "concat" else mod.stack)(parts, axis=st["axis"])
    if op == "mb":
        f = MBF[st["f"]]
        if isnp:
            return f(x)
        return x.map_blocks(f, dtype="float64" if st["f"] == "tofloat" else x.dtype)
    if op == "T":
        return x.T
    if op == "transpose":
        return mod.transpose(x, st["axes"]) if isnp else x.transpose(st["axes"])
    raise ValueError(op)


def evaluate(case, mod, upto=None):
    x = build_source(case["src"], mod)
    steps = case["steps"] if upto is None else case["steps"][:upto]
    for st in steps:
        x = apply_step(x, st, mod)
    return x


def op_names(case):
    return [case["src"]["k"]] + [st["op"] + (":" + st["f"] if st["op"] == "red" else "") for st in case["steps"]]
