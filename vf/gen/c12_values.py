"""C12 helper: value descriptions (JSON), builder, structural oracle, generators.

A *description* is a small JSON list ``[tag, ...]`` from which any interpreter
rebuilds the same value with ``build(desc)``.  Nothing in this file imports
dask: the oracle (``diff``) is independent of the code under test.
"""
from __future__ import annotations

import atexit
import dataclasses
import functools
import math
import operator
import os
import shutil
import tempfile

# --------------------------------------------------------------------------
# description constructors
# --------------------------------------------------------------------------


def d_int(n):
    return ["int", str(int(n))]


def d_float(x):
    x = float(x)
    if x != x:
        return ["float", "nan"]
    if x in (math.inf, -math.inf):
        return ["float", "inf" if x > 0 else "-inf"]
    return ["float", x.hex()]


def d_complex(z):
    return ["complex", d_float(z.real)[1], d_float(z.imag)[1]]


def d_str(s):
    return ["str", s]


def d_bytes(b):
    return ["bytes", bytes(b).hex()]


def d_py(o):
    """Description of a plain Python scalar / nested builtin container."""
    if o is None:
        return ["none"]
    if isinstance(o, bool):
        return ["bool", o]
    if isinstance(o, int):
        return d_int(o)
    if isinstance(o, float):
        return d_float(o)
    if isinstance(o, complex):
        return d_complex(o)
    if isinstance(o, str):
        return d_str(o)
    if isinstance(o, bytes):
        return d_bytes(o)
    if isinstance(o, list):
        return ["list", [d_py(x) for x in o]]
    if isinstance(o, tuple):
        return ["tuple", [d_py(x) for x in o]]
    if isinstance(o, dict):
        return ["dict", [[d_py(k), d_py(v)] for k, v in o.items()]]
    if isinstance(o, frozenset):
        return ["frozenset", [d_py(x) for x in o]]
    if isinstance(o, set):
        return ["set", [d_py(x) for x in o]]
    raise TypeError(type(o))


def _fl(s):
    return float(s) if s in ("nan", "inf", "-inf") else float.fromhex(s)


# --------------------------------------------------------------------------
# things descriptions can name
# --------------------------------------------------------------------------


@dataclasses.dataclass
class DCa:
    x: object
    y: object = 0


@dataclasses.dataclass
class DCb:          # same fields as DCa, another class
    x: object
    y: object = 0


@dataclasses.dataclass(frozen=True)
class DCf:
    x: object
    y: object = 0


@dataclasses.dataclass
class DCc:          # y does not take part in ==/repr but is still a field
    x: object
    y: object = dataclasses.field(default=0, compare=False, repr=False)


DATACLASSES = {"DCa": DCa, "DCb": DCb, "DCf": DCf, "DCc": DCc}


def fn_add(a, b=0, *, k=1):
    return (a + b) * k


def fn_mul(a, b=1, *, k=1):
    return a * b * k


def fn_id(*a, **k):
    return a, k


class Callable1:
    def __init__(self, n):
        self.n = n

    def __call__(self, x):
        return x + self.n

    def meth(self):
        return self.n

    def other(self):
        return -self.n


def _named():
    import numpy as np

    return {
        "fn_add": fn_add, "fn_mul": fn_mul, "fn_id": fn_id,
        "len": len, "sum": sum, "abs": abs, "max": max, "min": min,
        "operator.add": operator.add, "operator.mul": operator.mul, "operator.sub": operator.sub,
        "math.sin": math.sin, "math.cos": math.cos,
        "np.add": np.add, "np.subtract": np.subtract, "np.sin": np.sin, "np.sum": np.sum, "np.mean": np.mean,
        "int": int, "float": float, "str": str, "list": list, "tuple": tuple, "dict": dict,
        "DCa": DCa, "DCb": DCb, "Callable1": Callable1,
        "str.upper": str.upper, "str.lower": str.lower,
    }


# source templates of dynamically defined functions; {name} fields are filled
# with Python literals taken from the description
FUNC_TEMPLATES = {
    "lam_default": "F = lambda x, y={d}: x + y + {c}",
    "lam_const": "F = lambda x: x + {c}",
    "lam_op": "F = lambda x: x {op} {c}",
    "lam_attr": "F = lambda x: x.{attr}",
    "closure": "def mk(n):\n    return lambda x: x + n\nF = mk({n})",
    "closure2": "def mk(n, m):\n    def inner(x):\n        return x + n if x else m\n    return inner\nF = mk({n}, {m})",
    "kwdef": "def F(x, *, k={k}):\n    return x * k + {c}",
    "def_default": "def F(x, y={d}, z={e}):\n    return (x, y, z)",
    "def_const": "def F(x):\n    t = {c}\n    return (x, t, {s})",
    "nested": "def F(x):\n    g = lambda y: y + {c}\n    return g(x)",
}


def _build_func(p):
    src = FUNC_TEMPLATES[p["t"]].format(**{k: v for k, v in p["a"].items()})
    ns = {"__name__": "c12_dynamic"}
    exec(compile(src, "<c12:%s>" % p["t"], "exec"), ns)
    return ns["F"]


# --------------------------------------------------------------------------
# temp files for memmaps
# --------------------------------------------------------------------------

_TMP = {"dir": None, "n": 0}


def _tmpdir():
    if _TMP["dir"] is None or not os.path.isdir(_TMP["dir"]):
        _TMP["dir"] = tempfile.mkdtemp(prefix="vf-c12-mm-")
        atexit.register(cleanup)
    return _TMP["dir"]


def cleanup():
    d = _TMP["dir"]
    _TMP["dir"] = None
    if d:
        shutil.rmtree(d, ignore_errors=True)


def _alloc(shape, dt, mm):
    import numpy as np

    if not mm:
        return np.zeros(shape, dtype=dt)
    _TMP["n"] += 1
    fn = os.path.join(_tmpdir(), "m%d_%d" % (os.getpid(), _TMP["n"]))
    nbytes = int(np.prod(shape, dtype=np.int64)) * dt.itemsize
    if nbytes == 0:
        raise Unbuildable("empty memmap")
    with open(fn, "wb") as f:
        f.write(b"\0" * nbytes)
    m = np.memmap(fn, dtype=dt, mode="r+", shape=tuple(shape))
    os.unlink(fn)      # the mapping stays valid; no files accumulate
    return m


class Unbuildable(Exception):
    """The reference libraries themselves refuse the described value."""


# --------------------------------------------------------------------------
# builder
# --------------------------------------------------------------------------


def _dtype(dt):
    """dtype description: a string, a list of fields [name | [title, name], dtype, (subarray shape)]
    (dtype may itself be such a list: nested), or {"names", "formats", "offsets", "itemsize"}."""
    import numpy as np

    if isinstance(dt, list):
        fields = []
        for f in dt:
            name = tuple(f[0]) if isinstance(f[0], list) else f[0]
            if len(f) > 2:
                fields.append((name, _dtype(f[1]), tuple(f[2])))
            else:
                fields.append((name, _dtype(f[1])))
        return np.dtype(fields)
    if isinstance(dt, dict):
        return np.dtype({"names": dt["names"], "formats": [_dtype(f) for f in dt["formats"]],
                         "offsets": dt["offsets"], "itemsize": dt["itemsize"]})
    return np.dtype(dt)


def _conv(v, kind):
    if kind in "fc":
        if isinstance(v, list):
            return complex(_conv(v[0], "f"), _conv(v[1], "f"))
        if isinstance(v, str):
            return _fl(v)
        return v
    if kind == "S":
        return bytes.fromhex(v)
    return v


def _logical(vals, dt, shape, st):
    import numpy as np

    n = 1
    for s in shape:
        n *= s
    if len(vals) != n:
        raise ValueError("description has %d values for shape %r" % (len(vals), shape))
    k = dt.kind
    if k == "O":
        a = np.empty(n, dtype=object)
        for i, d in enumerate(vals):
            a[i] = _build(d, st)
    elif k in "Mm":
        nat = np.iinfo(np.int64).min
        a = np.array([nat if v == "NaT" else v for v in vals], dtype="<i8").view(dt)
    elif k == "V" and dt.names:
        kinds = [dt.fields[nm][0].kind for nm in dt.names]
        a = np.array([tuple(_conv(x, kk) for x, kk in zip(v, kinds)) for v in vals], dtype=dt)
        if n == 0:
            a = np.zeros(0, dtype=dt)
    else:
        a = np.array([_conv(v, k) for v in vals], dtype=dt)
        if n == 0:
            a = np.zeros(0, dtype=dt)
    return a.reshape(shape)


def _build_nd(p, st):
    import numpy as np

    dt = _dtype(p["dt"])
    shape = tuple(p["shape"])
    nd = len(shape)
    vals = p.get("vals")
    if p.get("raw") is not None:      # the C-order buffer itself (any dtype, structured / void included)
        L0 = np.frombuffer(bytes.fromhex(p["raw"]), dtype=dt).reshape(shape).copy()
        vals = None
    elif vals is None:          # compact form of a large integer array: arange(n) with a few elements set
        vals = list(range(p["arange"]))
        for i, x in p.get("set", []):
            vals[i] = x
    L = L0 if p.get("raw") is not None else _logical(vals, dt, shape, st)
    lay = p.get("lay")
    mm = bool(p.get("mm"))
    if nd == 0 or (lay is None and not mm):
        arr = L
    else:
        lay = lay or {}
        perm = lay.get("perm") or list(range(nd))
        steps = lay.get("steps") or [1] * nd
        pre = lay.get("pre") or [0] * nd
        mshape = [pre[i] + shape[i] * abs(steps[i]) for i in range(nd)]
        base = _alloc([mshape[a] for a in perm], dt, mm)
        view = base.transpose([perm.index(i) for i in range(nd)])
        idx = []
        for i in range(nd):
            n, s, o = shape[i], steps[i], pre[i]
            if n == 0:
                idx.append(slice(0, 0))
            elif s > 0:
                idx.append(slice(o, o + n * s, s))
            else:
                idx.append(slice(o + (n - 1) * -s, (o - 1) if o >= 1 else None, s))
        view = view[tuple(idx)]
        if view.shape != shape:
            raise AssertionError("layout builder produced shape %r, wanted %r" % (view.shape, shape))
        view[...] = L
        arr = view
    bc = p.get("bc")
    if bc is not None:
        arr = np.broadcast_to(arr, tuple(bc))
    if p.get("rec"):
        arr = arr.view(np.recarray)
    return arr


def _na_list(vals, na):
    return [na if v is None else v for v in vals]


def _build_pdarray(p, st):
    import numpy as np
    import pandas as pd

    dt = p["dtype"]
    vals = p["vals"]
    if dt == "object":
        a = np.empty(len(vals), dtype=object)
        for i, d in enumerate(vals):
            a[i] = _build(d, st)
        return pd.arrays.NumpyExtensionArray(a)
    if dt in ("str", "string"):
        return pd.array([None if v is None else _INTERN.setdefault(("s", v), v) for v in vals], dtype=dt)
    if dt.startswith("datetime64") or dt.startswith("timedelta64"):
        nat = np.iinfo(np.int64).min
        unit = p.get("unit", "ns")
        base = np.array([nat if v is None else v for v in vals], dtype="<i8")
        if dt.startswith("timedelta64"):
            return pd.array(base.view("<m8[%s]" % unit))
        arr = pd.array(base.view("<M8[%s]" % unit))
        if p.get("tz"):
            arr = arr.tz_localize("UTC").tz_convert(p["tz"])
        return arr
    if dt.startswith("Float"):
        return pd.array([pd.NA if v is None else _conv(v, "f") for v in vals], dtype=dt)
    return pd.array(_na_list(vals, pd.NA), dtype=dt)


def _build_cat(p, st):
    import pandas as pd

    cats = [_build(c, st) for c in p["cats"]]
    vals = [None if v is None else _build(v, st) for v in p["vals"]]
    return pd.Categorical(vals, categories=pd.Index(cats, dtype=p.get("cdtype")) if p.get("cdtype") else cats,
                          ordered=bool(p.get("ordered")))


def _build_index(p, st):
    import pandas as pd

    data = _build(p["data"], st)
    name = _build(p["name"], st) if p.get("name") is not None else None
    kw = {}
    if p.get("dtype"):
        kw["dtype"] = p["dtype"]
    ix = pd.Index(data, name=name, **kw)
    if p.get("slice"):
        ix = ix[slice(*p["slice"])]
    return ix


def _build_mi(p, st):
    import pandas as pd

    names = [None if n is None else _build(n, st) for n in p["names"]]
    if "levels" in p:
        levels = [_build(l, st) for l in p["levels"]]
        return pd.MultiIndex(levels=levels, codes=p["codes"], names=names)
    arrays = [_build(a, st) for a in p["arrays"]]
    return pd.MultiIndex.from_arrays(arrays, names=names)


def _build_series(p, st):
    import pandas as pd

    data = _build(p["data"], st)
    index = _build(p["index"], st) if p.get("index") is not None else None
    name = _build(p["name"], st) if p.get("name") is not None else None
    s = pd.Series(data, index=index, name=name, copy=False)
    if p.get("slice"):
        s = s.iloc[slice(*p["slice"])]
    return s


def _build_df(p, st):
    import pandas as pd

    index = _build(p["index"], st) if p.get("index") is not None else None
    if p.get("base") is not None:
        arr = _build(p["base"]["nd"], st)
        names = [_build(n, st) for n in p["base"]["cols"]]
        df = pd.DataFrame(arr, columns=names, index=index, copy=False)
    elif p.get("dict") is not None:
        cols = [(_build(n, st), _build(d, st)) for n, d in p["dict"]]
        df = pd.DataFrame({n: d for n, d in cols}, index=index, copy=False)
        if len(df.columns) != len(cols):
            raise Unbuildable("duplicate column names")
    else:
        df = pd.DataFrame(index=index)
    for pos, n, d in p.get("ins", []):
        val = _build(d, st)
        if index is not None:
            val = pd.Series(val, index=df.index)
        df.insert(pos, _build(n, st), val)
    if p.get("colname") is not None:
        df.columns = df.columns.set_names(_build(p["colname"], st))
    if p.get("slice"):
        df = df.iloc[slice(*p["slice"])]
    return df


def _build(d, st):
    tag = d[0]
    if tag == "none":
        return None
    if tag == "bool":
        return bool(d[1])
    if tag == "int":
        return int(d[1])
    if tag == "float":
        return _fl(d[1])
    if tag == "complex":
        return complex(_fl(d[1]), _fl(d[2]))
    if tag == "str":
        # equal strings / bytes inside one built value are one object: object sharing
        # (visible to pickle's memo) is then a function of the description only
        return _INTERN.setdefault(("s", d[1]), d[1])
    if tag == "bytes":
        return _INTERN.setdefault(("b", d[1]), bytes.fromhex(d[1]))
    if tag == "list":
        out = []
        st.append(out)
        try:
            for x in d[1]:
                out.append(_build(x, st))
        finally:
            st.pop()
        return out
    if tag == "tuple":
        return tuple(_build(x, st) for x in d[1])
    if tag == "dict":
        out = {}
        st.append(out)
        try:
            for k, v in d[1]:
                out[_build(k, st)] = _build(v, st)
        finally:
            st.pop()
        return out
    if tag == "set":
        return _ordered_set(set, d[1], st)
    if tag == "frozenset":
        return _ordered_set(frozenset, d[1], st)
    if tag == "ref":
        return st[-1 - d[1]]
    if tag == "na":
        import pandas as pd

        return pd.NA
    if tag == "npscalar":
        import numpy as np

        dt = np.dtype(d[1])
        return _logical([d[2]], dt, (1,), st)[0]
    if tag == "nd":
        return _build_nd(d[1], st)
    if tag == "pdarray":
        return _build_pdarray(d[1], st)
    if tag == "cat":
        return _build_cat(d[1], st)
    if tag == "index":
        return _build_index(d[1], st)
    if tag == "rangeindex":
        import pandas as pd

        return pd.RangeIndex(d[1], d[2], d[3], name=None if d[4] is None else _build(d[4], st))
    if tag == "mi":
        return _build_mi(d[1], st)
    if tag == "series":
        return _build_series(d[1], st)
    if tag == "df":
        return _build_df(d[1], st)
    if tag == "dc":
        return DATACLASSES[d[1]](*[_build(x, st) for x in d[2]])
    if tag == "named":
        return _named()[d[1]]
    if tag == "func":
        return _build_func(d[1])
    if tag == "partial":
        return functools.partial(_build(d[1], st), *[_build(x, st) for x in d[2]],
                                 **{k: _build(v, st) for k, v in d[3]})
    if tag == "method":       # bound method / method-wrapper of a described object
        return getattr(_build(d[1], st), d[2])
    if tag == "inst":
        return Callable1(_build(d[1], st))
    if tag == "hist":         # an equal value reached by another construction route (vf/gen/c12_history.py)
        from . import c12_history as H

        try:
            return H.build_hist(d[1])
        except H.Refused as e:
            raise Unbuildable(str(e))
    raise ValueError("unknown description tag %r" % (tag,))


def _ordered_set(typ, items, st):
    # insertion order as listed (matters for iteration order under hash collisions)
    if typ is set:
        out = set()
        for x in items:
            out.add(_build(x, st))
        return out
    return frozenset([_build(x, st) for x in items])


_INTERN = {}


def build(desc):
    _INTERN.clear()
    try:
        return _build(desc, [])
    finally:
        _INTERN.clear()


# --------------------------------------------------------------------------
# structural oracle: diff(a, b) is None  <=>  observably equal
# --------------------------------------------------------------------------
#
# Returns (mechanism, path).  ``mechanism`` names the innermost observable
# difference in terms of input features only; it becomes the label of a
# collision.  Memory layout is never an observable difference here.


def _tn(o):
    return type(o).__name__


def _fdiff(a, b):
    if a != a and b != b:
        return None
    if a != b:
        return "different-value"
    if math.copysign(1.0, a) != math.copysign(1.0, b):
        return "zero-sign"
    return None


def _fam(dt):
    import numpy as np
    import pandas as pd

    if isinstance(dt, np.dtype):
        return "numpy-" + {"O": "object", "i": "int", "u": "uint", "f": "float", "b": "bool", "M": "datetime",
                           "m": "timedelta", "U": "unicode", "S": "bytes", "c": "complex", "V": "void"}.get(dt.kind, dt.kind)
    if isinstance(dt, pd.StringDtype):
        return "string" if dt.na_value is pd.NA else "str"
    if isinstance(dt, pd.CategoricalDtype):
        return "category"
    if hasattr(dt, "numpy_dtype") and type(dt).__name__ == "NumpyEADtype":
        return _fam(dt.numpy_dtype)
    n = type(dt).__name__
    for pre in ("UInt", "Int", "Float", "Boolean", "DatetimeTZ", "Period", "Interval"):
        if n.startswith(pre):
            return {"Boolean": "boolean", "DatetimeTZ": "datetimetz", "UInt": "Int"}.get(pre, pre)
    return n


def _fams(x, y):
    return "-vs-".join(sorted((_fam(x), _fam(y))))


def _canon(e):
    import numpy as np
    import pandas as pd

    if e is pd.NA:
        return ("NA",)
    if e is pd.NaT:
        return ("NaT",)
    if e is None:
        return ("None",)
    if isinstance(e, pd.Timestamp):
        return ("ts", int(e.asm8.view("i8")), str(e.tz), e.unit)
    if isinstance(e, pd.Timedelta):
        return ("td", int(e.asm8.view("i8")), e.unit)
    if isinstance(e, np.generic):
        if e.dtype.kind in "Mm":
            return (e.dtype.str, int(e.astype("i8")))
        e = e.item()
    if isinstance(e, float) and e != e:
        return ("nan",)
    return (type(e).__name__, e)


def _num_equal(a, b):
    import numpy as np

    k = a.dtype.kind
    if a.size == 0:
        return True
    if k in "fc":
        with np.errstate(all="ignore"):
            return bool(((a == b) | (np.isnan(a) & np.isnan(b))).all())
    if k in "Mm":
        return bool((a.view("i8") == b.view("i8")).all())
    if k == "V":
        if a.dtype.names:
            return all(_num_equal(a[n], b[n]) if not a.dtype.fields[n][0].hasobject else True for n in a.dtype.names)
        return np.ascontiguousarray(a).tobytes() == np.ascontiguousarray(b).tobytes()
    return bool((a == b).all())


def _kbytes(a):
    import numpy as np

    return np.ascontiguousarray(np.asarray(a).ravel(order="K")).tobytes()


def _nd_diff(a, b, memo, path):
    import numpy as np

    kind = "memmap" if isinstance(a, np.memmap) else "ndarray"
    if a.dtype != b.dtype:
        return (kind + ":different-dtype", path)
    if a.shape != b.shape:
        return (kind + ":different-shape", path)
    if a.dtype.hasobject:
        if a.dtype.kind != "O":
            # structured dtype with object fields: compare element tuples
            for i, (x, y) in enumerate(zip(a.ravel().tolist(), b.ravel().tolist())):
                if diff(x, y, memo, path) is not None:
                    return ("object-array:different-elements", path + "[%d]" % i)
            return None
        first = None
        for i, (x, y) in enumerate(zip(a.flat, b.flat)):
            r = diff(x, y, memo, path + "[%d]" % i)
            if r is not None:
                first = r
                break
        if first is None:
            return None
        if a.ndim == 0:
            same_str = False
            try:
                same_str = str(a.item()) == str(b.item())
            except Exception:  # noqa: BLE001
                pass
            return ("0-d-object-array:" + ("elements-with-equal-str" if same_str else "different-element"), path)
        la, lb = list(a.flat), list(b.flat)
        if all(type(x) is str for x in la) and all(type(x) is str for x in lb) and "-".join(la) == "-".join(lb):
            return ("object-array:joined-strings-coincide", path)
        if all(type(x) is bytes for x in la) and all(type(x) is bytes for x in lb) and b"-".join(la) == b"-".join(lb):
            return ("object-array:joined-bytes-coincide", path)
        return ("object-array:different-elements", first[1])
    if _num_equal(a, b):
        return None
    if kind == "ndarray" and _kbytes(a) == _kbytes(b):
        return ("ndarray:same-buffer-bytes&different-memory-order", path)
    return (kind + ":different-values", path)


def _ea_diff(a, b, memo, path):
    """pandas extension arrays of the same class."""
    import pandas as pd

    if type(a) is pd.arrays.NumpyExtensionArray:
        return _nd_diff(a.to_numpy(), b.to_numpy(), memo, path)
    if isinstance(a, pd.Categorical):
        if bool(a.ordered) != bool(b.ordered):
            return ("Categorical:different-ordered-flag", path)
        r = diff(a.categories, b.categories, memo, path + ".categories")
        if r is not None:
            return r
        if len(a) != len(b):
            return ("Categorical:different-length", path)
        if list(a.codes) != list(b.codes):
            return ("Categorical:different-values", path)
        return None
    if a.dtype != b.dtype:
        na = bool(a.isna().any() or b.isna().any())
        return ("extension-array:different-dtype:%s%s" % (_fams(a.dtype, b.dtype), "&has-NA" if na else ""), path)
    if len(a) != len(b):
        return ("extension-array:different-length", path)
    ca, cb = [_canon(e) for e in a], [_canon(e) for e in b]
    if ca == cb:
        return None
    if isinstance(a.dtype, pd.StringDtype) and all(c[0] == "str" for c in ca + cb) \
            and "-".join(c[1] for c in ca) == "-".join(c[1] for c in cb):
        return ("object-array:joined-strings-coincide", path)
    if _fam(a.dtype) == "Int" and bool(a.isna().any() or b.isna().any()) \
            and [c if len(c) == 1 else float(c[1]) for c in ca] == [c if len(c) == 1 else float(c[1]) for c in cb]:
        return ("extension-array:different-values&equal-as-float64&has-NA", path)
    return ("extension-array:different-values", path)


_GENERIC_EA = ("IntegerArray", "FloatingArray", "BooleanArray", "StringArray", "NumpyExtensionArray")


def _type_label(x, y):
    """Type difference; the pandas extension arrays without a normalizer of
    their own (dask tokenizes them as np.asarray(arr)) are one class of input."""
    names = sorted(("generic-extension-array" if _tn(o) in _GENERIC_EA and (type(o).__module__ or "").startswith("pandas") else _tn(o))
                   for o in (x, y))
    return "type:" + "-vs-".join(names)


def _arr_diff(x, y, memo, path):
    import numpy as np

    if type(x) is not type(y):
        return (_type_label(x, y), path)
    if isinstance(x, np.ndarray):
        return _nd_diff(x, y, memo, path)
    return _ea_diff(x, y, memo, path)


def _index_diff(a, b, memo, path):
    import pandas as pd

    if isinstance(a, pd.MultiIndex):
        if a.nlevels != b.nlevels:
            return ("MultiIndex:different-nlevels", path)
        if diff(list(a.names), list(b.names), memo, path + ".names") is not None:
            return ("MultiIndex:different-names", path)
        if len(a) != len(b):
            return ("MultiIndex:different-length", path)
        for i in range(a.nlevels):
            r = diff(a.get_level_values(i), b.get_level_values(i), memo, path + ".level%d" % i)
            if r is not None:
                return r
        return None
    if diff(a.name, b.name, memo, path + ".name") is not None:
        return ("Index:different-name", path)
    if len(a) != len(b):
        return ("Index:different-length", path)
    if isinstance(a, pd.RangeIndex):
        return None if list(a) == list(b) else ("RangeIndex:different-values", path)
    # the dtype of an Index is the dtype of its array: the innermost difference is found there
    r = _arr_diff(a.array, b.array, memo, path + ".values")
    if r is None and a.dtype != b.dtype:
        return ("Index:different-dtype:" + _fams(a.dtype, b.dtype), path)
    return r


def _col_arrays(df):
    return [df.iloc[:, j].array for j in range(df.shape[1])]


def _df_diff(a, b, memo, path):
    if a.shape != b.shape:
        return ("DataFrame:different-shape", path)
    r = diff(a.columns, b.columns, memo, path + ".columns")
    if r is not None:
        return r
    r = diff(a.index, b.index, memo, path + ".index")
    if r is not None:
        return r
    ca, cb = _col_arrays(a), _col_arrays(b)
    first = None
    for j, (x, y) in enumerate(zip(ca, cb)):
        r = _arr_diff(x, y, memo, path + ".col%d" % j)
        if r is not None:
            first = r
            break
    if first is None:
        return None
    # same multiset of column arrays, assigned to the column names differently?
    rest = list(cb)
    for x in ca:
        for k, y in enumerate(rest):
            if _arr_diff(x, y, set(), "") is None:
                del rest[k]
                break
        else:
            return first
    return ("DataFrame:same-blocks&different-column-block-assignment", path)


def _code_diff(ca, cb, memo):
    for attr in ("co_code", "co_names", "co_varnames", "co_freevars", "co_cellvars", "co_argcount",
                 "co_kwonlyargcount", "co_posonlyargcount", "co_flags", "co_name"):
        if getattr(ca, attr) != getattr(cb, attr):
            return "function:different-code"
    if len(ca.co_consts) != len(cb.co_consts):
        return "function:different-code"
    for x, y in zip(ca.co_consts, cb.co_consts):
        if hasattr(x, "co_code") and hasattr(y, "co_code"):
            r = _code_diff(x, y, memo)
            if r:
                return r
        elif diff(x, y, memo, "") is not None:
            return "function:different-code-constants"
    return None


def _func_diff(a, b, memo, path):
    r = _code_diff(a.__code__, b.__code__, memo)
    if r:
        return (r, path)
    if diff(a.__defaults__, b.__defaults__, memo, path) is not None:
        return ("function:different-defaults", path)
    if diff(a.__kwdefaults__, b.__kwdefaults__, memo, path) is not None:
        return ("function:different-kwdefaults", path)
    cla = tuple(c.cell_contents for c in (a.__closure__ or ()))
    clb = tuple(c.cell_contents for c in (b.__closure__ or ()))
    if diff(cla, clb, memo, path) is not None:
        return ("function:different-closure", path)
    if (a.__name__, a.__qualname__, a.__module__) != (b.__name__, b.__qualname__, b.__module__):
        return ("function:different-name", path)
    return None


def diff(a, b, memo=None, path=""):
    import types

    if memo is None:
        memo = set()
    ta = type(a)
    if ta is not type(b):
        return (_type_label(a, b), path)
    if a is None or a is b and ta in (bool, int, str, bytes):
        return None
    if ta in (bool, int, str, bytes):
        return None if a == b else ("scalar:%s:different-value" % ta.__name__, path)
    if ta is float:
        r = _fdiff(a, b)
        return None if r is None else ("scalar:float:" + r, path)
    if ta is complex:
        r = _fdiff(a.real, b.real) or _fdiff(a.imag, b.imag)
        return None if r is None else ("scalar:complex:" + r, path)
    if ta in (list, tuple):
        key = (id(a), id(b))
        if key in memo:
            return None
        if len(a) != len(b):
            return ("%s:different-length" % ta.__name__, path)
        memo.add(key)
        try:
            for i, (x, y) in enumerate(zip(a, b)):
                r = diff(x, y, memo, path + "[%d]" % i)
                if r is not None:
                    return r
        finally:
            memo.discard(key)
        return None
    if ta is dict:
        key = (id(a), id(b))
        if key in memo:
            return None
        if len(a) != len(b):
            return ("dict:different-keys", path)
        memo.add(key)
        try:
            kb = {k: k for k in b}
            for k, v in a.items():
                if k not in kb:
                    return ("dict:different-keys", path)
                if diff(k, kb[k], memo, path) is not None:
                    return ("dict:different-keys", path)
                r = diff(v, b[k], memo, path + "[%r]" % (k,))
                if r is not None:
                    return r
        finally:
            memo.discard(key)
        return None
    if ta in (set, frozenset):
        if len(a) != len(b):
            return ("%s:different-elements" % ta.__name__, path)
        eb = {e: e for e in b}
        for e in a:
            if e not in eb or diff(e, eb[e], memo, path) is not None:
                return ("%s:different-elements" % ta.__name__, path)
        return None
    mod = ta.__module__ or ""
    if mod.startswith("numpy") or mod.startswith("pandas"):
        import numpy as np
        import pandas as pd

        if a is pd.NA:
            return None
        if isinstance(a, np.ndarray):
            return _nd_diff(a, b, memo, path)
        if isinstance(a, np.generic):
            if a.dtype != b.dtype:
                return ("npscalar:different-dtype", path)
            return None if _num_equal(np.asarray(a), np.asarray(b)) else ("npscalar:different-value", path)
        if isinstance(a, np.ufunc):
            return None if a is b else ("callable:different-object", path)
        if isinstance(a, pd.Index):
            return _index_diff(a, b, memo, path)
        if isinstance(a, pd.Series):
            if a.dtype != b.dtype and not (_fam(a.dtype) == "category" == _fam(b.dtype)):
                return ("Series:different-dtype:" + _fams(a.dtype, b.dtype), path)
            if diff(a.name, b.name, memo, path) is not None:
                return ("Series:different-name", path)
            if len(a) != len(b):
                return ("Series:different-length", path)
            r = diff(a.index, b.index, memo, path + ".index")
            if r is not None:
                return r
            return _arr_diff(a.array, b.array, memo, path + ".values")
        if isinstance(a, pd.DataFrame):
            return _df_diff(a, b, memo, path)
        if isinstance(a, pd.api.extensions.ExtensionArray):
            return _ea_diff(a, b, memo, path)
        if isinstance(a, (np.dtype, pd.api.extensions.ExtensionDtype)):
            return None if a == b else ("dtype:different", path)
    if dataclasses.is_dataclass(a) and not isinstance(a, type):
        for f in dataclasses.fields(a):
            r = diff(getattr(a, f.name), getattr(b, f.name), memo, path + "." + f.name)
            if r is not None:
                return r
        return None
    if ta is functools.partial:
        r = diff(a.func, b.func, memo, path + ".func")
        if r is not None:
            return r
        r = diff(a.args, b.args, memo, path + ".args")
        if r is not None:
            return r
        return diff(a.keywords, b.keywords, memo, path + ".keywords")
    if ta is types.FunctionType:
        return _func_diff(a, b, memo, path)
    if ta in (types.MethodType, types.MethodWrapperType, types.BuiltinFunctionType):
        sa, sb = getattr(a, "__self__", None), getattr(b, "__self__", None)
        if sa is None or isinstance(sa, types.ModuleType) or sb is None or isinstance(sb, types.ModuleType):
            return None if a is b else ("callable:different-object", path)
        if a.__name__ != b.__name__:
            return ("method:different-name", path)
        if diff(sa, sb, memo, path + ".__self__") is not None:
            return ("method:different-self", path)
        return None
    if isinstance(a, type) or ta in (types.MethodDescriptorType, types.WrapperDescriptorType):
        return None if a is b else ("callable:different-object", path)
    if hasattr(a, "__dict__"):
        return None if diff(vars(a), vars(b), memo, path) is None else ("object:different-state", path)
    return None if a is b else ("object:different-identity", path)


def observably_equal(a, b):
    return diff(a, b) is None


# --------------------------------------------------------------------------
# features of a single value (labels of the determinism facets)
# --------------------------------------------------------------------------


def feature_of(v):
    t = type(v)
    mod = t.__module__ or ""
    if mod.startswith("numpy"):
        import numpy as np

        if isinstance(v, np.ndarray):
            f = []
            if isinstance(v, np.memmap):
                f.append("memmap")
            if v.dtype.hasobject:
                f.append("object-array")
                if v.ndim:
                    return "&".join(f)       # tokenized through join / pickle: layout is not the feature
            if _has_padding(v.dtype):
                f.append("padded-struct-dtype")      # bytes that belong to no field: not observable
                return "&".join(f)
            if v.ndim == 0:
                f.append("0-d")
            elif any(s == 0 and n > 1 for s, n in zip(v.strides, v.shape)):
                f.append("broadcast-view")
            elif v.flags.c_contiguous:
                f.append("c-contiguous")
            elif v.flags.f_contiguous:
                f.append("f-contiguous")
            else:
                f.append("noncontiguous-view")
            return "&".join(f)
        if isinstance(v, np.generic):
            return "npscalar"
    if mod.startswith("pandas"):
        if t.__name__ == "DataFrame":
            f = ["DataFrame"]
            try:      # private attribute, used for the label only
                import numpy as np

                arrs = list(v._mgr.arrays)
                if len(arrs) > len({str(a.dtype) for a in arrs}):
                    f.append("unconsolidated-blocks")
                if any(isinstance(a, np.ndarray) and a.ndim == 2 and min(a.shape) > 1 and not a.flags.c_contiguous for a in arrs):
                    f.append("block-not-c-contiguous")
            except Exception:  # noqa: BLE001
                pass
            return "&".join(f)
        return t.__name__
    if dataclasses.is_dataclass(v) and not isinstance(v, type):
        return "dataclass"
    import types

    if t is types.FunctionType:
        return "lambda" if v.__name__ == "<lambda>" else "function"
    if t in (set, frozenset, dict):
        # keys / elements whose str() depends on an iteration order (dask sorts items by str(key))
        if any(_has_unordered(k) for k in v):
            return t.__name__ + ("-key" if t is dict else "-element") + "-is-unordered-container"
        if t is not frozenset and len({str(k) for k in v}) < len(v):
            return t.__name__ + "&" + ("keys" if t is dict else "elements") + "-with-equal-str"
    return t.__name__


def _has_unordered(k):
    if type(k) in (frozenset, set):
        return len(k) >= 2 or any(_has_unordered(x) for x in k)
    if type(k) is tuple:
        return any(_has_unordered(x) for x in k)
    return False


def _has_padding(dt):
    if dt.subdtype is not None:
        return _has_padding(dt.subdtype[0])
    if not dt.names:
        return False
    used = 0
    for n in dt.names:
        fdt = dt.fields[n][0]
        if _has_padding(fdt):
            return True
        used += fdt.itemsize
    return used != dt.itemsize


def children(v):
    """Immediate components of builtin containers / dataclasses / partials (for blame)."""
    t = type(v)
    if t in (list, tuple):
        return list(v)
    if t is dict:
        out = []
        for k, x in v.items():
            out.append(k)
            out.append(x)
        return out
    if dataclasses.is_dataclass(v) and not isinstance(v, type):
        return [getattr(v, f.name) for f in dataclasses.fields(v)]
    if t is functools.partial:
        return [v.func, v.args, v.keywords]
    mod = t.__module__ or ""
    if mod.startswith("numpy"):
        import numpy as np

        if isinstance(v, np.ndarray) and v.dtype.kind == "O" and v.size <= 64:
            return list(v.flat)
    if mod.startswith("pandas"):
        import pandas as pd

        if isinstance(v, pd.MultiIndex):
            return list(v.levels)
        if isinstance(v, pd.RangeIndex):
            return []
        if isinstance(v, pd.Index):
            return [v.array]
        if isinstance(v, pd.Series):
            return [v.index, v.array]
        if isinstance(v, pd.DataFrame):
            return [v.columns, v.index] + [v.iloc[:, j].array for j in range(v.shape[1])]
        if type(v) is pd.arrays.NumpyExtensionArray:
            return [v.to_numpy()]
        if isinstance(v, pd.Categorical):
            return [v.categories]
    return []


# --------------------------------------------------------------------------
# generators (descriptions only; all randomness from a random.Random)
# --------------------------------------------------------------------------

import copy as _copy

WORDS = ["a", "b", "ab", "a-b", "b-c", "c", "-", "", "x y", "é", "1", "1.0", "None", "True", "(1, 2)",
         "abc", "A", "a'b", 'a"b', "a, b", "\\n", "\n", "日本", "\ud800", "nan", "0", "[1]", "__seen"]
CONTAINERS = ("list", "tuple", "dict", "set", "frozenset")


def g_int(r):
    c = r.random()
    if c < 0.5:
        return r.randint(-3, 10)
    if c < 0.7:
        return r.randint(-10 ** 6, 10 ** 6)
    return r.choice([2 ** 31, 2 ** 63 - 1, 2 ** 63, -2 ** 63, 2 ** 64, 2 ** 64 + 1, 10 ** 30, -10 ** 30, 2 ** 100 + r.randint(0, 3)])


FLOATS = [0.0, -0.0, 1.0, 1.5, -1.5, math.nan, math.inf, -math.inf, 1e308, 5e-324, 0.1, 0.1 + 0.2, 0.3, 1e16, 2.0 ** 53, -1.0]


def g_scalar(r, hashable_only=False):
    c = r.random()
    if c < 0.25:
        return d_int(g_int(r))
    if c < 0.40:
        return d_float(r.choice(FLOATS) if r.random() < 0.8 else r.uniform(-5, 5))
    if c < 0.65:
        return d_str(r.choice(WORDS))
    if c < 0.77:
        return d_bytes(r.choice(WORDS[:12]).encode("utf8", "surrogatepass"))
    if c < 0.85:
        return ["bool", r.random() < 0.5]
    if c < 0.92:
        return ["none"]
    return d_complex(complex(r.choice(FLOATS[:8]), r.choice(FLOATS[:8])))


def _pykey(d):
    """Python value of a hashable builtin description (to avoid ==-duplicate keys)."""
    return build(d)


def g_hashable(r, depth=1):
    if depth > 0 and r.random() < 0.2:
        tag = r.choice(("tuple", "frozenset"))
        items = _uniq([g_hashable(r, depth - 1) for _ in range(r.randint(0, 3))])
        return [tag, items]
    return g_scalar(r)


def _uniq(descs):
    seen, out = [], []
    for d in descs:
        v = build(d)
        if v != v or v in seen:       # NaN keys / ==-equal keys dropped
            continue
        seen.append(v)
        out.append(d)
    return out


def g_container(r, depth=2):
    tag = r.choice(CONTAINERS if depth < 2 else ("list", "tuple", "dict", "list", "tuple", "dict", "set", "frozenset"))
    n = r.choice((0, 1, 2, 2, 3, 3, 4, 6))
    if tag in ("set", "frozenset"):
        return [tag, _uniq([g_hashable(r) for _ in range(n)])]
    if tag == "dict":
        keys = _uniq([g_hashable(r) for _ in range(n)])
        return ["dict", [[k, g_value(r, depth - 1)] for k in keys]]
    return [tag, [g_value(r, depth - 1) for _ in range(n)]]


def g_value(r, depth=2):
    """Nested builtin value."""
    if depth <= 0 or r.random() < 0.45:
        return g_scalar(r)
    return g_container(r, depth)


def mutate_scalar(d, r):
    tag = d[0]
    if tag == "int":
        n = int(d[1])
        opts = [d_int(n + 1), d_int(n - 1), d_int(-n - 1), d_int(n + 2 ** 64), d_float(float(n)) if abs(n) < 2 ** 53 else d_int(n * 2),
                d_str(str(n)), d_complex(complex(n, 0)) if abs(n) < 2 ** 53 else d_int(n + 7)]
        if n in (0, 1):
            opts.append(["bool", bool(n)])
        return r.choice(opts)
    if tag == "bool":
        return r.choice([["bool", not d[1]], d_int(int(d[1])), d_float(float(d[1])), d_str(str(d[1]))])
    if tag == "float":
        x = _fl(d[1])
        opts = [d_float(-x) if x == x else d_float(0.0), d_str(repr(x)), d_complex(complex(x, 0.0))]
        if x == x and abs(x) != math.inf:
            opts += [d_float(math.nextafter(x, math.inf)), d_float(x + 1.0)]
            if x == int(x) and abs(x) < 2 ** 53:
                opts.append(d_int(int(x)))
        else:
            opts += [d_float(math.inf), d_float(math.nan), d_float(-math.inf), ["none"]]
        return r.choice(opts)
    if tag == "complex":
        z = complex(_fl(d[1]), _fl(d[2]))
        return r.choice([d_complex(complex(z.imag, z.real)), d_complex(z.conjugate()), d_float(z.real), d_complex(z + 1)])
    if tag == "str":
        s = d[1]
        return r.choice([d_str(s + "a"), d_str(s[:-1] if s else "x"), d_str(s.swapcase() if s.swapcase() != s else s + " "),
                         d_bytes(s.encode("utf8", "surrogatepass")), d_str(s + " "), d_str(s.replace("-", "_") if "-" in s else "-" + s),
                         ["list", [d_str(c) for c in s]]])
    if tag == "bytes":
        b = bytes.fromhex(d[1])
        return r.choice([d_bytes(b + b"a"), d_bytes(b[:-1] if b else b"x"), d_str(b.decode("latin1")), d_bytes(b + b"\0")])
    if tag == "none":
        return r.choice([["bool", False], d_str("None"), d_int(0), d_float(math.nan), ["tuple", []]])
    return None


def mutate_builtin(d, r, top=True):
    """One structural or leaf change somewhere in a builtin description."""
    d = _copy.deepcopy(d)
    tag = d[0]
    if tag not in CONTAINERS:
        return mutate_scalar(d, r) or d
    items = d[1]
    if items and r.random() < 0.65:
        i = r.randrange(len(items))
        if tag == "dict":
            j = r.randrange(2)
            if j == 0:   # keys must stay hashable: only scalar mutations
                m = mutate_scalar(items[i][0], r) if items[i][0][0] not in CONTAINERS else ["tuple", [items[i][0]]]
                if m is not None and m[0] != "list":
                    items[i][0] = m
            else:
                items[i][1] = mutate_builtin(items[i][1], r, False)
        elif tag in ("set", "frozenset"):
            m = mutate_scalar(items[i], r) if items[i][0] not in CONTAINERS else ["tuple", [items[i]]]
            if m is not None and m[0] != "list":
                items[i] = m
            else:
                items[i] = d_int(r.randint(100, 200))
        else:
            items[i] = mutate_builtin(items[i], r, False)
        return d
    c = r.random()
    if tag in ("list", "tuple"):
        if c < 0.3:
            return ["tuple" if tag == "list" else "list", items]
        if c < 0.45 and items:
            del items[r.randrange(len(items))]
        elif c < 0.6:
            items.insert(r.randint(0, len(items)), g_scalar(r))
        elif c < 0.75 and len(items) >= 2:
            i, j = r.sample(range(len(items)), 2)
            items[i], items[j] = items[j], items[i]
        elif c < 0.85:
            return [tag, [[tag, items]]]                       # [x, y] -> [[x, y]]
        elif c < 0.93 and len(items) >= 2:
            k = r.randint(1, len(items) - 1)
            return [tag, [[tag, items[:k]], [tag, items[k:]]]]  # regroup
        else:
            return ["dict", [[d_int(i), x] for i, x in enumerate(items)]]
        return d
    if tag == "dict":
        if c < 0.25 and items:
            del items[r.randrange(len(items))]
        elif c < 0.5:
            k = d_str("k%d" % r.randint(0, 99))
            items.append([k, g_scalar(r)])
        elif c < 0.8 and len(items) >= 2:
            i, j = r.sample(range(len(items)), 2)
            items[i][1], items[j][1] = items[j][1], items[i][1]
        else:
            return ["list", [["tuple", [k, v]] for k, v in items]]
        return d
    if c < 0.3:
        return ["frozenset" if tag == "set" else "set", items]
    if c < 0.5 and items:
        del items[r.randrange(len(items))]
    elif c < 0.8:
        items.append(d_int(r.randint(100, 200)))
    else:
        return ["tuple", items]
    return d


def g_recursive(r):
    """A list/dict structure with back references ["ref", k] to an enclosing list/dict."""
    def node(depth, nmut):
        n = r.randint(1, 3)
        items = []
        for _ in range(n):
            c = r.random()
            if c < 0.3 and nmut > 0:
                items.append(["ref", r.randrange(nmut)])
            elif c < 0.6 and depth > 0:
                items.append(node(depth - 1, nmut + 1))
            elif c < 0.7 and depth > 0:
                # a tuple in between does not count as a ref target
                items.append(["tuple", [["ref", r.randrange(nmut)] if nmut else d_int(0), g_scalar(r)]])
            else:
                items.append(d_int(r.randint(0, 3)))
        if r.random() < 0.3:
            return ["dict", [[d_str("k%d" % i), x] for i, x in enumerate(items)]]
        return ["list", items]
    d = node(2, 1)
    if not _has_ref(d):
        d[1].append(["ref", 0] if d[0] == "list" else [d_str("self"), ["ref", 0]])
    return d


def _has_ref(d):
    if d[0] == "ref":
        return True
    if d[0] in ("list", "tuple"):
        return any(_has_ref(x) for x in d[1])
    if d[0] == "dict":
        return any(_has_ref(v) for _, v in d[1])
    return False


def mutate_recursive(d, r):
    d = _copy.deepcopy(d)
    nodes = []

    def walk(x, nmut):
        if x[0] in ("list", "tuple"):
            inner = nmut + (1 if x[0] == "list" else 0)
            for i, y in enumerate(x[1]):
                nodes.append((x[1], i, inner))
                walk(y, inner)
        elif x[0] == "dict":
            for kv in x[1]:
                nodes.append((kv, 1, nmut + 1))
                walk(kv[1], nmut + 1)
    walk(d, 0)
    r.shuffle(nodes)
    for holder, i, nmut in nodes:
        x = holder[i]
        if x[0] == "ref" and nmut > 1:
            holder[i] = ["ref", (x[1] + 1) % nmut]
            return d
        if x[0] == "int":
            holder[i] = d_int(int(x[1]) + 1) if r.random() < 0.7 or nmut == 0 else ["ref", r.randrange(nmut)]
            return d
    return ["list", [d]]


# ---- numpy -----------------------------------------------------------------

ND_DTYPES = ["<i8", "<i8", "<i4", "<i2", "|i1", "<u8", "|u1", "<f8", "<f8", "<f4", "<f2", "<c16", "|b1", "<U3", "|S2",
             "<M8[ns]", "<M8[D]", "<m8[ns]", ">i4", ">f8", [["a", "<i4"], ["b", "<f8"]]]
MM_DTYPES = ["<i8", "<i4", "|u1", "<f8", "<f4", "|b1", "<c16"]
SHAPES = [[3], [4], [6], [1], [0], [2, 3], [3, 2], [2, 2], [1, 4], [4, 1], [2, 3, 2], [2, 2, 2], [3, 1, 2], [2, 0], [12], [2, 6], [4, 3]]


def _kind(dts):
    return "V" if isinstance(dts, list) else dts[1]


def _isz(dts):
    return int("".join(ch for ch in dts[2:] if ch.isdigit()) or 1) if not isinstance(dts, list) else 0


def g_elem(r, dts, mode="small"):
    k = _kind(dts)
    if k == "V":
        return [g_elem(r, t, mode) for _, t in dts]
    if k in "iu":
        bits = 8 * _isz(dts)
        if mode == "small" or r.random() < 0.8:
            lo = 0 if k == "u" else -2
            return r.randint(lo, 4)
        return r.choice([2 ** (bits - 1) - 1, 0 if k == "u" else -2 ** (bits - 1), 2 ** bits - 1 if k == "u" else 100])
    if k == "f":
        return r.choice([0.0, -0.0, 1.0, 2.0, -1.0, 0.5, "nan", "inf", 0.25, 3.0, 4.0, 1024.0])
    if k == "c":
        return [r.choice([0.0, 1.0, -1.0, "nan", 0.5]), r.choice([0.0, 1.0, -0.0, 2.0])]
    if k == "b":
        return r.random() < 0.5
    if k == "U":
        return r.choice(["", "a", "b", "ab", "abc", "é", "a-b", "-"])
    if k == "S":
        return r.choice([b"", b"a", b"ab", b"b", b"-", b"a-"]).hex()
    if k in "Mm":
        return r.choice([0, 1, 2, 86400 * 10 ** 9, -1, "NaT", 10 ** 18, 3])
    raise ValueError(dts)


def _prod(shape):
    n = 1
    for s in shape:
        n *= s
    return n


def g_layout(r, shape, allow_neg=True):
    nd = len(shape)
    if nd == 0:
        return None
    c = r.random()
    if c < 0.3:
        return None
    perm = list(range(nd))
    steps = [1] * nd
    pre = [0] * nd
    if c < 0.5:
        perm.reverse()                       # F order
    elif c < 0.6:
        r.shuffle(perm)
    elif c < 0.75:
        steps = [r.choice((1, 2, 3)) for _ in range(nd)]
        pre = [r.choice((0, 1)) for _ in range(nd)]
    elif c < 0.87 and allow_neg:
        steps = [r.choice((1, -1, -1, -2)) for _ in range(nd)]
    else:
        r.shuffle(perm)
        steps = [r.choice((1, 2, -1) if allow_neg else (1, 2)) for _ in range(nd)]
        pre = [r.choice((0, 0, 2)) for _ in range(nd)]
    return {"perm": perm, "steps": steps, "pre": pre}


def g_nd(r, dts=None, shape=None, mm=None):
    if mm is None:
        mm = r.random() < 0.12
    if dts is None:
        dts = r.choice(MM_DTYPES if mm else ND_DTYPES)
    if shape is None:
        shape = list(r.choice(SHAPES))
    if mm and _prod(shape) == 0:
        shape = [2, 3]
    mode = r.choice(("small", "small", "wide"))
    vals = [g_elem(r, dts, mode) for _ in range(_prod(shape))]
    if r.random() < 0.15 and _kind(dts) in "iu":
        vals = list(range(len(vals)))
    p = {"dt": dts, "shape": shape, "vals": vals, "lay": g_layout(r, shape), "mm": mm}
    if not mm and r.random() < 0.08 and len(shape) <= 2:
        # broadcast view: a new leading axis or a stretched length-1 axis
        p["bc"] = [r.choice((2, 3))] + shape
    return ["nd", p]


def g_nd0(r):
    dts = r.choice(["<i8", "<i4", "<f8", "<f4", "<c16", "|b1", "<U3", "|S2", "<M8[ns]", "<m8[ns]", "|u1"])
    return ["nd", {"dt": dts, "shape": [], "vals": [g_elem(r, dts, "wide")], "lay": None, "mm": False}]


DT_SAMEVALS = {"<i8": ["<i4", "<u8", "<f8", "<i2", ">i8"], "<i4": ["<i8", "<f4", ">i4", "<u4"], "<i2": ["<i4", "<u2"], "|i1": ["|u1", "<i2"],
               "<u8": ["<i8", "<u4"], "|u1": ["|i1", "<u2", "|b1"], "<f8": ["<f4", ">f8", "<c16"], "<f4": ["<f8", "<f2"], "<f2": ["<f4"],
               "<c16": ["<c8"], "|b1": ["|u1", "|i1"], "<U3": ["<U4", ">U3"], "|S2": ["|S3"], "<M8[ns]": ["<M8[us]", "<m8[ns]", "<i8"],
               "<M8[D]": ["<M8[ns]", "<m8[D]"], "<m8[ns]": ["<M8[ns]", "<m8[us]", "<i8"], ">i4": ["<i4"], ">f8": ["<f8"]}


def _mut_elem(old, dts, r):
    for _ in range(20):
        new = g_elem(r, dts, "small")
        if new != old:
            return new
    return old


def mutate_nd(d, r):
    """(new description, expectation) for one change of an array description."""
    p = _copy.deepcopy(d[1])
    dts, shape, n = p["dt"], p["shape"], len(p["vals"])
    c = r.random()
    if c < 0.35 and n:
        i = r.randrange(n)
        p["vals"][i] = _mut_elem(p["vals"][i], dts, r)
        return ["nd", p], "diff"
    if c < 0.55 and not isinstance(dts, list) and dts in DT_SAMEVALS:
        new = r.choice(DT_SAMEVALS[dts])
        k, k2 = _kind(dts), _kind(new)
        vals = p["vals"]
        if k2 == "u" and k == "i":
            vals = [abs(v) for v in vals]
            p2 = dict(p, vals=vals)
            if vals != p["vals"]:
                p = p2
        if k == "b":
            vals = [int(v) for v in vals]
        if k2 == "b":
            vals = [bool(v % 2) for v in vals]
        if k in "iu" and k2 in "iu":
            bits = 8 * _isz(new)
            lo, hi = (0, 2 ** bits - 1) if k2 == "u" else (-2 ** (bits - 1), 2 ** (bits - 1) - 1)
            vals = [min(max(v, lo), hi) for v in vals]
        if k in "Mm" and k2 == "i":
            vals = [-2 ** 63 if v == "NaT" else v for v in vals]
        if k == "f" and k2 == "c":
            vals = [[v, 0.0] for v in vals]
        p["vals"], p["dt"] = vals, new
        if p.get("mm") and new not in MM_DTYPES:
            p["mm"] = False
        return ["nd", p], "diff"
    if c < 0.75 and n:
        # same data, other shape
        opts = [[n], [1, n], [n, 1]] + [[a, n // a] for a in range(2, n) if n % a == 0] + [shape + [1], [1] + shape]
        opts = [s for s in opts if s != shape]
        p["shape"] = r.choice(opts)
        p["lay"] = g_layout(r, p["shape"]) if r.random() < 0.5 else None
        p.pop("bc", None)
        return ["nd", p], "diff"
    if c < 0.85 and not p.get("mm") and _kind(dts) not in "V" and len(shape) >= 1:
        p["mm"] = dts in MM_DTYPES and n > 0 and not p.get("bc")
        if p["mm"]:
            return ["nd", p], "diff"       # memmap vs ndarray: another type
    # layout only
    p["lay"] = g_layout(r, shape)
    return ["nd", p], "layout"


def _perm_index(shape, lay):
    """C-order logical index -> position in the K-order (memory order) sequence,
    for a layout given by perm (slowest axis first) and the sign of the steps."""
    import numpy as np

    nd = len(shape)
    perm = (lay or {}).get("perm") or list(range(nd))
    steps = (lay or {}).get("steps") or [1] * nd
    base = np.arange(_prod(shape)).reshape([shape[a] for a in perm])
    view = base.transpose([perm.index(i) for i in range(nd)])
    for ax, s in enumerate(steps):
        if s < 0:
            view = np.flip(view, axis=ax)
    return view.ravel().tolist()


def g_samebuf_pair(r):
    """Two arrays of the same dtype whose memory buffers hold the same byte
    sequence B, laid out differently (so their logical contents differ)."""
    dts = r.choice(["<i8", "<i8", "<i4", "<f8", "|u1", "<c16", "<U3", "<M8[ns]", "|b1", "<f4"])
    shape = list(r.choice([[2, 3], [3, 2], [2, 2], [3, 3], [2, 3, 2], [2, 2, 2], [4, 3], [3, 1, 2], [2, 2, 3]]))
    n = _prod(shape)
    B = list(range(n)) if _kind(dts) in "iu" and r.random() < 0.5 else [g_elem(r, dts, "small") for _ in range(n)]
    nd = len(shape)

    def lay(kind):
        perm = list(range(nd))
        steps, pre = [1] * nd, [0] * nd
        if kind == "F":
            perm.reverse()
        elif kind == "perm":
            while perm == list(range(nd)):
                r.shuffle(perm)
        elif kind == "Fstrided":
            perm.reverse()
            steps = [r.choice((1, 2)) for _ in range(nd)]
        elif kind == "Cstrided":
            steps = [r.choice((1, 2)) for _ in range(nd)]
            pre = [r.choice((0, 1)) for _ in range(nd)]
        elif kind == "neg":
            steps = [r.choice((1, -1)) for _ in range(nd)]
            if all(s == 1 for s in steps):
                steps[0] = -1
        elif kind == "negF":
            perm.reverse()
            steps = [r.choice((1, -1)) for _ in range(nd)]
        return None if kind == "C" else {"perm": perm, "steps": steps, "pre": pre}

    ka = r.choice(("C", "C", "C", "Cstrided", "F"))
    kb = r.choice(("F", "F", "perm", "Fstrided", "neg", "negF") if ka != "F" else ("C", "perm", "Cstrided"))
    out = []
    for k in (ka, kb):
        L = lay(k)
        idx = _perm_index(shape, L)
        out.append(["nd", {"dt": dts, "shape": shape, "vals": [B[j] for j in idx], "lay": L, "mm": False}])
    if r.random() < 0.15:
        # same bytes seen through another shape as well
        s2 = list(reversed(shape))
        if s2 != shape:
            out[1] = ["nd", {"dt": dts, "shape": s2, "vals": B, "lay": None, "mm": False}]
    return out[0], out[1]


def g_viewdtype_pair(r):
    """Same bytes, another dtype of the same item size."""
    import numpy as np

    a, b = r.choice([("<i8", "<f8"), ("<i8", "<u8"), ("<i8", "<M8[ns]"), ("<i8", "<m8[ns]"), ("<i4", "<f4"), ("<i4", "<u4"),
                     ("|i1", "|u1"), ("|u1", "|b1"), ("<f8", "<c8"), ("<i8", "<c8"), ("|S2", "<i2")])
    shape = list(r.choice([[3], [2, 2], [4]]))
    vals = [g_elem(r, a, "small") for _ in range(_prod(shape))]
    if b == "|b1":
        vals = [v % 2 for v in vals]
    A = _logical(vals, np.dtype(a), tuple(shape), [])
    try:
        Bv = np.ascontiguousarray(A).view(np.dtype(b))
    except (ValueError, TypeError):
        return None
    mm = r.random() < 0.3 and a in MM_DTYPES and b in MM_DTYPES
    return (["nd", {"dt": a, "shape": shape, "vals": vals, "lay": None, "mm": mm}],
            ["nd", {"dt": b, "shape": list(Bv.shape), "vals": jvals(Bv), "lay": None, "mm": mm}])


def _jf(x):
    x = float(x)
    if x != x:
        return "nan"
    if x in (math.inf, -math.inf):
        return "inf" if x > 0 else "-inf"
    return x


def jvals(a):
    """Flat C-order JSON values of a typed (non-object) ndarray."""
    import numpy as np

    k = a.dtype.kind
    flat = np.ascontiguousarray(a).ravel()
    if k in "iu":
        return [int(x) for x in flat]
    if k == "b":
        return [bool(x) for x in flat]
    if k == "f":
        return [_jf(x) for x in flat]
    if k == "c":
        return [[_jf(x.real), _jf(x.imag)] for x in flat]
    if k == "U":
        return [str(x) for x in flat]
    if k == "S":
        return [bytes(x).hex() for x in flat]
    if k in "Mm":
        iv = flat.view("i8")
        nat = np.iinfo(np.int64).min
        return ["NaT" if x == nat else int(x) for x in iv]
    raise TypeError(a.dtype)


# ---- object arrays -----------------------------------------------------------

def g_join_lists(r, k=None, sep="-"):
    """Two different lists of k strings whose sep-joined strings coincide."""
    k = k or r.choice((2, 2, 3, 4))
    m = k + r.randint(1, 3)
    for _ in range(50):
        toks = [r.choice(["a", "b", "c", "ab", "", "x", "yz", "1", "d"]) for _ in range(m)]
        cuts1 = sorted(r.sample(range(1, m), k - 1))
        cuts2 = sorted(r.sample(range(1, m), k - 1))
        if cuts1 == cuts2:
            continue

        def split(cuts):
            out, prev = [], 0
            for c in cuts + [m]:
                out.append(sep.join(toks[prev:c]))
                prev = c
            return out
        A, B = split(cuts1), split(cuts2)
        if A != B and len(set(A)) == k and len(set(B)) == k:
            return A, B
    return ["a-b", "c"], ["a", "b-c"]


def g_objelem(r):
    c = r.random()
    if c < 0.35:
        return d_str(r.choice(WORDS))
    if c < 0.5:
        return d_int(r.randint(-2, 5))
    if c < 0.6:
        return ["none"]
    if c < 0.7:
        return d_float(r.choice(FLOATS[:8]))
    if c < 0.8:
        return d_bytes(r.choice([b"a", b"b", b"a-b", b""]))
    if c < 0.9:
        return ["tuple", [d_int(r.randint(0, 2)), d_str(r.choice("abc"))]]
    return ["bool", r.random() < 0.5]


def g_objarr(r, homogeneous=None):
    shape = list(r.choice([[2], [3], [4], [2, 2], [1], [2, 3]]))
    n = _prod(shape)
    h = r.random() < 0.5 if homogeneous is None else homogeneous
    if h:
        vals = [d_str(r.choice(WORDS)) for _ in range(n)] if r.random() < 0.75 else [d_bytes(r.choice([b"a", b"ab", b"a-b", b"c", b""])) for _ in range(n)]
    else:
        vals = [g_objelem(r) for _ in range(n)]
    return ["nd", {"dt": "|O", "shape": shape, "vals": vals, "lay": g_layout(r, shape) if r.random() < 0.3 else None, "mm": False}]


def mutate_objarr(d, r):
    p = _copy.deepcopy(d[1])
    n = len(p["vals"])
    c = r.random()
    if c < 0.7 and n:
        i = r.randrange(n)
        old = p["vals"][i]
        new = mutate_scalar(old, r) if old[0] not in CONTAINERS else ["tuple", old[1] + [d_int(0)]]
        p["vals"][i] = new if new is not None else d_int(99)
        return ["nd", p], "diff"
    if c < 0.85 and n >= 2:
        i, j = r.sample(range(n), 2)
        p["vals"][i], p["vals"][j] = p["vals"][j], p["vals"][i]
        return ["nd", p], "diff"
    if n:
        p["shape"] = r.choice([s for s in ([n], [1, n], [n, 1]) if s != p["shape"]])
        p["lay"] = None
        return ["nd", p], "diff"
    return ["nd", p], "layout"


def nd_str(words, dt="|O"):
    return ["nd", {"dt": dt, "shape": [len(words)], "vals": [d_str(w) for w in words], "lay": None, "mm": False}]


# ---- pandas ------------------------------------------------------------------

EXT_INT = ["Int64", "Int32", "Int8", "UInt8", "UInt64"]


def _nd1(dts, vals):
    return ["nd", {"dt": dts, "shape": [len(vals)], "vals": vals, "lay": None, "mm": False}]


def g_data1d(r, n, kinds=None):
    """1-D data for a Series / column / Index: numpy, nullable, string, categorical, datetime."""
    k = r.choice(kinds or ("i8", "i8", "f8", "b1", "M8", "m8", "obj-str", "obj-mixed", "Int", "Float", "boolean", "string", "str", "cat", "dttz", "U"))
    na = (lambda: r.random() < 0.2)
    if k == "i8":
        return _nd1(r.choice(["<i8", "<i8", "<i4", "|u1"]), [r.randint(0, 4) for _ in range(n)])
    if k == "f8":
        return _nd1(r.choice(["<f8", "<f8", "<f4"]), [g_elem(r, "<f8") for _ in range(n)])
    if k == "b1":
        return _nd1("|b1", [r.random() < 0.5 for _ in range(n)])
    if k == "M8":
        return _nd1(r.choice(["<M8[ns]", "<M8[us]", "<M8[s]"]), [g_elem(r, "<M8[ns]") for _ in range(n)])
    if k == "m8":
        return _nd1("<m8[ns]", [g_elem(r, "<m8[ns]") for _ in range(n)])
    if k == "U":
        return _nd1("<U3", [g_elem(r, "<U3") for _ in range(n)])
    if k == "obj-str":
        return ["nd", {"dt": "|O", "shape": [n], "vals": [d_str(r.choice(WORDS[:20])) for _ in range(n)], "lay": None, "mm": False}]
    if k == "obj-mixed":
        return ["nd", {"dt": "|O", "shape": [n], "vals": [g_objelem(r) for _ in range(n)], "lay": None, "mm": False}]
    if k == "Int":
        if r.random() < 0.2:       # integers that float64 cannot tell apart
            return ["pdarray", {"dtype": r.choice(["Int64", "UInt64"]), "vals": [None if r.random() < 0.4 else 2 ** 53 + 2 * r.randint(0, 3) for _ in range(n)]}]
        return ["pdarray", {"dtype": r.choice(EXT_INT), "vals": [None if na() else r.randint(0, 4) for _ in range(n)]}]
    if k == "Float":
        return ["pdarray", {"dtype": r.choice(["Float64", "Float32"]), "vals": [None if na() else r.choice([0.0, 1.0, 2.0, 0.5, 3.0]) for _ in range(n)]}]
    if k == "boolean":
        return ["pdarray", {"dtype": "boolean", "vals": [None if na() else r.random() < 0.5 for _ in range(n)]}]
    if k in ("string", "str"):
        return ["pdarray", {"dtype": k, "vals": [None if na() else r.choice(WORDS[:20]) for _ in range(n)]}]
    if k == "cat":
        cats = r.sample(["a", "b", "c", "a-b", "d", "b-c"], r.randint(1, 4))
        if r.random() < 0.3:
            cdesc = [d_int(i) for i in range(len(cats))]
        else:
            cdesc = [d_str(c) for c in cats]
        return ["cat", {"vals": [None if na() else r.choice(cdesc) for _ in range(n)], "cats": cdesc, "ordered": r.random() < 0.3}]
    if k == "dttz":
        return ["pdarray", {"dtype": "datetime64", "unit": "ns", "tz": r.choice(["UTC", "Europe/London", "US/Eastern"]),
                            "vals": [None if na() else r.choice([0, 10 ** 9, 86400 * 10 ** 9, 10 ** 18]) for _ in range(n)]}]
    raise ValueError(k)


def mutate_data1d(d, r):
    """(new data description, expectation)."""
    d = _copy.deepcopy(d)
    tag, p = d
    if tag == "nd":
        if p["dt"] == "|O":
            n = len(p["vals"])
            c = r.random()
            if c < 0.6 and n:
                i = r.randrange(n)
                m = mutate_scalar(p["vals"][i], r) if p["vals"][i][0] not in CONTAINERS else d_int(7)
                p["vals"][i] = m if m is not None and m[0] != "list" else d_int(7)
                return d, "diff"
            if all(v[0] == "str" for v in p["vals"]):
                return ["pdarray", {"dtype": r.choice(["str", "string"]), "vals": [v[1] for v in p["vals"]]}], "diff"
            return d, "layout"
        c = r.random()
        n = len(p["vals"])
        if c < 0.55 and n:
            i = r.randrange(n)
            p["vals"][i] = _mut_elem(p["vals"][i], p["dt"], r)
            return d, "diff"
        k = _kind(p["dt"])
        if k in "iu":
            new = r.choice(["Int64", "Int32", "f8", "i-other"])
            if new == "f8":
                return _nd1("<f8", [float(v) for v in p["vals"]]), "diff"
            if new == "i-other":
                return _nd1("<i4" if p["dt"] != "<i4" else "<i8", p["vals"]), "diff"
            return ["pdarray", {"dtype": new, "vals": p["vals"]}], "diff"
        if k == "f":
            if all(isinstance(v, float) and v == int(v) and v >= 0 for v in p["vals"]) and r.random() < 0.5:
                return _nd1("<i8", [int(v) for v in p["vals"]]), "diff"
            return ["pdarray", {"dtype": "Float64", "vals": [None if v == "nan" else v for v in p["vals"]]}], "diff"
        if k == "b":
            return ["pdarray", {"dtype": "boolean", "vals": p["vals"]}], "diff"
        if k == "M":
            if r.random() < 0.5:
                return _nd1("<m8[ns]", p["vals"]), "diff"
            return ["pdarray", {"dtype": "datetime64", "unit": "ns", "tz": "UTC", "vals": [None if v == "NaT" else v for v in p["vals"]]}], "diff"
        if k == "m":
            return _nd1("<M8[ns]", p["vals"]), "diff"
        if k == "U":
            return ["nd", {"dt": "|O", "shape": [n], "vals": [d_str(v) for v in p["vals"]], "lay": None, "mm": False}], "diff"
        return d, "layout"
    if tag == "pdarray":
        vals = p["vals"]
        n = len(vals)
        c = r.random()
        dt = p["dtype"]
        if c < 0.35 and n:
            i = r.randrange(n)
            if vals[i] is None:
                vals[i] = {"boolean": True, "string": "a", "str": "a", "datetime64": 5}.get(dt, 1 if dt[0] in "IU" else 1.0)
            elif r.random() < 0.35:
                vals[i] = None
            elif dt == "boolean":
                vals[i] = not vals[i]
            elif dt in ("string", "str"):
                vals[i] = vals[i] + "x"
            else:
                vals[i] = vals[i] + 1
            return d, "diff"
        if dt in EXT_INT and any(v is not None and v > 255 for v in vals):
            p["dtype"] = "UInt64" if dt == "Int64" else "Int64"
            return d, "diff"
        if dt in EXT_INT:
            p["dtype"] = r.choice([x for x in EXT_INT + ["Float64"] if x != dt])
            if p["dtype"] == "Float64":
                p["vals"] = [None if v is None else float(v) for v in vals]
            return d, "diff"
        if dt in ("Float64", "Float32"):
            c2 = r.random()
            if c2 < 0.4:
                p["dtype"] = "Float32" if dt == "Float64" else "Float64"
            elif c2 < 0.7:
                return _nd1("<f8", ["nan" if v is None else v for v in vals]), "diff"
            else:
                p["dtype"], p["vals"] = "Int64", [None if v is None else int(v) for v in vals]
                if any(v is not None and v != int(v) for v in vals):
                    p["dtype"], p["vals"] = "Float32", vals
            return d, "diff"
        if dt == "boolean":
            if any(v is None for v in vals):
                return ["nd", {"dt": "|O", "shape": [n], "vals": [["na"] if v is None else ["bool", v] for v in vals], "lay": None, "mm": False}], "diff"
            return _nd1("|b1", vals), "diff"
        if dt in ("string", "str"):
            c2 = r.random()
            if c2 < 0.5:
                p["dtype"] = "str" if dt == "string" else "string"
                return d, "diff"
            na = ["na"] if dt == "string" else d_float(math.nan)
            return ["nd", {"dt": "|O", "shape": [n], "vals": [na if v is None else d_str(v) for v in vals], "lay": None, "mm": False}], "diff"
        if dt == "datetime64":
            p["tz"] = r.choice([t for t in ("UTC", "Europe/London", "US/Eastern", None) if t != p.get("tz")])
            return d, "diff"
        return d, "layout"
    if tag == "cat":
        c = r.random()
        n = len(p["vals"])
        if c < 0.3 and n:
            i = r.randrange(n)
            others = [x for x in p["cats"] + [None] if x != p["vals"][i]]
            if others:
                p["vals"][i] = r.choice(others)
            return d, "diff"
        if c < 0.5:
            p["ordered"] = not p.get("ordered")
            return d, "diff"
        if c < 0.7:
            p["cats"] = p["cats"] + [d_str("zz") if p["cats"][0][0] == "str" else d_int(99)]
            return d, "diff"
        if c < 0.9 and len(p["cats"]) >= 2:
            p["cats"] = p["cats"][1:] + p["cats"][:1]        # other category order (codes change)
            return d, "diff"
        # categorical -> plain values
        if all(v is not None for v in p["vals"]) and n:
            if p["cats"][0][0] == "str":
                return ["nd", {"dt": "|O", "shape": [n], "vals": p["vals"], "lay": None, "mm": False}], "diff"
            return _nd1("<i8", [int(v[1]) for v in p["vals"]]), "diff"
        p["ordered"] = not p.get("ordered")
        return d, "diff"
    return d, "layout"


NAMES = [None, d_str("a"), d_str("b"), d_str("x"), d_int(0), d_int(1), d_str("0"), d_str("a-b"), ["tuple", [d_str("a"), d_int(1)]], d_str("")]


def g_name(r):
    return r.choice(NAMES)


def _other_name(n, r):
    return r.choice([x for x in NAMES if x != n])


def g_index(r, n, allow_range=True):
    c = r.random()
    if c < 0.2 and allow_range:
        start = r.choice((0, 0, 1, -1))
        step = r.choice((1, 1, 2))
        return ["rangeindex", start, start + n * step, step, g_name(r)]
    if c < 0.3:
        return g_mi(r, n)
    data = g_data1d(r, n, ("i8", "f8", "obj-str", "obj-mixed", "M8", "m8", "Int", "string", "str", "cat", "dttz", "b1", "U"))
    return ["index", {"data": data, "name": g_name(r)}]


def g_mi(r, n):
    nl = r.choice((2, 2, 3))
    arrays = []
    for _ in range(nl):
        if r.random() < 0.5:
            arrays.append(["list", [d_int(r.randint(0, 2)) for _ in range(n)]])
        else:
            arrays.append(["list", [d_str(r.choice(["a", "b", "a-b", "c"])) for _ in range(n)]])
    return ["mi", {"arrays": arrays, "names": [g_name(r) for _ in range(nl)]}]


def mutate_index(d, r):
    d = _copy.deepcopy(d)
    tag = d[0]
    c = r.random()
    if tag == "rangeindex":
        if c < 0.35:
            d[4] = _other_name(d[4], r)
            return d, "diff"
        if c < 0.6:
            d[1] += 1
            d[2] += 1
            return d, "diff"
        if c < 0.7 and d[2] - d[1] >= 2 * d[3]:
            n = len(range(d[1], d[2], d[3]))
            d[3] += 1
            d[2] = d[1] + n * d[3]          # same length, other step
            return d, "diff"
        vals = list(range(d[1], d[2], d[3]))
        return ["index", {"data": _nd1("<i8", vals), "name": d[4]}], "diff"     # RangeIndex vs Index: class
    if tag == "mi":
        p = d[1]
        if c < 0.3:
            i = r.randrange(len(p["names"]))
            p["names"][i] = _other_name(p["names"][i], r)
            return d, "diff"
        if c < 0.7 and p["arrays"][0][1]:
            a = r.choice(p["arrays"])[1]
            i = r.randrange(len(a))
            a[i] = mutate_scalar(a[i], r) if r.random() < 0.3 else (d_int(int(a[i][1]) + 1) if a[i][0] == "int" else d_str(a[i][1] + "x"))
            if a[i] is None or a[i][0] in CONTAINERS:
                a[i] = d_int(9)
            return d, "diff"
        p["arrays"] = p["arrays"][1:] + p["arrays"][:1]
        p["names"] = p["names"][1:] + p["names"][:1]
        return d, "diff"
    p = d[1]
    if c < 0.3:
        p["name"] = _other_name(p.get("name"), r)
        return d, "diff"
    p["data"], e = mutate_data1d(p["data"], r)
    return d, e


def g_series(r):
    n = r.choice((0, 1, 2, 3, 3, 4, 5))
    p = {"data": g_data1d(r, n), "index": g_index(r, n) if r.random() < 0.6 else None, "name": g_name(r)}
    if r.random() < 0.15 and n >= 2:
        p["slice"] = r.choice([[None, None, 2], [None, None, -1], [1, None, None]])
    return ["series", p]


def mutate_series(d, r):
    d = _copy.deepcopy(d)
    p = d[1]
    c = r.random()
    if c < 0.2:
        p["name"] = _other_name(p.get("name"), r)
        return d, "diff"
    if c < 0.5:
        n = len(p["data"][1]["vals"])
        if p.get("index") is None:
            p["index"] = r.choice([["rangeindex", 1, 1 + n, 1, None], ["rangeindex", 0, n, 1, d_str("i")],
                                   ["index", {"data": _nd1("<i8", list(range(n))), "name": None}]])
            return d, "diff"
        p["index"], e = mutate_index(p["index"], r)
        return d, e
    p["data"], e = mutate_data1d(p["data"], r)
    return d, e


def g_df(r):
    n = r.choice((0, 1, 2, 2, 3, 4))
    k = r.choice((1, 2, 2, 3, 4))
    names = r.sample([d_str("a"), d_str("b"), d_str("c"), d_str("a-b"), d_int(0), d_int(1), d_str("0"), d_str("d")], k)
    p = {"dict": [[nm, g_data1d(r, n)] for nm in names], "index": g_index(r, n) if r.random() < 0.5 else None}
    if r.random() < 0.2:
        p["colname"] = r.choice([d_str("cols"), d_int(0)])
    if r.random() < 0.15 and n >= 2:
        p["slice"] = r.choice([[None, None, 2], [None, None, -1], [1, None, None]])
    return ["df", p]


def mutate_df(d, r):
    d = _copy.deepcopy(d)
    p = d[1]
    c = r.random()
    cols = p["dict"]
    if c < 0.4:
        j = r.randrange(len(cols))
        cols[j][1], e = mutate_data1d(cols[j][1], r)
        return d, e
    if c < 0.5:
        j = r.randrange(len(cols))
        cols[j][0] = d_str("zz") if cols[j][0] != d_str("zz") else d_str("yy")
        return d, "diff"
    if c < 0.65 and len(cols) >= 2:
        i, j = r.sample(range(len(cols)), 2)
        cols[i][1], cols[j][1] = cols[j][1], cols[i][1]          # data swapped under the same names
        return d, "diff"
    if c < 0.75 and len(cols) >= 2:
        i, j = r.sample(range(len(cols)), 2)
        cols[i], cols[j] = cols[j], cols[i]                        # column order
        return d, "diff"
    if c < 0.85:
        p["colname"] = d_str("other") if p.get("colname") != d_str("other") else None
        return d, "diff"
    n = len(cols[0][1][1]["vals"])
    if p.get("index") is None:
        p["index"] = ["rangeindex", 1, 1 + n, 1, None]
        return d, "diff"
    p["index"], e = mutate_index(p["index"], r)
    return d, e


def g_dfblocks_pair(r):
    """Two frames built from the same 2-D base block plus the same inserted
    columns; only the positions of the inserted columns differ, so the same
    arrays end up under different column names."""
    n = r.choice((2, 2, 3))
    kb = r.choice((2, 2, 3))
    ki = r.choice((1, 1, 2))
    dts = r.choice(["<i8", "<f8", "<i8"])
    base_vals = [g_elem(r, dts) if dts != "<i8" else r.randint(0, 9) for _ in range(n * kb)]
    base = {"dt": dts, "shape": [n, kb], "vals": base_vals, "lay": None, "mm": False}
    same_dtype = r.random() < 0.5
    ins = []
    for _ in range(ki):
        if same_dtype:
            ins.append(_nd1(dts, [g_elem(r, dts) if dts != "<i8" else r.randint(0, 9) for _ in range(n)]))
        else:
            ins.append(g_data1d(r, n, ("f8", "obj-str", "Int", "b1", "string", "i8")))
    total = kb + ki
    names = [d_str(ch) for ch in "abcde"[:total]]

    def frame(positions):
        # positions: final column positions of the inserted columns (ascending)
        base_names = [nm for j, nm in enumerate(names) if j not in positions]
        return ["df", {"base": {"nd": ["nd", base], "cols": base_names},
                       "ins": [[pos, names[pos], ins[i]] for i, pos in enumerate(positions)], "index": None}]

    for _ in range(20):
        p1 = sorted(r.sample(range(total), ki))
        p2 = sorted(r.sample(range(total), ki))
        if p1 != p2:
            return frame(p1), frame(p2)
    return frame([0]), frame([1])


def carrier_pair(A, B, r, which=None):
    """Put two string lists (whose joined strings coincide) into a pandas / numpy carrier."""
    n = len(A)
    c = which or r.choice(("nd", "nd", "nd2", "index-obj", "index-str", "series-obj", "series-str", "series-string", "series-index",
                           "df-columns", "df-objcol", "mi-level", "cat-categories", "pdarray-string", "pdarray-str", "list-of-nd", "dc-field"))
    def mk(W):
        if c == "nd":
            return nd_str(W)
        if c == "nd2" and n % 2 == 0:
            d = nd_str(W)
            d[1]["shape"] = [2, n // 2]
            return d
        if c == "index-obj":
            return ["index", {"data": nd_str(W), "name": None, "dtype": "object"}]
        if c == "index-str":
            return ["index", {"data": ["list", [d_str(w) for w in W]], "name": None}]
        if c == "series-obj":
            return ["series", {"data": nd_str(W), "index": None, "name": None}]
        if c == "series-str":
            return ["series", {"data": ["pdarray", {"dtype": "str", "vals": W}], "index": None, "name": None}]
        if c == "series-string":
            return ["series", {"data": ["pdarray", {"dtype": "string", "vals": W}], "index": None, "name": None}]
        if c == "series-index":
            return ["series", {"data": _nd1("<i8", list(range(n))), "index": ["index", {"data": ["list", [d_str(w) for w in W]], "name": None}], "name": None}]
        if c == "df-columns":
            return ["df", {"dict": [[d_str(w), _nd1("<i8", [i, i + 1])] for i, w in enumerate(W)], "index": None}]
        if c == "df-objcol":
            return ["df", {"dict": [[d_str("a"), nd_str(W)], [d_str("b"), _nd1("<i8", list(range(n)))]], "index": None}]
        if c == "mi-level":
            return ["mi", {"arrays": [["list", [d_str(w) for w in W]], ["list", [d_int(i) for i in range(n)]]], "names": [None, None]}]
        if c == "cat-categories":
            return ["cat", {"vals": [d_str(W[0]), d_str(W[-1])], "cats": [d_str(w) for w in W], "ordered": False}]
        if c == "pdarray-string":
            return ["pdarray", {"dtype": "string", "vals": W}]
        if c == "pdarray-str":
            return ["pdarray", {"dtype": "str", "vals": W}]
        if c == "list-of-nd":
            return ["list", [d_int(1), nd_str(W)]]
        if c == "dc-field":
            return ["dc", "DCa", [nd_str(W), d_int(0)]]
        return nd_str(W)
    return mk(A), mk(B)


# ---- dataclasses, partials, callables -------------------------------------------

def g_field(r):
    c = r.random()
    if c < 0.55:
        return g_value(r, 1)
    if c < 0.75:
        return g_nd(r, mm=False)
    if c < 0.85:
        return g_objarr(r)
    return ["dc", r.choice(list(DATACLASSES)), [g_scalar(r), g_scalar(r)]]


def g_dc(r):
    return ["dc", r.choice(list(DATACLASSES)), [g_field(r), g_field(r)]]


def mutate_any(d, r):
    tag = d[0]
    if tag == "nd":
        return mutate_objarr(d, r) if d[1]["dt"] == "|O" else mutate_nd(d, r)
    if tag == "dc":
        return mutate_dc(d, r)
    if tag in ("series",):
        return mutate_series(d, r)
    return mutate_builtin(d, r), "diff"


def mutate_dc(d, r):
    d = _copy.deepcopy(d)
    c = r.random()
    if c < 0.25:
        d[1] = r.choice([k for k in DATACLASSES if k != d[1]])
        return d, "diff"
    if c < 0.4:
        d[2] = [d[2][1], d[2][0]]
        return d, "diff"
    i = r.randrange(2)
    d[2][i], e = mutate_any(d[2][i], r)
    return d, e


FUNCS_FOR_PARTIAL = ["fn_add", "fn_mul", "fn_id", "max", "operator.add", "operator.mul", "np.add", "sum", "DCa"]


def g_partial(r):
    f = ["named", r.choice(FUNCS_FOR_PARTIAL)] if r.random() < 0.8 else g_func(r)
    args = [g_field(r) if r.random() < 0.4 else g_scalar(r) for _ in range(r.choice((0, 1, 1, 2)))]
    kws = [[k, g_scalar(r)] for k in r.sample(["k", "b", "key", "x"], r.choice((0, 0, 1, 2)))]
    return ["partial", f, args, kws]


def mutate_partial(d, r):
    d = _copy.deepcopy(d)
    c = r.random()
    if c < 0.2:
        if d[1][0] == "named":
            d[1] = ["named", r.choice([f for f in FUNCS_FOR_PARTIAL if f != d[1][1]])]
            return d, "diff"
        d[1], e = mutate_func(d[1], r)
        return d, e
    if c < 0.55 and d[2]:
        i = r.randrange(len(d[2]))
        d[2][i], e = mutate_any(d[2][i], r)
        return d, e
    if c < 0.7 and d[3]:
        i = r.randrange(len(d[3]))
        d[3][i][1] = mutate_scalar(d[3][i][1], r) or d_int(5)
        if d[3][i][1][0] == "list":
            d[3][i][1] = d_int(5)
        return d, "diff"
    if c < 0.8 and d[3]:
        i = r.randrange(len(d[3]))
        d[3][i][0] = d[3][i][0] + "2"
        return d, "diff"
    if c < 0.9 and d[2]:
        # move the last positional argument into a keyword
        d[3].append(["moved", d[2].pop()])
        return d, "diff"
    d[2].append(g_scalar(r))
    return d, "diff"


LITS = ["0", "1", "2", "1.0", "True", "'a'", "'b'", "None", "(1, 2)", "(1, 3)", "b'a'", "-1", "10**20", "1.5", "''", "frozenset({1})"]


def g_func(r):
    t = r.choice(list(FUNC_TEMPLATES))
    L = lambda: r.choice(LITS)
    a = {"lam_default": {"d": L(), "c": L()}, "lam_const": {"c": L()}, "lam_op": {"op": r.choice("+-*"), "c": L()},
         "lam_attr": {"attr": r.choice(["real", "imag", "T", "shape"])}, "closure": {"n": L()}, "closure2": {"n": L(), "m": L()},
         "kwdef": {"k": L(), "c": L()}, "def_default": {"d": L(), "e": L()}, "def_const": {"c": L(), "s": L()}, "nested": {"c": L()}}[t]
    return ["func", {"t": t, "a": a}]


def mutate_func(d, r):
    d = _copy.deepcopy(d)
    a = d[1]["a"]
    k = r.choice(sorted(a))
    if k == "op":
        a[k] = r.choice([o for o in "+-*" if o != a[k]])
    elif k == "attr":
        a[k] = r.choice([o for o in ["real", "imag", "T", "shape"] if o != a[k]])
    else:
        a[k] = r.choice([o for o in LITS if o != a[k]])
    return d, "diff"


# ---- the fixed atom list (all unordered pairs are enumerated) -----------------------

def _atoms():
    A = [
        ["none"], ["bool", True], ["bool", False], d_int(0), d_int(1), d_int(-1), d_int(2), d_int(2 ** 63), d_int(2 ** 64), d_int(2 ** 64 + 1),
        d_int(-2 ** 63), d_int(10 ** 30), d_float(0.0), d_float(-0.0), d_float(1.0), d_float(2.0), d_float(math.nan), d_float(math.inf),
        d_float(-math.inf), d_float(1e16), d_float(0.1), d_float(2.0 ** 63), d_complex(0j), d_complex(1 + 0j), d_complex(1j), d_complex(complex(0.0, -0.0)),
        d_str(""), d_str("1"), d_str("a"), d_str("1.0"), d_str("None"), d_str("True"), d_str("()"), d_str("[]"), d_str("a-b"), d_str("nan"),
        d_bytes(b""), d_bytes(b"1"), d_bytes(b"a"), d_bytes(b"a-b"),
        ["list", []], ["tuple", []], ["dict", []], ["set", []], ["frozenset", []],
        ["list", [d_int(1)]], ["tuple", [d_int(1)]], ["set", [d_int(1)]], ["frozenset", [d_int(1)]], ["dict", [[d_int(1), d_int(1)]]],
        ["list", [d_int(1), d_int(2)]], ["tuple", [d_int(1), d_int(2)]], ["list", [["list", [d_int(1), d_int(2)]]]], ["list", [["tuple", [d_int(1), d_int(2)]]]],
        ["list", [d_str("1"), d_str("2")]], ["list", [d_str("1, 2")]], ["list", [["bool", True]]],
        ["dict", [[d_str("a"), d_int(1)]]], ["dict", [[d_str("a"), d_str("1")]]], ["dict", [[d_bytes(b"a"), d_int(1)]]], ["list", [["tuple", [d_str("a"), d_int(1)]]]],
        ["tuple", [d_str("dict"), ["tuple", [["tuple", [d_str("a"), d_int(1)]]]]]], ["tuple", [d_str("list"), ["tuple", [d_int(1)]]]],
        ["tuple", [d_str("__seen"), d_int(1)]], ["list", [["ref", 0]]], ["list", [["list", [["ref", 0]]]]], ["list", [["list", [["ref", 1]]]]],
        ["dict", [[d_str("a"), ["ref", 0]]]],
        # numpy
        ["npscalar", "<i8", 1], ["npscalar", "<i4", 1], ["npscalar", "<f8", 1.0], ["npscalar", "<f4", 1.0], ["npscalar", "|b1", True], ["npscalar", "<U1", "1"],
        ["npscalar", "<M8[ns]", 1], ["npscalar", "<m8[ns]", 1], ["npscalar", "<M8[ns]", "NaT"], ["npscalar", "<m8[ns]", "NaT"],
        ["nd", {"dt": "<i8", "shape": [], "vals": [1]}], ["nd", {"dt": "<f8", "shape": [], "vals": [1.0]}], ["nd", {"dt": "<i8", "shape": [1], "vals": [1]}],
        ["nd", {"dt": "<i4", "shape": [1], "vals": [1]}], ["nd", {"dt": "<f8", "shape": [1], "vals": [1.0]}], ["nd", {"dt": "<i8", "shape": [1, 1], "vals": [1]}],
        ["nd", {"dt": "|b1", "shape": [1], "vals": [True]}], ["nd", {"dt": "|O", "shape": [1], "vals": [d_int(1)]}], ["nd", {"dt": "|O", "shape": [1], "vals": [d_str("1")]}],
        ["nd", {"dt": "<U1", "shape": [1], "vals": ["1"]}], ["nd", {"dt": "|S1", "shape": [1], "vals": ["31"]}], ["nd", {"dt": "<i8", "shape": [0], "vals": []}],
        ["nd", {"dt": "<f8", "shape": [0], "vals": []}], ["nd", {"dt": "<i8", "shape": [0, 1], "vals": []}], ["nd", {"dt": "<i8", "shape": [1], "vals": [1], "mm": True}],
        ["nd", {"dt": "<M8[ns]", "shape": [1], "vals": [1]}], ["nd", {"dt": "<m8[ns]", "shape": [1], "vals": [1]}],
        # pandas
        ["index", {"data": _nd1("<i8", [1]), "name": None}], ["index", {"data": _nd1("<f8", [1.0]), "name": None}], ["rangeindex", 1, 2, 1, None],
        ["index", {"data": ["list", [d_str("1")]], "name": None}], ["index", {"data": nd_str(["1"]), "name": None, "dtype": "object"}],
        ["index", {"data": _nd1("<i8", [1]), "name": d_str("a")}], ["index", {"data": ["pdarray", {"dtype": "Int64", "vals": [1]}], "name": None}],
        ["series", {"data": _nd1("<i8", [1]), "index": None, "name": None}], ["series", {"data": _nd1("<f8", [1.0]), "index": None, "name": None}],
        ["series", {"data": ["pdarray", {"dtype": "Int64", "vals": [1]}], "index": None, "name": None}], ["series", {"data": _nd1("<i8", [1]), "index": None, "name": d_str("a")}],
        ["df", {"dict": [[d_str("a"), _nd1("<i8", [1])]], "index": None}], ["df", {"dict": [[d_int(0), _nd1("<i8", [1])]], "index": None}],
        ["df", {"dict": [[d_str("a"), ["pdarray", {"dtype": "Int64", "vals": [1]}]]], "index": None}], ["df", {"dict": [[d_str("a"), _nd1("<f8", [1.0])]], "index": None}],
        ["pdarray", {"dtype": "Int64", "vals": [1]}], ["pdarray", {"dtype": "Int32", "vals": [1]}], ["pdarray", {"dtype": "Float64", "vals": [1.0]}],
        ["pdarray", {"dtype": "Int64", "vals": [None]}], ["pdarray", {"dtype": "Float64", "vals": [None]}], ["pdarray", {"dtype": "boolean", "vals": [None]}],
        ["pdarray", {"dtype": "boolean", "vals": [True]}], ["pdarray", {"dtype": "string", "vals": ["1"]}], ["pdarray", {"dtype": "str", "vals": ["1"]}],
        ["pdarray", {"dtype": "string", "vals": [None]}], ["pdarray", {"dtype": "str", "vals": [None]}],
        ["pdarray", {"dtype": "object", "vals": [d_int(1)]}], ["pdarray", {"dtype": "object", "vals": [d_str("1")]}],
        ["cat", {"vals": [d_int(1)], "cats": [d_int(1)], "ordered": False}], ["cat", {"vals": [d_int(1)], "cats": [d_int(1)], "ordered": True}],
        ["cat", {"vals": [d_int(1)], "cats": [d_int(1), d_int(2)], "ordered": False}], ["cat", {"vals": [d_str("1")], "cats": [d_str("1")], "ordered": False}],
        ["mi", {"arrays": [["list", [d_int(1)]], ["list", [d_str("1")]]], "names": [None, None]}], ["mi", {"arrays": [["list", [d_int(1)]], ["list", [d_str("1")]]], "names": [None, d_str("a")]}],
        ["na"],
        # dataclasses, partials, callables
        ["dc", "DCa", [d_int(1), d_int(0)]], ["dc", "DCb", [d_int(1), d_int(0)]], ["dc", "DCf", [d_int(1), d_int(0)]], ["dc", "DCc", [d_int(1), d_int(0)]],
        ["dc", "DCc", [d_int(1), d_int(1)]], ["dc", "DCa", [d_int(0), d_int(1)]], ["dc", "DCa", [["bool", True], d_int(0)]],
        ["partial", ["named", "fn_add"], [d_int(1)], []], ["partial", ["named", "fn_mul"], [d_int(1)], []], ["partial", ["named", "fn_add"], [], [["a", d_int(1)]]],
        ["partial", ["named", "fn_add"], [d_int(1)], [["k", d_int(1)]]], ["partial", ["named", "fn_add"], [["tuple", [d_int(1)]]], []],
        ["partial", ["named", "fn_add"], [d_int(1), d_int(1)], []], ["partial", ["named", "fn_add"], [["bool", True]], []],
        ["named", "fn_add"], ["named", "fn_mul"], ["named", "len"], ["named", "sum"], ["named", "operator.add"], ["named", "operator.mul"], ["named", "math.sin"],
        ["named", "np.add"], ["named", "np.subtract"], ["named", "np.sum"], ["named", "int"], ["named", "float"], ["named", "DCa"], ["named", "DCb"],
        ["named", "str.upper"], ["named", "str.lower"],
        ["method", d_str("a"), "upper"], ["method", d_str("a"), "lower"], ["method", d_str("b"), "upper"], ["method", d_bytes(b"a"), "upper"],
        ["method", d_int(1), "__add__"], ["method", d_int(2), "__add__"], ["method", d_float(1.0), "__add__"], ["method", ["bool", True], "__add__"],
        ["method", ["list", [d_int(1)]], "count"], ["method", ["tuple", [d_int(1)]], "count"], ["method", ["inst", d_int(1)], "meth"],
        ["method", ["inst", d_int(2)], "meth"], ["method", ["inst", d_int(1)], "other"], ["inst", d_int(1)], ["inst", d_int(2)], ["inst", d_float(1.0)],
        ["func", {"t": "lam_const", "a": {"c": "1"}}], ["func", {"t": "lam_const", "a": {"c": "2"}}], ["func", {"t": "lam_const", "a": {"c": "1.0"}}],
        ["func", {"t": "lam_const", "a": {"c": "True"}}], ["func", {"t": "closure", "a": {"n": "1"}}], ["func", {"t": "closure", "a": {"n": "2"}}],
        ["func", {"t": "closure", "a": {"n": "True"}}], ["func", {"t": "lam_default", "a": {"d": "1", "c": "0"}}], ["func", {"t": "lam_default", "a": {"d": "2", "c": "0"}}],
        ["func", {"t": "kwdef", "a": {"k": "1", "c": "0"}}], ["func", {"t": "kwdef", "a": {"k": "2", "c": "0"}}], ["func", {"t": "lam_op", "a": {"op": "+", "c": "1"}}],
        ["func", {"t": "lam_op", "a": {"op": "-", "c": "1"}}], ["func", {"t": "lam_attr", "a": {"attr": "real"}}], ["func", {"t": "lam_attr", "a": {"attr": "imag"}}],
    ]
    return A


ATOMS = None


def atoms():
    global ATOMS
    if ATOMS is None:
        ATOMS = _atoms()
    return ATOMS


# ---- ordering pairs (equal values built in another insertion order) -----------------

STR_EQUAL_KEYS = [(d_int(1), d_str("1")), (d_float(1.0), d_str("1.0")), (["none"], d_str("None")), (["bool", True], d_str("True")),
                  (["tuple", [d_int(1), d_int(2)]], d_str("(1, 2)")), (d_bytes(b"a"), d_str("b'a'")), (d_int(0), d_str("0")),
                  (d_float(math.nan), d_str("nan")) if False else (d_int(-1), d_str("-1"))]


def g_dictorder_pair(r):
    keys = [g_hashable(r) for _ in range(r.choice((2, 3, 4, 6)))]
    if r.random() < 0.35:
        keys += list(r.choice(STR_EQUAL_KEYS))
    keys = _uniq(keys)
    if len(keys) < 2:
        keys = [d_str("a"), d_int(1)]
    items = [[k, g_value(r, 1)] for k in keys]
    other = list(items)
    for _ in range(10):
        r.shuffle(other)
        if other != items:
            break
    else:
        other = list(reversed(items))
    a, b = ["dict", items], ["dict", other]
    if r.random() < 0.3:
        a, b = ["list", [d_int(0), a]], ["list", [d_int(0), b]]
    return a, b


def g_setorder_pair(r):
    tag = r.choice(("set", "frozenset", "frozenset"))
    c = r.random()
    if c < 0.5:
        base = r.randint(0, 20)
        mod = r.choice((8, 8, 16, 32, 2 ** 61 - 1))
        elems = [d_int(base + mod * i) for i in range(r.choice((2, 3, 4)))] + [d_int(r.randint(0, 7)) for _ in range(r.choice((0, 1, 2)))]
    elif c < 0.8:
        elems = [d_str(w) for w in r.sample(WORDS[:20], r.choice((2, 3, 5)))]
        if r.random() < 0.3:
            elems += [d_int(1), d_str("1")]
    else:
        elems = [g_hashable(r, 0) for _ in range(r.choice((2, 3, 5)))]
    elems = _uniq(elems)
    if len(elems) < 2:
        elems = [d_int(0), d_int(8)]
    other = list(reversed(elems)) if r.random() < 0.5 else r.sample(elems, len(elems))
    if other == elems:
        other = list(reversed(elems))
    a, b = [tag, elems], [tag, other]
    c = r.random()
    if c < 0.2:
        a, b = ["tuple", [a, d_int(1)]], ["tuple", [b, d_int(1)]]
    elif c < 0.3:
        a, b = ["dict", [[d_str("k"), a]]], ["dict", [[d_str("k"), b]]]
    elif c < 0.55:
        # the frozenset as a dict key / set element, next to siblings that differ from it in one element
        fa, fb = ["frozenset", elems], ["frozenset", other]
        sibs = []
        for j in range(min(len(elems), 3)):
            e2 = list(elems)
            e2[j] = d_int(r.randint(1000, 1003)) if r.random() < 0.5 else d_str("zz%d" % j)
            sibs.append(["frozenset", e2])
        kind = r.choice(("dict", "set", "frozenset", "dict-tuple-key"))
        if kind == "dict":
            a = ["dict", [[fa, d_int(0)]] + [[sb, d_int(i + 1)] for i, sb in enumerate(sibs)]]
            b = ["dict", [[fb, d_int(0)]] + [[sb, d_int(i + 1)] for i, sb in enumerate(sibs)]]
        elif kind == "dict-tuple-key":
            a = ["dict", [[["tuple", [fa, d_int(1)]], d_int(0)]] + [[["tuple", [sb, d_int(1)]], d_int(i + 1)] for i, sb in enumerate(sibs)]]
            b = ["dict", [[["tuple", [fb, d_int(1)]], d_int(0)]] + [[["tuple", [sb, d_int(1)]], d_int(i + 1)] for i, sb in enumerate(sibs)]]
        else:
            a, b = [kind, [fa] + sibs], [kind, [fb] + sibs]
    return a, b


def g_memmap_pair(r):
    dts = r.choice(MM_DTYPES)
    shape = list(r.choice([[6], [2, 3], [3, 2], [4], [2, 2], [2, 3, 2], [12]]))
    n = _prod(shape)
    vals = list(range(n)) if _kind(dts) in "iu" and r.random() < 0.5 else [g_elem(r, dts) for _ in range(n)]
    v = {"dt": dts, "shape": shape, "vals": vals, "lay": g_layout(r, shape) if r.random() < 0.4 else None, "mm": True}
    w = _copy.deepcopy(v)
    c = r.random()
    if c < 0.3:
        opts = [[n], [1, n], [n, 1]] + [[a, n // a] for a in range(2, n) if n % a == 0]
        w["shape"] = r.choice([s for s in opts if s != shape])
        w["lay"] = None
        v["lay"] = None
    elif c < 0.5:
        i = r.randrange(n)
        w["vals"][i] = _mut_elem(w["vals"][i], dts, r)
    elif c < 0.7:
        w["mm"] = False
    elif c < 0.9:
        p = g_viewdtype_pair(r)
        if p is not None:
            p[0][1]["mm"] = p[1][1]["mm"] = p[0][1]["dt"] in MM_DTYPES and p[1][1]["dt"] in MM_DTYPES
            return p[0], p[1]
        w["mm"] = False
    else:
        w["lay"] = g_layout(r, shape)
    return ["nd", v], ["nd", w]


def g_bignd_pair(r):
    n = r.choice((1001, 2000, 4096, 5000))
    i = r.randrange(n)
    shape = r.choice([[n]] + ([[n // 2, 2], [2, n // 2]] if n % 2 == 0 else []))
    a = {"dt": "<i8", "shape": shape, "arange": n, "set": [], "lay": g_layout(r, shape) if r.random() < 0.3 else None, "mm": False}
    b = dict(a, set=[[i, -1]])
    c = r.random()
    if c < 0.35:
        # the same large arrays held by a 0-d object array / as one element of an object array
        hold = lambda x: ["nd", {"dt": "|O", "shape": [], "vals": [["nd", x]], "lay": None, "mm": False}]
        return hold(a), hold(b)
    if c < 0.5:
        hold = lambda x: ["nd", {"dt": "|O", "shape": [2], "vals": [d_int(1), ["nd", x]], "lay": None, "mm": False}]
        return hold(a), hold(b)
    if c < 0.65:
        hold = lambda x: ["list", [["nd", x]]]
        return hold(a), hold(b)
    return ["nd", a], ["nd", b]


def g_xtype_pair(r):
    """The same content carried by two different types."""
    n = r.choice((1, 2, 3))
    k = r.choice(("int", "str", "float", "bool"))
    if k == "int":
        py = [r.randint(0, 4) for _ in range(n)]
        forms = [["list", [d_int(x) for x in py]], ["tuple", [d_int(x) for x in py]], _nd1("<i8", py), ["nd", {"dt": "<i8", "shape": [n], "vals": py, "mm": True}],
                 ["index", {"data": _nd1("<i8", py), "name": None}], ["series", {"data": _nd1("<i8", py), "index": None, "name": None}],
                 ["pdarray", {"dtype": "Int64", "vals": py}], ["nd", {"dt": "|O", "shape": [n], "vals": [d_int(x) for x in py]}],
                 ["pdarray", {"dtype": "object", "vals": [d_int(x) for x in py]}], ["df", {"dict": [[d_int(0), _nd1("<i8", py)]], "index": None}],
                 ["index", {"data": ["pdarray", {"dtype": "Int64", "vals": py}], "name": None}], ["series", {"data": ["pdarray", {"dtype": "Int64", "vals": py}], "index": None, "name": None}],
                 ["set", [d_int(x) for x in sorted(set(py))]], ["frozenset", [d_int(x) for x in sorted(set(py))]]]
    elif k == "str":
        py = [r.choice(WORDS[:12]) for _ in range(n)]
        forms = [["list", [d_str(x) for x in py]], ["tuple", [d_str(x) for x in py]], nd_str(py), _nd1("<U3", py),
                 ["index", {"data": nd_str(py), "name": None, "dtype": "object"}], ["index", {"data": ["list", [d_str(x) for x in py]], "name": None}],
                 ["series", {"data": nd_str(py), "index": None, "name": None}], ["pdarray", {"dtype": "string", "vals": py}], ["pdarray", {"dtype": "str", "vals": py}],
                 ["pdarray", {"dtype": "object", "vals": [d_str(x) for x in py]}], ["series", {"data": ["pdarray", {"dtype": "str", "vals": py}], "index": None, "name": None}],
                 ["list", [d_bytes(x.encode()) for x in py]], d_str("-".join(py)), d_str("".join(py))]
    elif k == "float":
        py = [r.choice([0.0, 1.0, 2.0, 0.5, "nan"]) for _ in range(n)]
        forms = [["list", [d_float(_conv(x, "f")) for x in py]], ["tuple", [d_float(_conv(x, "f")) for x in py]], _nd1("<f8", py),
                 ["index", {"data": _nd1("<f8", py), "name": None}], ["series", {"data": _nd1("<f8", py), "index": None, "name": None}],
                 ["pdarray", {"dtype": "Float64", "vals": [None if x == "nan" else x for x in py]}], ["nd", {"dt": "<f8", "shape": [n], "vals": py, "mm": True}],
                 ["pdarray", {"dtype": "Int64", "vals": [None if x == "nan" else int(x) for x in py]}] if all(x == "nan" or x == int(x) for x in py) else _nd1("<f4", py)]
    else:
        py = [r.random() < 0.5 for _ in range(n)]
        forms = [["list", [["bool", x] for x in py]], ["tuple", [["bool", x] for x in py]], _nd1("|b1", py), ["pdarray", {"dtype": "boolean", "vals": py}],
                 ["list", [d_int(int(x)) for x in py]], _nd1("|u1", [int(x) for x in py]), ["series", {"data": _nd1("|b1", py), "index": None, "name": None}],
                 ["nd", {"dt": "|O", "shape": [n], "vals": [["bool", x] for x in py]}], ["index", {"data": _nd1("|b1", py), "name": None}]]
    a, b = r.sample(forms, 2)
    return a, b


# ---- dtypes that share item size and raw bytes ---------------------------------------------

_DT8 = [  # 8-byte items
    "<i8", "<u8", "<f8", "<c8", "<M8[ns]", "<M8[s]", "<M8[ms]", "<m8[ns]", "<m8[s]", ">i8", ">f8", "|S8", "|V8", "<U2",
    [["a", "<i8"]], [["x", "<i8"]], [["a", "<f8"]],
    [["a", "<i4"], ["b", "<i4"]], [["x", "<i4"], ["y", "<i4"]], [["b", "<i4"], ["a", "<i4"]],
    [["a", "<i4"], ["b", "<f4"]], [["a", "<f4"], ["b", "<i4"]], [["a", "<u4"], ["b", "<i4"]], [["a", ">i4"], ["b", "<i4"]],
    [["a", "<i4", [2]]], [["a", "<i2", [2, 2]]], [["a", "<i2", [4]]],
    [["a", [["p", "<i4"], ["q", "<i4"]]]], [["a", [["p", "<i4"]]], ["b", "<i4"]], [["a", [["p", "<i4"], ["q", "<f4"]]]],
    [[["title a", "a"], "<i4"], ["b", "<i4"]], [[["other title", "a"], "<i4"], ["b", "<i4"]],
    {"names": ["a", "b"], "formats": ["<i4", "<i4"], "offsets": [0, 4], "itemsize": 8},
    {"names": ["a", "b"], "formats": ["<i4", "<i4"], "offsets": [4, 0], "itemsize": 8},
    {"names": ["a"], "formats": ["<i4"], "offsets": [0], "itemsize": 8},
    {"names": ["a"], "formats": ["<i4"], "offsets": [4], "itemsize": 8},
    [["a", "|S4"], ["b", "<i4"]], [["a", "|V4"], ["b", "<i4"]], [["a", "|b1", [4]], ["b", "<i4"]], [["a", "|u1", [4]], ["b", "<i4"]],
]
_DT4 = ["<i4", "<u4", "<f4", ">i4", ">u4", ">f4", "|S4", "|V4", "<U1", [["a", "<i4"]], [["a", "<f4"]], [["x", "<i4"]],
        [["a", "<i2"], ["b", "<i2"]], [["x", "<i2"], ["y", "<i2"]], [["a", "<i2", [2]]], [["a", "|u1", [4]]], [["a", "|b1", [4]]],
        [["a", "|i1"], ["b", "|u1"], ["c", "<i2"]], [["a", "<f2"], ["b", "<i2"]]]
_DT3 = ["|S3", "|V3", [["a", "|u1", [3]]], [["a", "|u1"], ["b", "|i1"], ["c", "|b1"]], [["a", "|S1"], ["b", "|S2"]],
        [["a", "|b1", [3]]], [["x", "|u1"], ["y", "|i1"], ["z", "|b1"]], [["a", "|S3"]]]
_DT1 = ["|b1", "|u1", "|i1", "|S1", "|V1", [["a", "|u1"]], [["a", "|b1"]], [["b", "|u1"]]]


def _raw_item(r, size):
    """Bytes of one item that every dtype of the group can hold: each aligned 4-byte word is a small
    code point (valid for U), every byte is 0/1 or ASCII (valid for bool when 0/1)."""
    c = r.random()
    if size in (1, 3):
        return bytes(r.choice((0, 1, 1)) for _ in range(size)) if c < 0.6 else bytes(r.choice((0, 1, 97, 98)) for _ in range(size))
    out = b""
    for _ in range(size // 4):
        if c < 0.5:
            out += bytes((r.choice((0, 1)), r.choice((0, 1)), 0, 0))
        elif c < 0.8:
            out += bytes((r.choice((97, 98, 1, 0)), 0, 0, 0))
        else:
            out += bytes((r.choice((0, 1, 2, 97)), r.choice((0, 1)), r.choice((0, 1)), 0))
    return out


def _needs_bool_bytes(dt):
    return "b1" in json_dumps(dt)


def json_dumps(o):
    import json

    return json.dumps(o)


def g_structdt_pair(r):
    """Arrays with the same raw buffer, shape and item size under two different dtypes
    (field names, field types, grouping, nesting, titles, offsets, units, byte order, S/U/V),
    or the same dtype with one byte changed, or ndarray vs recarray."""
    size, group = r.choice(((8, _DT8), (8, _DT8), (8, _DT8), (4, _DT4), (4, _DT4), (3, _DT3), (1, _DT1)))
    shape = list(r.choice([[2], [3], [1], [2, 2], [4], [2, 3]]))
    n = _prod(shape)
    raw = b"".join(_raw_item(r, size) for _ in range(n))
    da, db = r.sample(group, 2)
    if any(_needs_bool_bytes(d) for d in (da, db)) or any(isinstance(d, str) and d[1] == "U" for d in (da, db)):
        # keep bool bytes 0/1 and code points small
        raw = bytes((b & 1) if (i % 4 != 0 or _needs_bool_bytes(da) or _needs_bool_bytes(db)) else b for i, b in enumerate(raw))
    c = r.random()
    lay = (lambda: g_layout(r, shape) if r.random() < 0.35 else None)
    a = {"dt": da, "shape": shape, "raw": raw.hex(), "lay": lay(), "mm": False}
    if c < 0.72:
        b = {"dt": db, "shape": shape, "raw": raw.hex(), "lay": lay(), "mm": False}
    elif c < 0.86:
        i = r.randrange(len(raw))
        raw2 = raw[:i] + bytes((raw[i] ^ 1,)) + raw[i + 1:]
        b = {"dt": da, "shape": shape, "raw": raw2.hex(), "lay": lay(), "mm": False}
    elif c < 0.93 and not isinstance(da, str):
        b = dict(a, rec=True)             # recarray of the same dtype: another type
    else:
        # same values under the other byte order (bytes differ), only for plain numeric dtypes
        if isinstance(da, str) and da[0] in "<>" and da[1] in "iuf":
            import numpy as np

            A = np.frombuffer(raw, dtype=np.dtype(da))
            other = (">" if da[0] == "<" else "<") + da[1:]
            b = {"dt": other, "shape": shape, "raw": A.astype(np.dtype(other)).tobytes().hex(), "lay": None, "mm": False}
        else:
            b = {"dt": db, "shape": shape, "raw": raw.hex(), "lay": None, "mm": False}
    return ["nd", a], ["nd", b]


def g_joinbytes_pair(r):
    A, B = g_join_lists(r)
    mk = lambda W: ["nd", {"dt": "|O", "shape": [len(W)], "vals": [d_bytes(w.encode()) for w in W], "lay": None, "mm": False}]
    return mk(A), mk(B)


# ---- family dispatcher ------------------------------------------------------------------

def _mut(gen, mut):
    def f(r):
        d = gen(r)
        m, e = mut(d, r)
        return d, m, e
    return f


def _pair(gen, e="diff"):
    def f(r):
        p = gen(r)
        if p is None:
            raise Unbuildable("no pair")
        return p[0], p[1], e
    return f


def _join(r):
    A, B = g_join_lists(r)
    a, b = carrier_pair(A, B, r)
    return a, b, "diff"


def _scalar(r):
    d = g_scalar(r)
    return d, mutate_scalar(d, r) or d, "diff"


def _builtin(r):
    d = g_value(r, 3)
    return d, mutate_builtin(d, r), "diff"


def _recursive(r):
    d = g_recursive(r)
    return d, mutate_recursive(d, r), "diff"


def _data1d(r):
    d = g_data1d(r, r.choice((1, 2, 3, 4)))
    m, e = mutate_data1d(d, r)
    return d, m, e


def _index(r):
    d = g_index(r, r.choice((0, 1, 2, 3, 4)))
    m, e = mutate_index(d, r)
    return d, m, e


def _nd0(r):
    d = g_nd0(r)
    p = _copy.deepcopy(d[1])
    if r.random() < 0.6:
        p["vals"][0] = _mut_elem(p["vals"][0], p["dt"], r)
    elif p["dt"] in DT_SAMEVALS:
        return d, mutate_nd(d, r)[0], "diff"
    else:
        p["shape"] = [1]
    return d, ["nd", p], "diff"


# name -> (generator of (desc_v, desc_w, expectation), weight, plain data?)
FAMILIES = {
    "scalar": (_scalar, 6, True),
    "builtin": (_builtin, 10, True),
    "dictorder": (_pair(g_dictorder_pair, "same"), 4, True),
    "setorder": (_pair(g_setorder_pair, "same"), 4, False),
    "recursive": (_recursive, 3, True),
    "nd": (_mut(g_nd, mutate_nd), 12, True),
    "nd0": (_nd0, 2, True),
    "samebuf": (_pair(g_samebuf_pair), 6, True),
    "viewdtype": (_pair(g_viewdtype_pair), 2, True),
    "structdt": (_pair(g_structdt_pair), 6, True),
    "objarr": (_mut(g_objarr, mutate_objarr), 5, True),
    "join": (_join, 5, True),
    "joinbytes": (_pair(g_joinbytes_pair), 1, True),
    "memmap": (_pair(g_memmap_pair), 3, True),
    "bignd": (_pair(g_bignd_pair), 1, True),
    "xtype": (_pair(g_xtype_pair), 4, True),
    "data1d": (_data1d, 5, True),
    "index": (_index, 5, True),
    "series": (_mut(g_series, mutate_series), 6, True),
    "df": (_mut(g_df, mutate_df), 6, True),
    "dfblocks": (_pair(g_dfblocks_pair), 3, True),
    "dc": (_mut(g_dc, mutate_dc), 3, False),
    "partial": (_mut(g_partial, mutate_partial), 2, False),
    "func": (_mut(g_func, mutate_func), 1, False),
    "history": (lambda r: __import__("vf.gen.c12_history", fromlist=["x"]).gen_history_pair(r), 8, True),
}

_NOT_PLAIN = {"set", "frozenset", "dc", "named", "func", "partial", "method", "inst"}


def is_plain(d):
    """Plain data in the sense of the cross-interpreter clause: numbers, strings,
    bytes, lists/tuples/dicts of them, NumPy and pandas data."""
    if isinstance(d, list):
        if d and isinstance(d[0], str) and d[0] in _NOT_PLAIN:
            return False
        return all(is_plain(x) for x in d)
    if isinstance(d, dict):
        return all(is_plain(x) for x in d.values())
    return True


def gen_pair(fam, r):
    return FAMILIES[fam][0](r)
