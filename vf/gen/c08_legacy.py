"""C08 (and C11) term language: programs whose legacy emission uses the RAW legacy
constructs the C08 statement names, a task-spec emission of the same terms, and the
reference evaluators.  Nothing in the evaluators imports dask.

Argument terms (JSON-free python tuples, rebuilt from a seed in run_case)

    ("ref", j[, how])        reference to node j (how: None | "alias" (spec only) | an
                             equal-but-not-identical spelling of the key: "float", "bool", "ntuple", or,
                             rarely and separately counted, "complex" / "npint" (numpy.int64))
    ("lit", v)               inert literal, emitted raw (never equal to a key, contains nothing active)
    ("q", v, how)            literal that must stay literal: how = "literal" -> (dask.core.literal(v),)
                             "quote" -> dask.core.quote(v), "data" -> DataNode(None, v) (spec only)
    ("list", [a..])          raw list                         -> evaluated elementwise
    ("dict", [(k, a)..])     raw dict (k never equals a key)  -> values evaluated elementwise
    ("tuple", [a..])         raw tuple NOT headed by a callable.  The statement gives no rule for it;
                             in legacy programs its contents are inert (so "itself" and "elementwise"
                             coincide); in spec programs it is a Tuple container and may hold anything
    ("ntuple", name, [a..])  namedtuple instance, same discipline as "tuple"
    ("set", kind, [a..])     set / frozenset, same discipline
    ("call", fname, [a..])   (f, a..)                         -> call
    ("kwcall", fname, [a..], [(kw, a)..], form)
                             (apply, f, [a..], {kw: a}) (form "rawdict") or
                             (apply, f, [a..], (dict, [[kw, a]..])) (form "dictcall")

A program is a list of (key, term) in topological order; the term at top level is the graph value.

Legacy semantics (the C08 statement, verbatim): tuples headed by a callable are calls, lists and dicts
are evaluated elementwise, hashable values equal to a key are references; everything else is itself.
`raw_eval` implements exactly these rules on the emitted raw graph, `Prog.evaluate` evaluates the terms;
the two must agree (harness self check of the emitter).
"""
from __future__ import annotations

import hashlib
import random
from collections import namedtuple

# --------------------------------------------------------------------------
# values and picklable, order-sensitive functions


def canon(x):
    if isinstance(x, dict):
        return type(x).__name__ + "{" + ",".join(sorted(canon(k) + ":" + canon(v) for k, v in x.items())) + "}"
    if isinstance(x, list):
        return "[" + ",".join(map(canon, x)) + "]"
    if isinstance(x, tuple):
        return type(x).__name__ + "(" + ",".join(map(canon, x)) + ")"
    if isinstance(x, (set, frozenset)):
        return type(x).__name__ + "{" + ",".join(sorted(map(canon, x))) + "}"
    if callable(x):
        return "fn:" + getattr(x, "__name__", type(x).__name__)
    return type(x).__name__ + ":" + repr(x)


def digest(x) -> str:
    return hashlib.blake2b(canon(x).encode(), digest_size=5).hexdigest()


def f(*a, **kw):
    return ("f", digest((a, sorted(kw.items()))))


def g(*a, **kw):
    return ("g", digest((a, sorted(kw.items()))))


def h(*a, **kw):
    return ("h", digest((a, sorted(kw.items()))))


def ident(x):
    return x


def lst(*a):
    return list(a)


def tup(*a):
    return tuple(a)


def first(x, *r):
    return x


def kwpack(*a, **kw):
    """returns its arguments unchanged (structure stays visible to the comparison)"""
    return [list(a), dict(kw)]


FUNCS = {"f": f, "g": g, "h": h, "ident": ident, "lst": lst, "tup": tup, "first": first, "kwpack": kwpack}
TAGGED = ("f", "g", "h")

P2 = namedtuple("P2", "a b")
P3 = namedtuple("P3", "a b c")


class PN(namedtuple("PN", "ab c")):
    """namedtuple with a custom constructor (as in dask's own tests)"""

    def __new__(cls, a, b, c):
        return super().__new__(cls, "%s-%s" % (a, b), c)

    def __getnewargs__(self):
        return (*self.ab.split("-"), self.c)


NTS = {"P2": P2, "P3": P3, "PN": PN}


def same(a, b):
    """structural equality including container (and scalar) types"""
    if type(a) is not type(b):
        return False
    if isinstance(a, (list, tuple)):
        return len(a) == len(b) and all(same(x, y) for x, y in zip(a, b))
    if isinstance(a, dict):
        if len(a) != len(b):
            return False
        for k, v in a.items():
            if k not in b or not same(v, b[k]):
                return False
        return True
    if type(a).__name__ == "literal" and hasattr(a, "data"):   # dask.core.literal has no __eq__
        return same(a.data, b.data)
    try:
        return bool(a == b)
    except Exception:  # noqa: BLE001
        return False


def equalish(a, b):
    """== on scalars, container types must agree (used by C11: 'equal results')"""
    cont = (list, tuple, dict, set, frozenset)
    if isinstance(a, cont) or isinstance(b, cont):
        if type(a) is not type(b):
            return False
        if isinstance(a, (list, tuple)):
            return len(a) == len(b) and all(equalish(x, y) for x, y in zip(a, b))
        if isinstance(a, dict):
            return len(a) == len(b) and all(k in b and equalish(v, b[k]) for k, v in a.items())
        return a == b
    try:
        return bool(a == b)
    except Exception:  # noqa: BLE001
        return False


# --------------------------------------------------------------------------
# keys

KEY_STYLES = ("str", "int", "float", "tuple", "tuple2", "nested", "mixed")


def key_of(style, j):
    if style == "str":
        return "k%d" % j
    if style == "int":
        return j
    if style == "float":
        return j + 0.5
    if style == "tuple":
        return ("x", j)
    if style == "tuple2":
        return ("x", j // 2, j % 2)
    if style == "nested":
        return ("x", ("y", j))
    return (("x", j), "k%d" % j, 100 + j, ("x", j // 2, j % 2), j + 0.5)[j % 5]


def make_keys(style, n, perm_seed=0):
    idx = list(range(n))
    if perm_seed:
        random.Random(perm_seed).shuffle(idx)
    return [key_of(style, j) for j in idx]


def eq_spellings(key):
    """other hashable values that are equal to the key (they are references by the statement)"""
    out = []
    if type(key) is int:
        out.append(("float", float(key)))
        if key in (0, 1):
            out.append(("bool", bool(key)))
    if type(key) is tuple and len(key) == 2 and type(key[1]) is int:
        out.append(("ntuple", P2(*key)))
        out.append(("float", (key[0], float(key[1]))))
    return out


EXOTIC = ("complex", "npint")


def exotic_spellings(key):
    """hashable values equal to an int key whose type is none of int/float/str/tuple.  By the statement
    ("hashable values equal to a key are references") they are references as well."""
    out = []
    if type(key) is int:
        import numpy as np

        out.append(("complex", complex(key)))
        out.append(("npint", np.int64(key)))
    return out


# --------------------------------------------------------------------------
# term utilities

ACTIVE = ("ref", "call", "kwcall", "q")


def children(a):
    t = a[0]
    if t in ("list", "tuple"):
        return list(a[1])
    if t == "dict":
        return [v for _, v in a[1]]
    if t in ("ntuple", "set"):
        return list(a[2])
    if t == "call":
        return list(a[2])
    if t == "kwcall":
        return list(a[2]) + [v for _, v in a[3]]
    return []


def refs_of(a, out=None):
    out = set() if out is None else out
    if a[0] == "ref":
        out.add(a[1])
    for c in children(a):
        refs_of(c, out)
    return out


def tags_of(a, out=None, top=True):
    """construct tags of a term (evidence / labels)"""
    out = set() if out is None else out
    t = a[0]
    if t == "ref":
        how = a[2] if len(a) > 2 else None
        out.add("ref" if how in (None, "alias") else ("ref-equal-spelling-exotic-type" if how in EXOTIC else "ref-equal-spelling"))
    elif t == "q":
        out.add("quoted")
    elif t == "lit":
        _value_tags(a[1], out)
    elif t == "call" and not top:
        out.add("nested-call")
    elif t == "kwcall":
        out.add("kwargs-" + a[4])
    elif t in ("list", "dict", "tuple", "ntuple", "set"):
        out.add(("empty-" if not children(a) else "") + t)
    for c in children(a):
        tags_of(c, out, False)
    return out


def _value_tags(v, out, depth=0):
    if isinstance(v, tuple):
        out.add("namedtuple" if hasattr(v, "_fields") else ("raw-tuple" if v else "empty-tuple"))
    elif isinstance(v, list):
        out.add("raw-list-literal" if v else "empty-list")
    elif isinstance(v, dict):
        out.add("raw-dict-literal" if v else "empty-dict")
    elif isinstance(v, (set, frozenset)):
        out.add("raw-set" if v else "empty-set")
    else:
        return
    if depth < 2:
        for x in (v.values() if isinstance(v, dict) else v):
            _value_tags(x, out, depth + 1)


def has_exotic(a):
    return (a[0] == "ref" and len(a) > 2 and a[2] in EXOTIC) or any(has_exotic(c) for c in children(a))


def has_active(a):
    return a[0] in ACTIVE or any(has_active(c) for c in children(a))


def dict_blocked(a, parent="top"):
    """mechanisms through which an active term (key reference, call, quoted literal) sits inside a raw
    dict in the LEGACY emission: 'arg' = outermost dict is a direct argument of a call tuple,
    'elsewhere' = outermost dict is a graph value / list element."""
    out = set()
    t = a[0]
    if t == "dict":
        if any(has_active(v) for _, v in a[1]):
            out.add("arg" if parent == "callarg" else "elsewhere")
        return out
    if t == "call":
        for c in a[2]:
            out |= dict_blocked(c, "callarg")
    elif t == "kwcall":
        for c in a[2]:
            out |= dict_blocked(c, "list")            # positional args travel in a raw list
        if a[4] == "rawdict":
            if any(has_active(v) for _, v in a[3]):
                out.add("arg")                           # the kwargs dict is a direct argument of apply
        else:
            for _, v in a[3]:
                out |= dict_blocked(v, "list")
    else:
        for c in children(a):
            out |= dict_blocked(c, "list")
    return out


def describe(a):
    t = a[0]
    if t == "ref":
        return "@%d%s" % (a[1], "~" + a[2] if len(a) > 2 and a[2] else "")
    if t == "lit":
        return repr(a[1])
    if t == "q":
        return "%s<%r>" % (a[2], a[1])
    if t == "list":
        return "[" + ",".join(map(describe, a[1])) + "]"
    if t == "tuple":
        return "t(" + ",".join(map(describe, a[1])) + ")"
    if t == "dict":
        return "{" + ",".join("%r:%s" % (k, describe(v)) for k, v in a[1]) + "}"
    if t == "ntuple":
        return a[1] + "(" + ",".join(map(describe, a[2])) + ")"
    if t == "set":
        return a[1] + "{" + ",".join(map(describe, a[2])) + "}"
    if t == "call":
        return a[1] + "(" + ",".join(map(describe, a[2])) + ")"
    if t == "kwcall":
        return "%s(%s;%s)/%s" % (a[1], ",".join(map(describe, a[2])),
                                 ",".join("%s=%s" % (k, describe(v)) for k, v in a[3]), a[4])
    return repr(a)


def node_kind(a):
    return {"ref": "alias", "list": "seq", "dict": "dictnode", "call": "call", "kwcall": "call"}.get(a[0], "lit")


# --------------------------------------------------------------------------
# program

class Prog:
    def __init__(self, keys, terms):
        self.keys = list(keys)
        self.terms = list(terms)
        self.n = len(terms)

    # ---- reference: value of every node ----------------------------------------
    def ev(self, a, val, frozen=(), parent="top"):
        """value of a term.  `frozen` (classification only, never the verdict): dict mechanisms
        ('arg' / 'elsewhere', see dict_blocked) whose dicts are left unevaluated, i.e. mean their raw emission."""
        t = a[0]
        if t == "ref":
            if frozen and "exotic" in frozen and len(a) > 2 and a[2] in EXOTIC:
                return self.em(a)
            return val[a[1]]
        if t in ("lit", "q"):
            return a[1]
        if t == "list":
            return [self.ev(x, val, frozen, "list") for x in a[1]]
        if t == "tuple":
            return tuple(self.ev(x, val, frozen, "list") for x in a[1])
        if t == "dict":
            if frozen and ("arg" if parent == "callarg" else "elsewhere") in frozen:
                return self.em(a)
            return {k: self.ev(x, val, frozen, "list") for k, x in a[1]}
        if t == "ntuple":
            return NTS[a[1]](*[self.ev(x, val, frozen, "list") for x in a[2]])
        if t == "set":
            return (set if a[1] == "set" else frozenset)(self.ev(x, val, frozen, "list") for x in a[2])
        if t == "call":
            return FUNCS[a[1]](*[self.ev(x, val, frozen, "callarg") for x in a[2]])
        if t == "kwcall":
            if a[4] == "rawdict" and "arg" in frozen:
                kw = {k: self.em(x) for k, x in a[3]}
            else:
                kw = {k: self.ev(x, val, frozen, "list") for k, x in a[3]}
            return FUNCS[a[1]](*[self.ev(x, val, frozen, "list") for x in a[2]], **kw)
        raise AssertionError(a)

    def evaluate(self):
        val = {}
        for i, a in enumerate(self.terms):
            val[i] = self.ev(a, val)
        return val

    def deps(self, i):
        return refs_of(self.terms[i])

    def deps_frozen(self, a, frozen, parent="top", out=None):
        """references that remain when the dicts of the `frozen` mechanisms are not looked into"""
        out = set() if out is None else out
        t = a[0]
        if t == "ref":
            if not ("exotic" in frozen and len(a) > 2 and a[2] in EXOTIC):
                out.add(a[1])
        elif t == "dict":
            if ("arg" if parent == "callarg" else "elsewhere") not in frozen:
                for _, x in a[1]:
                    self.deps_frozen(x, frozen, "list", out)
        elif t == "call":
            for x in a[2]:
                self.deps_frozen(x, frozen, "callarg", out)
        elif t == "kwcall":
            for x in a[2]:
                self.deps_frozen(x, frozen, "list", out)
            if not (a[4] == "rawdict" and "arg" in frozen):
                for _, x in a[3]:
                    self.deps_frozen(x, frozen, "list", out)
        else:
            for x in children(a):
                self.deps_frozen(x, frozen, "list", out)
        return out

    # ---- legacy emission with the raw constructs ------------------------------------
    def em(self, a):
        from dask.core import literal, quote
        from dask.utils import apply

        em = self.em
        keys = self.keys
        t = a[0]
        if t == "ref":
            k = keys[a[1]]
            how = a[2] if len(a) > 2 else None
            if how and how != "alias":
                for nm, sp in eq_spellings(k) + exotic_spellings(k):
                    if nm == how:
                        return sp
            return k
        if t == "lit":
            return a[1]
        if t == "q":
            if a[2] == "quote":
                q = quote(a[1])
                if not (type(q) is tuple and len(q) == 1 and isinstance(q[0], literal)):
                    raise AssertionError("quote() does not wrap %r" % (a[1],))
                return q
            return (literal(a[1]),)
        if t == "list":
            return [em(x) for x in a[1]]
        if t == "tuple":
            return tuple(em(x) for x in a[1])
        if t == "dict":
            return {k: em(x) for k, x in a[1]}
        if t == "ntuple":
            return NTS[a[1]](*[em(x) for x in a[2]])
        if t == "set":
            return (set if a[1] == "set" else frozenset)(em(x) for x in a[2])
        if t == "call":
            return (FUNCS[a[1]],) + tuple(em(x) for x in a[2])
        if t == "kwcall":
            kw = {k: em(x) for k, x in a[3]} if a[4] == "rawdict" else (dict, [[k, em(x)] for k, x in a[3]])
            return (apply, FUNCS[a[1]], [em(x) for x in a[2]], kw)
        raise AssertionError(a)

    def legacy(self, order_seed=0):
        items = [(self.keys[i], self.em(a)) for i, a in enumerate(self.terms)]
        if order_seed:
            random.Random(order_seed).shuffle(items)
        return dict(items)

    # ---- task-spec emission ------------------------------------------------------------
    def spec(self, parse=False, order_seed=0):
        b = SpecBuilder(lambda j: self.keys[j], parse=parse)
        items = []
        for i, a in enumerate(self.terms):
            items.append((self.keys[i], b.node(self.keys[i], a)))
        if order_seed:
            random.Random(order_seed).shuffle(items)
        return dict(items), b.built


def raw_eval(dsk):
    """The statement's rules applied to the raw legacy graph (no dask code)."""
    memo = {}
    busy = set()
    spelling = {k: k for k in dsk}

    def value(k):
        k = spelling[k]                      # the graph's own spelling of the key (hash/eq lookup)
        if k not in memo:
            if k in busy:
                raise RecursionError("cycle")
            busy.add(k)
            memo[k] = ev(dsk[k])
            busy.discard(k)
        return memo[k]

    def ev(x):
        if type(x) is tuple and x and callable(x[0]):
            return x[0](*[ev(a) for a in x[1:]])
        if type(x) is list:
            return [ev(a) for a in x]
        if type(x) is dict:
            return {k: ev(v) for k, v in x.items()}
        try:
            if x in dsk:
                return value(x)
        except TypeError:
            pass
        return x

    return {k: value(k) for k in dsk}


class SpecBuilder:
    """terms -> task-spec objects.  explicit mode: List/Tuple/Set/Dict/Task/TaskRef/Alias/DataNode are
    constructed directly; parse mode: raw python containers holding TaskRef/Task objects are handed to
    dask._task_spec.parse_input."""

    def __init__(self, keyof, parse=False):
        self.keyof = keyof
        self.parse = parse
        self.built = []     # (term, object) for every GraphNode constructed explicitly below top level

    def arg(self, a):
        from dask._task_spec import Alias, DataNode, Dict, List, Set, Task, TaskRef, Tuple

        t = a[0]
        if t == "ref":
            k = self.keyof(a[1])
            if len(a) > 2 and a[2] == "alias" and not self.parse:
                return Alias(k)
            return TaskRef(k)
        if t == "lit":
            v = a[1]
            if isinstance(v, (list, tuple, dict, set, frozenset)) and not self.parse:
                return DataNode(None, v)
            return v
        if t == "q":
            v = a[1]
            if a[2] == "data" or (isinstance(v, (list, tuple, dict, set, frozenset)) and not self.parse):
                return DataNode(None, v)
            return v
        if t == "call":
            o = Task(None, FUNCS[a[1]], *[self.top_arg(x) for x in a[2]])
            self.built.append((a, o))
            return o
        if t == "kwcall":
            o = Task(None, FUNCS[a[1]], *[self.top_arg(x) for x in a[2]], **{k: self.top_arg(x) for k, x in a[3]})
            self.built.append((a, o))
            return o
        if self.parse:
            if t == "list":
                return [self.arg(x) for x in a[1]]
            if t == "tuple":
                return tuple(self.arg(x) for x in a[1])
            if t == "dict":
                return {k: self.arg(x) for k, x in a[1]}
            if t == "ntuple":
                return NTS[a[1]](*[self.arg(x) for x in a[2]])
            if t == "set":
                return (set if a[1] == "set" else frozenset)(self.arg(x) for x in a[2])
        else:
            if t == "list":
                o = List(*[self.arg(x) for x in a[1]])
            elif t == "tuple":
                o = Tuple(*[self.arg(x) for x in a[1]])
            elif t == "set":
                o = Set(*[self.arg(x) for x in a[2]])
            elif t == "dict":
                form = len(a[1]) % 3
                pairs = [(k, self.arg(x)) for k, x in a[1]]
                if form == 0:
                    o = Dict(dict(pairs))
                elif form == 1:
                    o = Dict([[k, v] for k, v in pairs])
                else:
                    o = Dict(*[x for kv in pairs for x in kv])
            elif t == "ntuple":
                # no explicit container class for namedtuples: dask's own wrapper
                from dask._task_spec import parse_input

                o = parse_input(NTS[a[1]](*[self.arg(x) for x in a[2]]))
                return o
            else:
                raise AssertionError(a)
            self.built.append((a, o))
            return o
        raise AssertionError(a)

    def top_arg(self, a):
        """an argument of a Task: in parse mode raw containers go through parse_input"""
        o = self.arg(a)
        if self.parse:
            from dask._task_spec import parse_input

            o = parse_input(o)
        return o

    def node(self, key, a):
        from dask._task_spec import Alias, DataNode, Task

        t = a[0]
        if t == "ref":
            return Alias(key, self.keyof(a[1]))
        if t in ("lit", "q"):
            return DataNode(key, a[1])
        if t == "call":
            return Task(key, FUNCS[a[1]], *[self.top_arg(x) for x in a[2]])
        if t == "kwcall":
            return Task(key, FUNCS[a[1]], *[self.top_arg(x) for x in a[2]], **{k: self.top_arg(x) for k, x in a[3]})
        # container at top level: a task that returns it
        return Task(key, ident, self.top_arg(a))


# --------------------------------------------------------------------------
# generators

INERT_SCALARS = ["a", "zz", 1000, 2000.5, None, True, False, "", b"by", -7, "k0x", 3 + 4j]


class Gen:
    """random terms for one program"""

    def __init__(self, rng, keys, mode, dictactive=False, exotic=False):
        self.exotic = exotic                # may int keys be spelled as complex / numpy.int64 values?
        self.rng = rng
        self.keys = keys
        self.mode = mode                    # "legacy" | "spec" | "specparse"
        self.dictactive = dictactive        # may active terms be placed inside raw dicts?
        ks = set(keys)
        self.scalars = [v for v in INERT_SCALARS if v not in ks]
        self.hashable = {}                  # node index -> is its value hashable

    # -- inert material -----------------------------------------------------------------
    def scalar(self):
        return self.rng.choice(self.scalars)

    def inert_value(self, depth=0):
        """a python value that means itself under every reading (no key, no call, no literal wrapper)"""
        r = self.rng.random()
        if depth >= 2 or r < 0.45:
            return self.scalar()
        if r < 0.6:
            return tuple(self.inert_value(depth + 1) for _ in range(self.rng.randint(0, 3)))
        if r < 0.75:
            return [self.inert_value(depth + 1) for _ in range(self.rng.randint(0, 3))]
        if r < 0.85:
            return {("d%d" % i): self.inert_value(depth + 1) for i in range(self.rng.randint(0, 2))}
        if r < 0.92:
            nm = self.rng.choice(("P2", "P3", "PN"))
            k = 2 if nm == "P2" else 3
            if nm == "PN":
                return PN(self.rng.choice(("p", "q")), self.rng.choice(("r", "s")), self.scalar())
            return NTS[nm](*[self.inert_value(depth + 1) for _ in range(k)])
        hs = [v for v in self.scalars if v is not None]
        kind = self.rng.choice((set, frozenset))
        return kind(self.rng.sample(hs, self.rng.randint(0, 3)))

    def inert(self, depth=0):
        """ref-free term"""
        r = self.rng.random()
        if r < 0.3:
            return ("lit", self.scalar())
        if r < 0.5:
            return self.quoted()
        if r < 0.62:
            return ("lit", self.inert_value(depth + 1))
        if r < 0.7:
            return ("list", [])
        if r < 0.76:
            return ("dict", [])
        if r < 0.8:
            return ("tuple", [])
        if r < 0.86 and depth < 2:
            return ("list", [self.inert(depth + 1) for _ in range(self.rng.randint(1, 2))])
        if r < 0.93 and depth < 2:
            return ("call", self.rng.choice(TAGGED), [("lit", self.scalar()) for _ in range(self.rng.randint(0, 2))])
        if depth < 2:
            # dict whose values are inert python values (nothing to evaluate inside)
            return ("dict", [("d%d" % i, ("lit", self.inert_value(1))) for i in range(self.rng.randint(1, 2))])
        return ("lit", self.scalar())

    def quoted(self):
        """a literal that would mean something else if it were not quoted"""
        rng = self.rng
        r = rng.random()
        k = rng.choice(self.keys)
        if r < 0.3:
            v = k                                                  # key-like literal
        elif r < 0.45:
            v = [k, self.scalar()]                                 # list holding a key
        elif r < 0.55:
            v = {"a": k}                                           # dict holding a key
        elif r < 0.65:
            v = (f, 1000)                                          # task-like tuple
        elif r < 0.75:
            v = [rng.choice(self.keys), [rng.choice(self.keys)]]
        elif r < 0.85:
            v = (k, 1000)                                          # tuple holding a key
        else:
            v = self.inert_value()
        if self.mode != "legacy":
            return ("q", v, rng.choice(("data", "raw")))
        how = "literal"
        if rng.random() < 0.4 and ((type(v) is tuple and v and callable(v[0])) or type(v) in (list, dict)):
            how = "quote"
        return ("q", v, how)

    # -- references ------------------------------------------------------------------------
    def ref(self, j):
        rng = self.rng
        if self.mode == "legacy":
            if self.exotic and type(self.keys[j]) is int and rng.random() < 0.5:
                return ("ref", j, rng.choice(EXOTIC))
            sp = eq_spellings(self.keys[j])
            if sp and rng.random() < 0.15:
                return ("ref", j, rng.choice(sp)[0])
            return ("ref", j)
        if self.mode == "spec" and rng.random() < 0.3:
            return ("ref", j, "alias")
        return ("ref", j)

    def wrap(self, refs, depth=0, in_call=True):
        """argument list that mentions every ref of `refs` (each at least once)"""
        rng = self.rng
        out = []
        pend = list(refs)
        rng.shuffle(pend)
        while pend:
            take = pend[: rng.randint(1, min(3, len(pend)))]
            pend = pend[len(take):]
            items = [self.ref(j) for j in take]
            r = rng.random()
            if depth >= 3 or r < 0.32:
                out.extend(items)
            elif r < 0.5:
                ex = [self.inert(depth + 1)] if rng.random() < 0.4 else []
                xs = items + ex
                rng.shuffle(xs)
                out.append(("list", xs))
            elif r < 0.64:
                xs = self.wrap(take, depth + 1) + ([self.inert(depth + 1)] if rng.random() < 0.3 else [])
                out.append(("call", rng.choice(TAGGED + ("lst", "tup")), xs))
            elif r < 0.72:
                out.append(("list", [("list", items), self.inert(depth + 1)]))
            elif r < 0.8:
                out.append(("list", [("call", rng.choice(TAGGED), items)] + [self.ref(rng.choice(take))]))
            elif r < (0.9 if self.mode == "legacy" else 0.94):
                if self.mode != "legacy":
                    kind = rng.choice(("tuple", "set", "set", "ntuple", "dict", "dict"))
                    if kind == "tuple":
                        out.append(("tuple", self.wrap(take, depth + 1, False)))
                    elif kind == "set":
                        if all(self.hashable.get(j, False) for j in take):
                            els = items
                        else:       # tagged calls return hashable values whatever they receive
                            els = [("call", rng.choice(TAGGED), [x]) for x in items]
                        hs = [v for v in self.scalars if v is not None]
                        out.append(("set", "set", els + ([("lit", rng.choice(hs))] if rng.random() < 0.5 else [])))
                    elif kind == "ntuple":
                        if self.mode == "specparse":
                            out.append(("ntuple", "P2", [items[0], ("lit", self.scalar())]))
                            out.extend(items[1:])
                        else:
                            out.append(("tuple", items))
                    else:
                        out.append(("dict", self.dict_items(take, depth)))
                elif self.dictactive:
                    if rng.random() < 0.6:
                        out.append(("dict", self.dict_items(take, depth)))
                    else:
                        out.append(("list", [("dict", self.dict_items(take, depth))]))
                else:
                    out.extend(items)
            else:
                out.extend(items)
                out.append(self.inert(depth + 1))
        if rng.random() < 0.3:
            out.insert(rng.randint(0, len(out)), self.inert(depth + 1))
        return out

    def dict_items(self, take, depth):
        rng = self.rng
        vals = []
        for j in take:
            r = rng.random()
            if r < 0.5:
                vals.append(self.ref(j))
            elif r < 0.75:
                vals.append(("list", [self.ref(j), ("lit", self.scalar())]))
            elif r < 0.9:
                vals.append(("call", rng.choice(TAGGED), [self.ref(j)]))
            else:
                vals.append(("dict", [("in", self.ref(j))]))
        if rng.random() < 0.3:
            vals.append(("lit", self.scalar()))
        dk = ["a", "b", "c", "d", ("t", 9), 77]
        return [(dk[i] if i < len(dk) else "d%d" % i, v) for i, v in enumerate(vals)]

    # -- nodes ----------------------------------------------------------------------------------
    def node(self, i, deps):
        rng = self.rng
        if not deps:
            r = rng.random()
            if r < 0.3:
                return ("lit", self.scalar())
            if r < 0.45:
                return self.quoted()
            if r < 0.6:
                v = self.inert_value()
                if self.mode == "legacy" and type(v) is list and not v:
                    return ("list", [])
                return ("lit", v)
            if r < 0.7:
                return ("list", [self.inert(1) for _ in range(rng.randint(0, 2))])
            if r < 0.75:
                return ("dict", [("a", ("lit", self.inert_value(1)))][: rng.randint(0, 1)])
            return ("call", rng.choice(TAGGED + ("lst", "tup")), [self.inert(1) for _ in range(rng.randint(0, 2))])
        r = rng.random()
        if len(deps) == 1 and r < 0.22:
            return self.ref(deps[0]) if self.mode == "legacy" else ("ref", deps[0])
        if r < 0.34:
            return ("list", self.wrap(deps, 1, False))
        if r < 0.38 and (self.dictactive or self.mode != "legacy"):
            return ("dict", self.dict_items(deps, 1))
        args = self.wrap(deps)
        r2 = rng.random()
        if r2 < 0.16:
            # keyword values taken from the arguments (references travel in the kwargs)
            nkw = rng.randint(1, min(2, len(args)))
            kws = [("kw%d" % q, args.pop()) for q in range(nkw)]
            form = "dictcall"
            if self.mode == "legacy" and (self.dictactive or not any(has_active(v) for _, v in kws)) and rng.random() < 0.6:
                form = "rawdict"
            return ("kwcall", rng.choice(TAGGED + ("kwpack",)), args, kws, form)
        if r2 < 0.26:
            # inert keyword values in a raw dict (nothing to evaluate inside it)
            kws = [("opt%d" % q, ("lit", self.inert_value(1))) for q in range(rng.randint(0, 2))]
            return ("kwcall", rng.choice(TAGGED + ("kwpack",)), args, kws, "rawdict" if self.mode == "legacy" else "dictcall")
        if len(args) == 1 and rng.random() < 0.25:
            fn = rng.choice(("ident", "first"))
        else:
            fn = rng.choice(TAGGED + ("lst", "tup"))
        return ("call", fn, args)


FAMILIES = ("random", "random", "chain", "fan", "diamond", "aliaschain")


def random_prog(seed, n, style, mode, dictactive=False, family="random", exotic=False):
    rng = random.Random(seed)
    keys = make_keys(style, n, perm_seed=rng.randrange(1, 10 ** 6))
    gen = Gen(rng, keys, mode, dictactive, exotic)
    val = {}
    prog = Prog(keys, [])
    terms = prog.terms
    for i in range(n):
        if i == 0:
            deps = []
        elif family == "chain":
            deps = [i - 1]
        elif family == "aliaschain":
            deps = [i - 1] if i < n - 1 or n < 3 else [i - 1, 0]
        elif family == "fan":
            deps = [] if i < n - 1 else list(range(n - 1))[:6]
        elif family == "diamond":
            deps = [] if i == 0 else ([0] if i < n - 1 else list(range(1, n - 1))[:5] or [0])
        else:
            k = rng.randint(0, min(3, i))
            deps = sorted(rng.sample(range(i), k))
        if family == "aliaschain" and 0 < i < n - 1 and rng.random() < 0.8:
            t = gen.ref(i - 1) if mode == "legacy" else ("ref", i - 1)
        else:
            t = gen.node(i, deps)
        terms.append(t)
        prog.n = len(terms)
        try:
            val[i] = prog.ev(t, val)
        except TypeError:
            # an unhashable value inside a set: the reference (python) refuses -> plain replacement
            t = ("call", "lst", [("ref", j) for j in deps])
            terms[-1] = t
            val[i] = prog.ev(t, val)
        try:
            hash(val[i])
            gen.hashable[i] = True
        except TypeError:
            gen.hashable[i] = False
    return prog


# ---- complete small space ---------------------------------------------------------------------

LEAF_FORMS = 9
WRAP_FORMS = 14


def leaf_term(v, keys, i, mode):
    own = keys[i]
    other = keys[(i + 1) % len(keys)]
    qhow = "literal" if mode == "legacy" else "data"
    if v == 0:
        return ("lit", 1000)
    if v == 1:
        return ("q", other, qhow)                                  # key-like literal (another node's key)
    if v == 2:
        return ("q", [own, other], "quote" if mode == "legacy" else "data")
    if v == 3:
        return ("list", [])
    if v == 4:
        return ("call", "f", [("lit", "a"), ("q", other, qhow)])
    if v == 5:
        return ("lit", P2("a", 1000))
    if v == 6:
        return ("lit", ("t", "u"))
    if v == 7:
        return ("dict", [("a", ("lit", [1000]))])
    return ("list", [("lit", "a"), ("call", "g", [("lit", 1000)]), ("list", [])])


def wrap_term(v, deps, mode):
    """one of WRAP_FORMS ways of mentioning all deps"""
    R = [("ref", j) for j in deps]
    one = len(R) == 1
    if v == 0:
        return ("call", "f", R)
    if v == 1:
        return ("call", "f", [("list", R)])
    if v == 2:
        return ("call", "f", [("call", "g", R[:1])] + R[1:])
    if v == 3:
        return ("call", "f", [("dict", [("d%d" % q, r) for q, r in enumerate(R)])])
    if v == 4:
        return ("call", "f", [("dict", [("a", ("list", R))])])
    if v == 5:
        return ("call", "f", [("list", [("list", R[:1]), ("lit", 1000)])] + R[1:])
    if v == 6:
        return ("kwcall", "f", R[1:], [("kw", R[0])], "dictcall")
    if v == 7:
        return ("kwcall", "f", R[1:], [("kw", R[0])], "rawdict")
    if v == 8:
        return ("call", "f", [("q", "KEY0", "literal" if mode == "legacy" else "data")] + R)
    if v == 9:
        return ("call", "f", [("list", [("call", "g", R[:1])] + R[1:])])
    if v == 10:
        return ("call", "f", [("list", [("dict", [("a", R[0])])])] + R[1:])
    if v == 11:
        return ("list", R + [("lit", "a")])
    if v == 12:
        return R[0] if one else ("list", [("list", R)])
    return ("dict", [("a", R[0])] + ([("b", ("list", R[1:]))] if not one else []))


def small_prog(n, mask, variants, style, mode):
    pairs = [(j, i) for i in range(n) for j in range(i)]
    deps = {i: [] for i in range(n)}
    for b, (j, i) in enumerate(pairs):
        if mask >> b & 1:
            deps[i].append(j)
    keys = make_keys(style, n)
    terms = []
    for i in range(n):
        t = wrap_term(variants[i], deps[i], mode) if deps[i] else leaf_term(variants[i], keys, i, mode)
        t = _subst_key0(t, keys[deps[i][0]] if deps[i] else keys[0])
        terms.append(t)
    return Prog(keys, terms)


def _subst_key0(t, k):
    if t[0] == "q" and t[1] == "KEY0":
        return ("q", k, t[2])
    if t[0] == "call":
        return ("call", t[1], [_subst_key0(x, k) for x in t[2]])
    return t


def small_space(nmax):
    """(n, mask, variants) for every shape on n<=nmax nodes x every leaf/wrap form per node"""
    import itertools

    for n in range(1, nmax + 1):
        pairs = [(j, i) for i in range(n) for j in range(i)]
        for mask in range(2 ** len(pairs)):
            hasdep = [any(mask >> b & 1 and i == ii for b, (j, ii) in enumerate(pairs)) for i in range(n)]
            for variants in itertools.product(*[range(WRAP_FORMS if hd else LEAF_FORMS) for hd in hasdep]):
                yield n, mask, list(variants)
