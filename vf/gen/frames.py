"""DataFrame workload helpers (DESIGN 4.6): frames, partitionings, comparison
discipline, and the cross-cutting divisions / meta monitors.

IMPORTANT: in every process call `setup()` first (imports pandas, installs the
pyarrow import stub, then imports dask.dataframe)."""
from __future__ import annotations

import random

import numpy as np
import pandas as pd

_dd = None


def setup():
    """pandas first, then the pyarrow import stub, then dask.dataframe."""
    global _dd
    if _dd is None:
        import vf.shim

        vf.shim.install_pyarrow()
        import dask
        import dask.dataframe as dd

        dask.config.set({"dataframe.convert-string": False})
        _dd = dd
    return _dd


# --------------------------------------------------------------------------
# frames

INDEX_KINDS = ("range", "sorted", "dups", "unsorted", "datetime", "strings", "float")
COLSETS = {
    "basic": ("a", "b", "c", "d", "e"),
    "wide": ("a", "b", "c", "d", "e", "t", "k", "n", "m"),
}


def rand_frame(seed, nrows=None, nmax=30, index="range", cols="basic", nan=True):
    """Columns: a int64 (few distinct), b str, c float64 (NaN), d float64 integral, e bool,
    t datetime64[ns], k categorical, n nullable Int64 (NA), m nullable boolean."""
    r = np.random.default_rng(seed)
    n = int(r.integers(0, nmax + 1)) if nrows is None else nrows
    data = {}
    names = COLSETS[cols] if isinstance(cols, str) else tuple(cols)
    if "a" in names:
        data["a"] = r.integers(0, 4, n).astype("int64")
    if "b" in names:
        data["b"] = pd.array(r.choice(["x", "y", "z", "w", "xy"], n) if n else [], dtype="str")
    if "c" in names:
        c = np.round(r.normal(size=n), 2)
        if nan and n:
            c[r.random(n) < 0.2] = np.nan
        data["c"] = c
    if "d" in names:
        data["d"] = r.integers(-3, 4, n).astype("float64")
    if "e" in names:
        data["e"] = r.random(n) < 0.5
    if "t" in names:
        data["t"] = pd.to_datetime("2020-01-01") + pd.to_timedelta(r.integers(0, 50, n), unit="h")
    if "k" in names:
        data["k"] = pd.Categorical(r.choice(["p", "q", "r"], n) if n else [], categories=["p", "q", "r", "unused"])
    if "n" in names:
        v = pd.array(r.integers(0, 5, n), dtype="Int64")
        if nan and n:
            v[r.random(n) < 0.2] = pd.NA
        data["n"] = v
    if "m" in names:
        v = pd.array(r.random(n) < 0.5, dtype="boolean")
        if nan and n:
            v[r.random(n) < 0.15] = pd.NA
        data["m"] = v
    df = pd.DataFrame(data)
    df.index = make_index(r, n, index)
    return df


def make_index(r, n, kind):
    if kind == "range":
        return pd.RangeIndex(n)
    if kind == "sorted":
        return pd.Index(np.sort(r.choice(np.arange(3 * n + 1), n, replace=False)) if n else np.array([], dtype="int64"), name="idx")
    if kind == "dups":  # sorted with duplicates (duplicates straddle would-be boundaries)
        return pd.Index(np.sort(r.integers(0, max(1, n // 2), n)).astype("int64"), name="idx")
    if kind == "unsorted":
        return pd.Index(r.permutation(n).astype("int64"))
    if kind == "datetime":
        return pd.DatetimeIndex(pd.to_datetime("2021-03-01") + pd.to_timedelta(np.sort(r.integers(0, 4 * n + 1, n)), unit="min"), name="ts")
    if kind == "strings":
        return pd.Index(sorted("s%03d" % v for v in r.integers(0, 2 * n + 1, n)), dtype="str", name="sid")
    if kind == "float":
        return pd.Index(np.sort(np.round(r.random(n) * 10, 1)), name="fx")
    raise ValueError(kind)


# --------------------------------------------------------------------------
# partitionings

def partition(pdf, desc, seed=0):
    """desc: {"how": "npartitions"|"chunksize"|"slices"|"delayed", "n": int, "cuts": [...], "clear": bool}
    - npartitions/chunksize: dd.from_pandas (sort only when the index is monotonic)
    - slices: dd.from_map over arbitrary row slices INCLUDING EMPTY partitions, divisions unknown
    - slices_div: same slices but with known divisions when the index is sorted and slices respect it
    """
    dd = setup()
    how = desc.get("how", "npartitions")
    n = len(pdf)
    mono = bool(pdf.index.is_monotonic_increasing)
    if how == "npartitions" or n == 0 and how == "chunksize":
        out = dd.from_pandas(pdf, npartitions=max(1, desc.get("n", 2)), sort=mono)
    elif how == "chunksize":
        out = dd.from_pandas(pdf, chunksize=max(1, desc.get("n", 3)), sort=mono)
    elif how in ("slices", "delayed"):
        cuts = sorted(min(max(0, c), n) for c in desc.get("cuts", []))
        b = [0] + cuts + [n]
        parts = [pdf.iloc[x:y] for x, y in zip(b[:-1], b[1:])]
        if how == "slices":
            out = dd.from_map(_ident, parts, meta=pdf.iloc[:0])
        else:
            import dask

            out = dd.from_delayed([dask.delayed(_ident)(p) for p in parts], meta=pdf.iloc[:0])
    else:
        raise ValueError(how)
    if desc.get("clear"):
        out = out.clear_divisions()
    return out


def _ident(p):
    return p


def rand_partition_desc(rng: random.Random, n, allow_unknown=True):
    k = rng.choice(("npartitions", "npartitions", "chunksize", "slices", "delayed") if allow_unknown
                   else ("npartitions", "npartitions", "chunksize"))
    if k == "npartitions":
        return {"how": k, "n": rng.randint(1, 6), "clear": allow_unknown and rng.random() < 0.15}
    if k == "chunksize":
        return {"how": k, "n": rng.randint(1, max(1, n)), "clear": allow_unknown and rng.random() < 0.15}
    return {"how": k, "cuts": [rng.randint(0, max(0, n)) for _ in range(rng.randint(0, 5))]}


# --------------------------------------------------------------------------
# comparison discipline (own code on top of pandas.testing; not dask's assert_eq)

def _norm_dtype(dt):
    s = str(dt)
    # documented equivalence: python-backed str dtype vs object holding strings
    if s in ("object", "str", "string", "string[python]"):
        return "strlike"
    return s


def compare(r, e, ordered=True, rtol=1e-9, check_dtype=True, check_index=True, check_names=True, sort_cols=None):
    """None when equal, else (kind, message); kind in {kind, columns, dtype, length, index, values, name}."""
    if isinstance(e, pd.DataFrame):
        if not isinstance(r, pd.DataFrame):
            return ("kind", "got %s, expected DataFrame" % type(r).__name__)
        if list(r.columns) != list(e.columns):
            return ("columns", "columns %s vs expected %s" % (list(r.columns), list(e.columns)))
        if check_dtype:
            for c in range(len(e.columns)):
                if _norm_dtype(r.dtypes.iloc[c]) != _norm_dtype(e.dtypes.iloc[c]):
                    return ("dtype", "column %r dtype %s vs expected %s" % (e.columns[c], r.dtypes.iloc[c], e.dtypes.iloc[c]))
        if len(r) != len(e):
            return ("length", "%d rows vs expected %d" % (len(r), len(e)))
        if not ordered:
            r, e = _sorted(r, check_index), _sorted(e, check_index)
        try:
            pd.testing.assert_frame_equal(r, e, rtol=rtol, check_dtype=False, check_index_type=False,
                                          check_names=check_names, check_categorical=False,
                                          check_freq=False, check_column_type=False,
                                          **({} if check_index else {"check_index": False}))
        except TypeError:
            rr, ee = (r, e) if check_index else (r.reset_index(drop=True), e.reset_index(drop=True))
            try:
                pd.testing.assert_frame_equal(rr, ee, rtol=rtol, check_dtype=False, check_index_type=False,
                                              check_names=check_names, check_categorical=False, check_freq=False,
                                              check_column_type=False)
            except AssertionError as ex:
                return _classify(ex)
        except AssertionError as ex:
            return _classify(ex)
        return None
    if isinstance(e, pd.Series):
        if not isinstance(r, pd.Series):
            return ("kind", "got %s, expected Series" % type(r).__name__)
        if check_dtype and _norm_dtype(r.dtype) != _norm_dtype(e.dtype):
            return ("dtype", "dtype %s vs expected %s" % (r.dtype, e.dtype))
        if len(r) != len(e):
            return ("length", "%d vs expected %d" % (len(r), len(e)))
        if check_names and r.name != e.name and not (pd.isna(r.name) and pd.isna(e.name)):
            return ("name", "name %r vs expected %r" % (r.name, e.name))
        if not ordered:
            r, e = _sorted(r, check_index), _sorted(e, check_index)
        if not check_index:
            r, e = r.reset_index(drop=True), e.reset_index(drop=True)
        try:
            pd.testing.assert_series_equal(r, e, rtol=rtol, check_dtype=False, check_index_type=False,
                                           check_names=False, check_categorical=False, check_freq=False)
        except AssertionError as ex:
            return _classify(ex)
        return None
    if isinstance(e, pd.Index):
        if not isinstance(r, pd.Index):
            return ("kind", "got %s, expected Index" % type(r).__name__)
        if not ordered:
            r, e = r.sort_values(), e.sort_values()
        try:
            pd.testing.assert_index_equal(r, e, exact=False, check_names=check_names)
        except AssertionError as ex:
            return _classify(ex)
        return None
    # scalars
    if isinstance(r, (pd.DataFrame, pd.Series, pd.Index)):
        return ("kind", "got %s, expected scalar %r" % (type(r).__name__, e))
    try:
        if pd.isna(e) and pd.isna(r):
            return None
    except (TypeError, ValueError):
        pass
    if isinstance(e, (float, np.floating)) or isinstance(r, (float, np.floating)):
        try:
            if np.isclose(float(r), float(e), rtol=max(rtol, 1e-12), atol=1e-12, equal_nan=True):
                return None
        except (TypeError, ValueError):
            pass
        return ("values", "scalar %r vs expected %r" % (r, e))
    try:
        if r == e:
            return None
    except Exception:  # noqa: BLE001
        pass
    return ("values", "scalar %r vs expected %r" % (r, e))


def _classify(ex):
    s = " ".join(str(ex).split())
    low = s.lower()
    if "index" in low and "values are different" in low or "index are different" in low or ".index" in low:
        kind = "index"
    elif "names" in low or "name" in low and "attribute" in low:
        kind = "name"
    elif "dtype" in low or "classes are different" in low:
        kind = "dtype"
    elif "shape mismatch" in low or "length" in low:
        kind = "length"
    else:
        kind = "values"
    return (kind, s[:300])


def _sorted(x, with_index=True):
    """Row-multiset normalisation: sort by all columns (NaN last), then by index, stable."""
    if isinstance(x, pd.Series):
        df = x.to_frame(name="__v")
    else:
        df = x.copy()
        df.columns = ["__c%d" % i for i in range(df.shape[1])]
    if with_index:
        if isinstance(df.index, pd.MultiIndex):
            idx = df.index.to_frame(index=False)
            idx.columns = ["__i%d" % i for i in range(idx.shape[1])]
        else:
            idx = pd.DataFrame({"__i0": df.index})
        idx.index = df.index
        df2 = pd.concat([df, idx], axis=1)
    else:
        df2 = df
    keys = _sortable(df2)
    order = keys.sort_values(list(keys.columns), kind="stable", na_position="last").index
    pos = pd.Series(np.arange(len(df2)), index=df2.index)
    # positions (index labels may repeat): sort by positional order derived from the sorted key frame
    keys2 = keys.reset_index(drop=True)
    order = keys2.sort_values(list(keys2.columns), kind="stable", na_position="last").index
    out = x.iloc[order]
    if not with_index:
        out = out.reset_index(drop=True)
    return out


def _sortable(df):
    out = {}
    for c in df.columns:
        s = df[c]
        if isinstance(s.dtype, pd.CategoricalDtype):
            s = s.astype("object")
        if s.dtype == object or str(s.dtype) in ("str", "string"):
            s = s.map(lambda v: "" if v is None or v is pd.NA or (isinstance(v, float) and np.isnan(v)) else str(v))
        out[c] = s.reset_index(drop=True)
    res = pd.DataFrame(out)
    res.index = df.index
    return res


# --------------------------------------------------------------------------
# cross-cutting monitors

def divisions_violation(ddf, parts=None):
    """C41: known divisions describe the partitions truthfully. Returns (kind, msg) or None.
    parts: optionally the already computed list of partitions."""
    if not ddf.known_divisions:
        return None
    div = ddf.divisions
    if ddf.npartitions != len(div) - 1:
        return ("npartitions-vs-divisions", "npartitions=%d but len(divisions)-1=%d" % (ddf.npartitions, len(div) - 1))
    if parts is None:
        import dask

        parts = dask.compute(*[ddf.partitions[i] for i in range(ddf.npartitions)], scheduler="sync")
    for i, p in enumerate(parts):
        if len(p) == 0:
            continue
        idx = p.index
        lo, hi = idx.min(), idx.max()
        last = i == len(parts) - 1
        try:
            if lo < div[i]:
                return ("index-below-division", "partition %d holds index %r below divisions[%d]=%r (divisions %r)" % (i, lo, i, div[i], div))
            if (hi > div[i + 1]) if last else (hi >= div[i + 1]):
                return ("index-above-division", "partition %d holds index %r, interval is [%r, %r%s (divisions %r)"
                        % (i, hi, div[i], div[i + 1], "]" if last else ")", div))
        except TypeError as ex:
            return ("division-type", "cannot compare index %r with divisions %r: %s" % (lo, div, ex))
    for a, b in zip(div, div[1:]):
        try:
            if a > b:
                return ("divisions-not-sorted", "divisions %r" % (div,))
        except TypeError:
            pass
    return None


def meta_violation(ddf, value=None, parts=None):
    """C42: computed object kind, columns, dtypes, index name/dtype agree with ._meta, for the whole
    result and for each partition.  Empty partitions are compared on structure only."""
    import dask

    meta = ddf._meta
    if value is None:
        value = ddf.compute(scheduler="sync")
    objs = [("result", value)]
    if parts is None and hasattr(ddf, "npartitions") and hasattr(ddf, "partitions"):
        try:
            parts = dask.compute(*[ddf.partitions[i] for i in range(ddf.npartitions)], scheduler="sync")
        except Exception:  # noqa: BLE001
            parts = None
    for i, p in enumerate(parts or ()):
        objs.append(("partition %d" % i, p))
    for where, v in objs:
        m = _meta_one(meta, v)
        if m:
            return (m[0], "%s: %s" % (where, m[1]))
    return None


def _meta_one(meta, v):
    if isinstance(meta, pd.DataFrame):
        if not isinstance(v, pd.DataFrame):
            return ("meta-kind", "meta is DataFrame, computed %s" % type(v).__name__)
        if list(meta.columns) != list(v.columns):
            return ("meta-columns", "meta columns %s, computed %s" % (list(meta.columns), list(v.columns)))
        for c in range(len(meta.columns)):
            if _norm_dtype(meta.dtypes.iloc[c]) != _norm_dtype(v.dtypes.iloc[c]):
                return ("meta-dtype", "column %r: meta %s, computed %s" % (meta.columns[c], meta.dtypes.iloc[c], v.dtypes.iloc[c]))
    elif isinstance(meta, pd.Series):
        if not isinstance(v, pd.Series):
            return ("meta-kind", "meta is Series, computed %s" % type(v).__name__)
        if _norm_dtype(meta.dtype) != _norm_dtype(v.dtype):
            return ("meta-dtype", "meta %s, computed %s" % (meta.dtype, v.dtype))
        if meta.name != v.name and not (pd.isna(meta.name) and pd.isna(v.name)):
            return ("meta-name", "meta name %r, computed %r" % (meta.name, v.name))
    elif isinstance(meta, pd.Index):
        if not isinstance(v, pd.Index):
            return ("meta-kind", "meta is Index, computed %s" % type(v).__name__)
        if _norm_dtype(meta.dtype) != _norm_dtype(v.dtype):
            return ("meta-dtype", "meta index dtype %s, computed %s" % (meta.dtype, v.dtype))
        return None
    else:
        if isinstance(v, (pd.DataFrame, pd.Series, pd.Index)):
            return ("meta-kind", "meta is scalar %r, computed %s" % (type(meta).__name__, type(v).__name__))
        return None
    mi, vi = meta.index, v.index
    if mi.names != vi.names:
        return ("meta-index-name", "meta index names %s, computed %s" % (list(mi.names), list(vi.names)))
    if len(vi) and _norm_dtype(mi.dtype) != _norm_dtype(vi.dtype):
        return ("meta-index-dtype", "meta index dtype %s, computed %s" % (mi.dtype, vi.dtype))
    return None
