"""C42 program generator: compact C37-C40 / C46 style operations (reductions, groupby aggregations, merge/concat,
set_index / sort_values / drop_duplicates, windows / cumulatives / shift / diff, repartition and friends).

The C42 monitor is about META (lazy ``._meta`` vs computed object), so these generators are broad rather than
deep: value correctness belongs to the owning properties.  One JSON description drives dask and pandas:

    desc = gen_program(random.Random(seed), klass=None | one of CLASSES)
    lazy = apply(desc, ddf, True, other=ddf2)        # dask collection (or Scalar)
    ref  = apply(desc, pdf, False, other=pdf2)       # pandas object (only used to reject invalid programs)

Frames are ``vf.gen.frames.rand_frame(cols="wide")`` (a int64, b str, c float NaN, d float, e bool, t datetime,
k categorical, n Int64, m boolean).  ``other`` is a second frame with the same columns.

Consumer classes (second half of this file): ``indexcol`` (index <-> column moves; the frame gets the index named in
``desc["ix"]`` by ``prepare_frame``), ``pushdown`` (one frame operation of _expr.py) and ``select-after`` (a program of
the classes above) each END with a consumer ("tail": column selection(s), sibling arithmetic, filter, assign, .index,
reduction, reset_index()[col]).  ``apply(desc, frame, is_dask, other, upto="inner" | k)`` evaluates the program
without its consumer (indexcol: only the first k moves).  A tail is static (indexcol: the generator tracks kind,
columns, dtype classes, index name and whether reset_index made the index partition-local) or dynamic
(``{"op", "dyn": seed}``: columns and predicates are drawn from ``R.columns`` / ``R.dtypes`` when it is applied, see
``resolve_tail``).  ``consumer_head`` / ``indexcol_features`` / ``TAIL_FAMILY`` give the label heads.
"""
from __future__ import annotations

import pandas as pd

CLASSES = ("reduction", "groupby-agg", "merge", "concat", "shuffle", "window", "repartition", "index", "astype",
           "indexcol", "pushdown", "select-after")
NUMCOLS = ["a", "c", "d"]


def _pick(r, seq):
    return seq[r.randrange(len(seq))]


def gen_program(rng, klass=None, known=True, k=None):
    """``k`` (pushdown only): running number of the case, so that the operations are taken in turn"""
    r = rng
    klass = klass or _pick(r, CLASSES)
    fn = "g_" + klass.replace("-", "_")
    if klass == "pushdown":
        return g_pushdown(r, known, k)
    return (globals().get(fn) or getattr(_Gen, fn))(r, known)


class _Gen:
    # ------------------------------------------------------------------ reductions
    @staticmethod
    def g_reduction(r, known):
        w = r.random()
        kw = {}
        if w < 0.45:      # series reductions -> scalar (or Series for value_counts / describe)
            fn = _pick(r, ["sum", "mean", "count", "min", "max", "std", "var", "nunique", "value_counts", "value_counts",
                           "value_counts", "value_counts", "describe", "any", "all", "size", "median_approximate", "unique",
                           "mode"])
            cols = {"sum": "acdne", "mean": "acdn", "count": "abcdetknm", "min": "acdnt", "max": "acdnbt", "std": "acd",
                    "var": "acd", "nunique": "abcdkn", "value_counts": "abekn", "describe": "acd", "any": "em",
                    "all": "e", "size": "ab", "median_approximate": "acd", "unique": "abk", "mode": "ab"}[fn]
            col = _pick(r, list(cols))
            if fn in ("sum", "mean", "min", "max", "std", "var") and r.random() < 0.4:
                kw["skipna"] = bool(r.getrandbits(1))
            if fn in ("sum", "mean", "count", "min", "max", "nunique") and r.random() < 0.3:
                kw["split_every"] = 2
            if fn == "value_counts":
                if r.random() < 0.4:
                    kw["sort"] = bool(r.getrandbits(1))
                if r.random() < 0.5:
                    kw["normalize"] = True
                if r.random() < 0.3:
                    kw["dropna"] = bool(r.getrandbits(1))
            if fn == "sum" and r.random() < 0.2:
                kw["min_count"] = r.choice([0, 1])
            return {"class": "reduction", "form": "%s:series" % fn, "target": col, "fn": fn, "kw": kw}
        if w < 0.85:      # frame reductions -> Series
            fn = _pick(r, ["sum", "mean", "count", "min", "max", "std", "var", "nunique", "describe", "any", "all",
                           "idxmin", "idxmax"])
            target = "num" if fn in ("describe", "std", "var", "idxmin", "idxmax", "nunique") or r.random() < 0.6 else "all"
            if fn in ("any", "all"):
                target = "bool"
            if target == "all" and fn not in ("count",):
                kw["numeric_only"] = True
            if fn in ("sum", "mean", "min", "max") and r.random() < 0.3:
                kw["skipna"] = bool(r.getrandbits(1))
            if fn in ("sum", "mean", "count", "min", "max") and r.random() < 0.3:
                kw["split_every"] = 2
            return {"class": "reduction", "form": "%s:frame" % fn, "target": target, "fn": fn, "kw": kw}
        fn = _pick(r, ["sum", "mean", "min", "max", "count", "any"])          # axis=1 -> Series aligned with the rows
        return {"class": "reduction", "form": "%s:frame-axis1" % fn, "target": "bool" if fn == "any" else "num",
                "fn": fn, "kw": {"axis": 1}}

    # ------------------------------------------------------------------ groupby
    @staticmethod
    def g_groupby_agg(r, known):
        key = _pick(r, ["a", "b", ["a", "b"], "k", "e", "n", ["b", "e"], "a", "b"])
        sel = _pick(r, ["frame", "cols", "series", "series"])
        form = _pick(r, ["method", "method", "method", "str-spec", "list-spec", "dict-spec", "named-spec", "size"])
        gkw = {}
        kw = {}
        if key == "k" or r.random() < 0.15:
            gkw["observed"] = bool(r.getrandbits(1))
        if r.random() < 0.25:
            gkw["sort"] = bool(r.getrandbits(1))
        if key == "n" or r.random() < 0.1:
            gkw["dropna"] = bool(r.getrandbits(1))
        if r.random() < 0.35:
            kw["split_out"] = 2
        fns = ["sum", "mean", "count", "min", "max", "std", "var", "first", "last", "nunique", "median", "prod"]
        d = {"class": "groupby-agg", "key": key, "sel": sel, "gkw": gkw, "kw": kw}
        if form == "size":
            d.update(form="size", spec=None)
        elif form == "method":
            fn = _pick(r, fns)
            if fn == "nunique":
                d["sel"] = "series"
            if fn == "median":
                kw.pop("split_out", None)
            d.update(form="method-%s" % fn, spec=fn)
        elif form == "str-spec":
            d.update(form="str-spec", spec=_pick(r, ["sum", "mean", "max", "count", "std"]))
        elif form == "list-spec":
            d.update(form="list-spec", spec=r.sample(["sum", "mean", "min", "max", "count", "std", "first"], r.randint(1, 3)))
        elif form == "dict-spec":
            spec = {}
            for c in r.sample(["c", "d", "a" if "a" not in (key if isinstance(key, list) else [key]) else "c"], 2):
                spec[c] = _pick(r, ["sum", "mean", "max", ["min", "max"], ["sum", "count"], "count", "first"])
            d.update(form="dict-spec", spec=spec, sel="frame")
        else:
            names = {}
            for i, c in enumerate(r.sample(["c", "d"], r.randint(1, 2))):
                names["o%d" % i] = [c, _pick(r, ["sum", "mean", "max", "min", "count"])]
            d.update(form="named-spec", spec=names, sel="frame")
        d["form"] = d["form"] + (":series" if d["sel"] == "series" else ":frame")
        return d

    # ------------------------------------------------------------------ merge / concat
    @staticmethod
    def g_merge(r, known):
        how = _pick(r, ["inner", "outer", "left", "right", "inner", "outer"])
        on = _pick(r, ["col", "cols", "index", "col"])
        d = {"class": "merge", "how": how, "on": on, "kw": {}}
        if r.random() < 0.3:
            d["kw"]["suffixes"] = ["_l", "_r"]
        if r.random() < 0.2 and on != "index":
            d["kw"]["indicator"] = True
        if r.random() < 0.3:
            d["kw"]["shuffle_method"] = "tasks"
        if r.random() < 0.2:
            d["kw"]["broadcast"] = bool(r.getrandbits(1))
        d["method"] = "join" if on == "index" and r.random() < 0.4 else "merge"
        d["form"] = "%s:on-%s" % (how, on)
        return d

    @staticmethod
    def g_concat(r, known):
        w = r.random()
        if w < 0.75:
            d = {"class": "concat", "axis": 0, "join": _pick(r, ["outer", "inner"]),
                 "cols1": r.sample(["a", "b", "c", "d", "k", "n", "t"], r.randint(1, 4)),
                 "cols2": r.sample(["a", "b", "c", "d", "k", "n", "t"], r.randint(1, 4)),
                 "interleave": bool(r.getrandbits(1)), "nframes": _pick(r, [2, 2, 3])}
            d["form"] = "axis0:%s%s" % (d["join"], "" if set(d["cols1"]) == set(d["cols2"]) else ":different-columns")
            return d
        d = {"class": "concat", "axis": 1, "cols1": r.sample(["a", "b", "c"], r.randint(1, 2)),
             "cols2": r.sample(["d", "e", "k", "n"], r.randint(1, 2)), "series2": r.random() < 0.3}
        d["form"] = "axis1:co-aligned" + (":series" if d["series2"] else "")
        return d

    # ------------------------------------------------------------------ set_index / sort / dedup
    @staticmethod
    def g_shuffle(r, known):
        op = _pick(r, ["set_index", "set_index", "sort_values", "sort_values", "drop_duplicates", "reset_index",
                       "shuffle", "nlargest", "sort_index"])
        d = {"class": "shuffle", "op": op, "kw": {}}
        if op == "set_index":
            d["col"] = _pick(r, ["a", "d", "b", "t", "a"])
            if r.random() < 0.3:
                d["kw"]["drop"] = bool(r.getrandbits(1))
            if r.random() < 0.3:
                d["kw"]["npartitions"] = r.randint(1, 4)
            if r.random() < 0.2:
                d["kw"]["sort"] = False
            d["form"] = "set_index" + (":drop=False" if d["kw"].get("drop") is False else "") + (":sort=False" if "sort" in d["kw"] else "")
        elif op == "sort_values":
            d["by"] = _pick(r, ["a", "c", ["a", "c"], ["b", "d"], "t", "b"])
            d["kw"]["ascending"] = bool(r.getrandbits(1))
            if r.random() < 0.3:
                d["kw"]["na_position"] = _pick(r, ["first", "last"])
            if r.random() < 0.3:
                d["kw"]["npartitions"] = r.randint(1, 4)
            d["form"] = "sort_values"
        elif op == "drop_duplicates":
            d["subset"] = _pick(r, [None, ["a"], ["a", "b"], ["b"], ["k"]])
            d["kw"]["keep"] = _pick(r, ["first", "last"])
            if r.random() < 0.4:
                d["kw"]["split_out"] = 2
            d["series"] = r.random() < 0.25
            d["form"] = "drop_duplicates" + (":series" if d["series"] else "")
        elif op == "reset_index":
            d["kw"]["drop"] = bool(r.getrandbits(1))
            d["series"] = r.random() < 0.3
            d["form"] = "reset_index:drop=%s%s" % (d["kw"]["drop"], ":series" if d["series"] else "")
        elif op == "shuffle":
            d["on"] = _pick(r, ["a", "b", ["a", "b"]])
            if r.random() < 0.5:
                d["kw"]["npartitions"] = r.randint(1, 4)
            d["form"] = "shuffle"
        elif op == "nlargest":
            d["n"] = r.randint(1, 4)
            d["col"] = _pick(r, ["c", "d", "a"])
            d["series"] = r.random() < 0.4
            d["which"] = _pick(r, ["nlargest", "nsmallest"])
            d["form"] = "nlargest" + (":series" if d["series"] else "")
        else:
            d["form"] = "sort_index"
            d["need_known"] = True
        return d

    # ------------------------------------------------------------------ windows
    @staticmethod
    def g_window(r, known):
        op = _pick(r, ["rolling", "rolling", "cum", "cum", "shift", "diff", "fill"])
        target = _pick(r, ["frame", "frame", "series"])
        d = {"class": "window", "op": op, "target": target, "kw": {}}
        if op == "rolling":
            d["window"] = r.randint(1, 5)
            if r.random() < 0.5:
                d["kw"]["min_periods"] = r.randint(1, d["window"])
            if r.random() < 0.3:
                d["kw"]["center"] = True
            d["fn"] = _pick(r, ["sum", "mean", "max", "min", "count", "std", "var", "median"])
            d["form"] = "rolling-%s" % d["fn"]
            d["need_known"] = True
        elif op == "cum":
            d["fn"] = _pick(r, ["cumsum", "cumprod", "cummax", "cummin"])
            d["cols"] = _pick(r, [["a", "c", "d"], ["a"], ["c", "d"], ["a", "n"]])
            if r.random() < 0.2:
                d["kw"]["skipna"] = False
            d["form"] = d["fn"] + (":int" if "a" in d["cols"] else "")
        elif op in ("shift", "diff", "pct_change"):
            d["periods"] = _pick(r, [-2, -1, 1, 1, 2, 3])
            d["cols"] = _pick(r, [["c", "d"], ["a", "d"], ["a"], ["b", "a"], ["t", "e"], ["k", "n"]]) if op == "shift" \
                else _pick(r, [["c", "d"], ["a", "d"], ["a"]])
            d["form"] = op + (":int" if "a" in d["cols"] else "") + (":non-numeric" if set(d["cols"]) & set("btekn") else "")
        else:
            d["fn"] = _pick(r, ["ffill", "bfill"])
            if r.random() < 0.5:
                d["kw"]["limit"] = r.randint(1, 2)
            d["cols"] = ["c", "n", "a"]
            d["form"] = d["fn"]
        d["form"] += ":series" if target == "series" else ":frame"
        return d

    # ------------------------------------------------------------------ repartition and row selections
    @staticmethod
    def g_repartition(r, known):
        op = _pick(r, ["npartitions", "npartitions", "divisions", "head", "tail", "sample", "map_partitions", "loc",
                       "partitions", "clear_divisions", "to_frame", "dropna", "explode-free"])
        d = {"class": "repartition", "op": op}
        if op == "npartitions":
            d["n"] = r.randint(1, 7)
        elif op == "divisions":
            d["need_known"] = True
            d["keep"] = r.random()
        elif op in ("head", "tail"):
            d["n"] = r.randint(0, 5)
            d["npartitions"] = _pick(r, [1, -1])
        elif op == "sample":
            d["frac"] = _pick(r, [0.0, 0.3, 0.7, 1.0])
        elif op == "loc":
            d["need_known"] = True
            d["q"] = [r.random(), r.random()]
        elif op == "partitions":
            d["i"] = r.randint(0, 5)
        elif op == "dropna":
            d["kw"] = _pick(r, [{}, {"how": "all"}, {"subset": ["c"]}, {"thresh": 8}])
        elif op == "explode-free":
            d["op"] = "isna-any"
        d["series"] = r.random() < 0.25
        d["form"] = d["op"] + (":series" if d["series"] else "")
        return d

    # ------------------------------------------------------------------ astype / categorize (meta of dtype conversions)
    @staticmethod
    def g_astype(r, known):
        targets = {"a": ["float64", "Int64", "str", "category", "bool", "int32"], "b": ["category"], "c": ["str", "float32"],
                   "d": ["int64", "Int64", "str", "category"], "e": ["int64", "boolean", "str", "category"],
                   "k": ["str"], "n": ["float64", "str"], "m": ["float64", "Int64"], "t": ["str", "datetime64[s]"]}
        w = r.random()
        if w < 0.6:
            cols = r.sample(sorted(targets), r.randint(1, 4))
            spec = {c: _pick(r, targets[c]) for c in cols}
            tag = "+".join(sorted({("category" if t == "category" else "nullable" if t in ("Int64", "boolean") else
                                    "str" if t == "str" else "numpy") for t in spec.values()}))
            return {"class": "astype", "form": "dict:" + tag, "spec": spec, "target": "frame"}
        if w < 0.8:
            c = _pick(r, sorted(targets))
            t = _pick(r, targets[c])
            return {"class": "astype", "form": "series:" + ("category" if t == "category" else t), "spec": t, "target": c}
        if w < 0.9:
            return {"class": "astype", "form": "categorize", "spec": r.sample(["b", "a", "e"], r.randint(1, 2)), "target": "categorize"}
        t = _pick(r, ["float64", "str", "category"])
        return {"class": "astype", "form": "frame:" + t, "spec": t, "target": "num"}

    # ------------------------------------------------------------------ Index-valued programs
    @staticmethod
    def g_index(r, known):
        op = _pick(r, ["index", "filter-index", "index-to-series", "index-unique", "index-to-frame",
                       "columns-of-empty-selection", "index-min", "index-nunique"])
        return {"class": "index", "op": op, "form": op}


# --------------------------------------------------------------------------- evaluation
def _dd():
    import dask.dataframe as dd

    return dd


def apply(desc, frame, is_dask, other=None, upto=None):
    """``upto`` (new classes only): 'inner' = the program without its final consumer (the tail)."""
    k = desc["class"]
    if k in ("indexcol", "pushdown", "select-after"):
        return globals()["_a_" + k.replace("-", "_")](desc, frame, is_dask, other, upto)
    return globals()["_a_" + k.replace("-", "_")](desc, frame, is_dask, other)


def _a_reduction(d, df, is_dask, other):
    fn, kw = d["fn"], dict(d["kw"])
    if not is_dask:
        kw.pop("split_every", None)
    if d["form"].endswith(":series"):
        s = df[d["target"]]
        if fn == "median_approximate":
            return s.median_approximate() if is_dask else s.median()
        if fn == "size":
            return s.size
        return getattr(s, fn)(**kw)
    x = df[NUMCOLS] if d["target"] == "num" else (df[["e", "m"]] if d["target"] == "bool" else df)
    return getattr(x, fn)(**kw)


def _a_groupby_agg(d, df, is_dask, other):
    key = d["key"]
    keys = key if isinstance(key, list) else [key]
    gkw = dict(d["gkw"])
    kw = dict(d["kw"]) if is_dask else {}
    vals = [c for c in ("c", "d", "a") if c not in keys]
    if d["sel"] == "frame":
        g = df[keys + vals].groupby(key, **gkw)
    elif d["sel"] == "cols":
        g = df.groupby(key, **gkw)[vals[:2]]
    else:
        g = df.groupby(key, **gkw)[vals[0]]
    form = d["form"].split(":")[0]
    if form == "size":
        return g.size(**kw)
    if form.startswith("method-"):
        return getattr(g, d["spec"])(**kw)
    if form in ("str-spec", "list-spec"):
        return g.agg(d["spec"], **kw)
    if form == "dict-spec":
        return g.agg(dict(d["spec"]), **kw)
    spec = {k: tuple(v) for k, v in d["spec"].items()}
    return g.agg(**spec, **kw)


def _second(other):
    return other[["a", "b", "c", "d"]].rename(columns={"d": "z"})


def _a_merge(d, df, is_dask, other):
    kw = dict(d["kw"])
    if "suffixes" in kw:
        kw["suffixes"] = tuple(kw["suffixes"])
    if not is_dask:
        kw.pop("shuffle_method", None)
        kw.pop("broadcast", None)
    right = _second(other)
    left = df[["a", "b", "c", "e", "n"]]
    on = d["on"]
    if on == "col":
        return left.merge(right, how=d["how"], on="a", **kw)
    if on == "cols":
        return left.merge(right, how=d["how"], on=["a", "b"], **kw)
    if on == "index":
        if d["method"] == "join":
            kw.pop("indicator", None)
            sfx = kw.pop("suffixes", ("_l", "_r"))
            kw2 = {k: v for k, v in kw.items() if k in ("shuffle_method",)}
            return left.join(right, how=d["how"], lsuffix=sfx[0], rsuffix=sfx[1], **kw2)
        return left.merge(right, how=d["how"], left_index=True, right_index=True, **kw)
    return left.merge(right, how=d["how"], left_on="a", right_index=True, **kw)


def _a_concat(d, df, is_dask, other):
    if d["axis"] == 0:
        frames = [df[list(d["cols1"])], other[list(d["cols2"])]]
        if d["nframes"] == 3:
            frames.append(df[list(d["cols2"])])
        if is_dask:
            return _dd().concat(frames, join=d["join"], interleave_partitions=d["interleave"])
        return pd.concat(frames, join=d["join"])
    x, y = df[list(d["cols1"])], df[list(d["cols2"])]
    if d["series2"]:
        y = df[d["cols2"][0]]
    return _dd().concat([x, y], axis=1) if is_dask else pd.concat([x, y], axis=1)


def _a_shuffle(d, df, is_dask, other):
    op = d["op"]
    kw = dict(d["kw"])
    if op == "set_index":
        if not is_dask:
            kw.pop("npartitions", None)
            kw.pop("sort", None)
        return df.set_index(d["col"], **kw)
    if op == "sort_values":
        if not is_dask:
            kw.pop("npartitions", None)
        return df.sort_values(d["by"], **kw)
    if op == "drop_duplicates":
        if not is_dask:
            kw.pop("split_out", None)
        if d["series"]:
            return df["b"].drop_duplicates(**kw)
        return df[["a", "b", "k", "e"]].drop_duplicates(subset=d["subset"], **kw)
    if op == "reset_index":
        return (df["c"] if d["series"] else df).reset_index(**kw)
    if op == "shuffle":
        return df.shuffle(d["on"], **kw) if is_dask else df
    if op == "nlargest":
        if d["series"]:
            return getattr(df[d["col"]], d["which"])(d["n"])
        return getattr(df, d["which"])(d["n"], d["col"])
    return df.sort_index() if not is_dask else df.map_partitions(lambda p: p.sort_index(), meta=df._meta)


def _a_window(d, df, is_dask, other):
    op = d["op"]
    kw = dict(d["kw"])
    if op == "rolling":
        x = df[["c", "d"]] if d["target"] == "frame" else df["c"]
        return getattr(x.rolling(d["window"], **kw), d["fn"])()
    cols = list(d["cols"])
    x = df[cols] if d["target"] == "frame" else df[cols[0]]
    if op == "cum":
        return getattr(x, d["fn"])(**kw)
    if op in ("shift", "diff", "pct_change"):
        return getattr(x, op)(d["periods"])
    return getattr(x, d["fn"])(**kw)


def _a_repartition(d, df, is_dask, other):
    op = d["op"]
    x = df["c"] if d.get("series") else df
    if op == "npartitions":
        return x.repartition(npartitions=d["n"]) if is_dask else x
    if op == "divisions":
        if not is_dask:
            return x
        div = list(x.divisions)
        inner = [v for i, v in enumerate(div[1:-1]) if (hash((i, d["keep"])) % 100) / 100.0 < d["keep"]]
        return x.repartition(divisions=[div[0]] + inner + [div[-1]])
    if op in ("head", "tail"):
        if is_dask:
            return getattr(x, op)(d["n"], npartitions=d["npartitions"], compute=False) if op == "head" else x.tail(d["n"], compute=False)
        return getattr(x, op)(d["n"])
    if op == "sample":
        return x.sample(frac=d["frac"], random_state=3)
    if op == "map_partitions":
        return x.map_partitions(_ident) if is_dask else x
    if op == "loc":
        idx = df.index if not is_dask else None
        lo, hi = d["q"]
        if is_dask:
            div = x.divisions
            try:
                span = div[-1] - div[0]
                a, b = sorted([div[0] + span * lo, div[0] + span * hi])
            except TypeError:
                a, b = div[0], div[-1]
            return x.loc[a:b]
        return x
    if op == "partitions":
        return x.partitions[d["i"] % x.npartitions] if is_dask else x
    if op == "clear_divisions":
        return x.clear_divisions() if is_dask else x
    if op == "to_frame":
        return df["c"].to_frame(name="cc")
    if op == "dropna":
        return x.dropna(**d.get("kw", {})) if not d.get("series") else x.dropna()
    if op == "isna-any":
        return df.isna().any(axis=1)
    raise ValueError(op)


def _ident(p):
    return p


def _a_astype(d, df, is_dask, other):
    if d["target"] == "frame":
        return df.astype(dict(d["spec"]))
    if d["target"] == "num":
        return df[NUMCOLS].astype(d["spec"])
    if d["target"] == "categorize":
        cols = list(d["spec"])
        return df.categorize(columns=cols) if is_dask else df.astype({c: "category" for c in cols})
    return df[d["target"]].astype(d["spec"])


def _a_index(d, df, is_dask, other):
    op = d["op"]
    if op == "index":
        return df.index
    if op == "filter-index":
        return df[df.a > 1].index
    if op == "index-to-series":
        return df.index.to_series()
    if op == "index-map":
        return df.index.map(str) if not is_dask else df.index.map(str, meta=pd.Index([], dtype="str", name=df.index.name))
    if op == "index-unique":
        return df.b.unique() if is_dask else pd.Series(df.b.unique(), name="b")
    if op == "index-to-frame":
        return df.index.to_frame(name="ix")
    if op == "columns-of-empty-selection":
        return df[[]]
    if op == "index-min":
        return df.index.min()
    if op == "index-nunique":
        return df.index.nunique()
    raise ValueError(op)


# =========================================================================== consumers ("tails") shared by the new classes
# A tail is the final consumer of the object R built so far.  Column entries are [name, dtype class, source] with dtype
# class in int float str dt cat bool num other and source "ix" (the column was made from the index) or "col".
TAIL_OPS_F = ("getcol", "getcols", "arith1", "arith2", "filter", "filter-getcol", "filter-getcols", "sfilter", "assign",
              "assign-getcols", "index", "getcols-index", "filter-index", "count", "reduce", "self", "reset-getcol",
              "reset-getcols")
_TAIL_W_F = {"getcol": 5, "getcols": 4, "arith1": 1.5, "arith2": 2.5, "filter": 1, "filter-getcol": 3.5, "filter-getcols": 2,
             "sfilter": 1.5, "assign": 0.7, "assign-getcols": 1.5, "index": 0.6, "getcols-index": 0.6, "filter-index": 0.8,
             "count": 0.5, "reduce": 1, "self": 1, "reset-getcol": 0, "reset-getcols": 0}
_TAIL_W_S = {"self": 2, "s-arith": 2, "s-filter": 2.5, "s-index": 0.8, "s-filter-index": 0.6, "s-to_frame-getcol": 1.5,
             "s-reduce": 1, "s-reset-getcol": 0, "s-label": 0}
# frame tail -> the series tail used instead when R turns out to be a Series (dynamic tails only)
_SERIES_FALLBACK = {"getcol": "s-reset-getcol", "getcols": "s-to_frame-getcol", "arith1": "s-arith", "arith2": "s-arith",
                    "filter": "s-filter", "filter-getcol": "s-filter", "filter-getcols": "s-filter", "sfilter": "s-filter",
                    "assign": "s-to_frame-getcol", "assign-getcols": "s-to_frame-getcol", "index": "s-index",
                    "getcols-index": "s-index", "filter-index": "s-filter-index", "count": "s-reduce", "reduce": "s-reduce",
                    "self": "self", "reset-getcol": "s-reset-getcol", "reset-getcols": "s-reset-getcol"}
_READS_INDEX = ("index", "getcols-index", "filter-index", "s-index", "s-filter-index", "reset-getcol", "reset-getcols",
                "s-reset-getcol")


def _wpick(r, weights):
    items = [(k, w) for k, w in weights.items() if w > 0]
    x = r.random() * sum(w for _, w in items)
    for k, w in items:
        x -= w
        if x <= 0:
            return k
    return items[-1][0]


def _pred_for(dt, src):
    if dt in ("int", "Int"):
        return ["gt", 5 if src == "ix" else 1]
    if dt == "num":
        return ["gt", 1]
    if dt == "float":
        return ["gt", 0.0]
    if dt == "str":
        return ["gt", "s010"] if src == "ix" else ["ne", "x"]
    if dt == "dt":
        return ["gt", {"ts": "2021-03-01 00:20:00" if src == "ix" else "2020-01-02 00:00:00"}]
    if dt == "cat":
        return ["ne", "q"]
    if dt == "bool":
        return ["self"]
    return ["notnull"]


def _arith_for(dt):
    if dt in ("int", "float", "num"):
        return ["add", 1]
    if dt == "str":
        return ["add", "_s"]
    if dt == "dt":
        return ["addtd", "1h"]
    if dt == "bool":
        return ["inv"]
    return ["isna"]


def _prefer(r, cols, p_ix=0.55):
    """a column; one made from the index with raised probability"""
    ix = [c for c in cols if c[2] == "ix"]
    if ix and r.random() < p_ix:
        return _pick(r, ix)
    return _pick(r, cols)


def make_tail(r, op, cols, ser=None):
    """concrete tail of kind ``op`` for a frame with the columns ``cols`` (or for the Series ``ser`` = [name, dt, src])"""
    if ser is not None:
        dt, src = ser[1], ser[2]
        if op == "s-arith":
            return {"op": op, "a": _arith_for(dt)}
        if op in ("s-filter", "s-filter-index"):
            return {"op": op, "pred": _pred_for(dt, src)}
        if op == "s-to_frame-getcol":
            nm = _pick(r, ["v", "index", ser[0] if ser[0] is not None else "v"])
            return {"op": op, "name": nm}
        if op == "s-reduce":
            return {"op": op, "fn": _pick(r, ["count", "nunique", "sum" if dt in ("int", "float", "num") else "count"])}
        if op == "s-reset-getcol":
            return {"op": op, "pick": r.random()}
        return {"op": op}
    names = [c[0] for c in cols]
    c1 = _prefer(r, cols)
    rest = [c for c in cols if c[0] != c1[0]] or [c1]
    c2 = _pick(r, rest)
    if op == "getcol":
        return {"op": op, "col": c1[0]}
    if op in ("getcols", "getcols-index", "count", "reset-getcols"):
        k = r.randint(1, max(1, min(3, len(cols) - 1)))
        sel = [c1[0]] + [c[0] for c in r.sample(rest, min(len(rest), k - 1)) if c[0] != c1[0]]
        # (a column is never requested twice: dask cannot concatenate partitions with duplicate column labels when a
        # categorical or an overlap is involved - AttributeError in _union_categoricals_wrapper / "cannot reindex on an axis
        # with duplicate labels" - which is not a matter of the metadata)
        order = _pick(r, ["asis", "asis", "frame", "reversed"])
        if order == "frame":
            sel = [n for n in names if n in sel]
        elif order == "reversed":
            sel = [n for n in reversed(names) if n in sel]
        return {"op": op, "cols": sel}
    if op == "arith1":
        return {"op": op, "col": c1[0], "a": _arith_for(c1[1])}
    if op == "arith2":
        num = ("int", "float", "num")
        return {"op": op, "c1": c1[0], "c2": c2[0], "a": "add2" if c1[1] in num and c2[1] in num else "isna-or"}
    if op in ("filter", "filter-index"):
        return {"op": op, "by": c1[0], "pred": _pred_for(c1[1], c1[2])}
    if op in ("filter-getcol", "sfilter"):
        tgt = _pick(r, [c1, c2, c2])
        return {"op": op, "by": c1[0], "pred": _pred_for(c1[1], c1[2]), "col": tgt[0]}
    if op == "filter-getcols":
        sel = [c[0] for c in r.sample(cols, r.randint(1, max(1, len(cols) - 1)))]
        return {"op": op, "by": c1[0], "pred": _pred_for(c1[1], c1[2]), "cols": sel}
    if op == "assign":
        return {"op": op, "by": c1[0], "a": _arith_for(c1[1])}
    if op == "assign-getcols":
        sel = _pick(r, [["z", c2[0]], [c2[0], "z"], ["z"], [c1[0], "z"]])
        return {"op": op, "by": c1[0], "a": _arith_for(c1[1]), "cols": sel}
    if op == "reduce":
        return {"op": op, "col": c1[0], "fn": _pick(r, ["count", "nunique", "sum" if c1[1] in ("int", "float", "num") else "count"])}
    if op == "reset-getcol":
        return {"op": op, "pick": r.random()}
    return {"op": op}


def _dyn_class(dtype):
    import numpy as np

    # (a bool column is "other": after an outer merge it holds NaN and is object, whatever the meta says)
    if isinstance(dtype, np.dtype) and dtype.kind in "iuf":
        return "num"
    return "other"


def resolve_tail(t, R):
    """concrete tail for the object R (dask collection or pandas object).  Static tails are returned as they are; a
    dynamic tail ``{"op", "dyn": seed}`` picks its columns from ``R.columns`` and its predicate / arithmetic from the
    dtype class (num / bool / other) of ``R.dtypes`` - the lazy meta on the dask side."""
    import random

    if "dyn" not in t:
        return t
    op = t["op"]
    r = random.Random(t["dyn"])
    nd = getattr(R, "ndim", 0)
    kind = type(R).__name__
    if kind == "Index" or isinstance(R, pd.Index) or nd == 0 or not hasattr(R, "dtypes") and not hasattr(R, "dtype"):
        return {"op": "self"}
    if nd == 1:
        sop = op if op.startswith("s-") else _SERIES_FALLBACK[op]
        if sop == "s-label":
            return {"op": sop, "label": t["label"]}
        return make_tail(r, sop, None, ser=[R.name, _dyn_class(R.dtype), "col"])
    if op.startswith("s-"):
        op = "getcol"
    cols = [[c, _dyn_class(dt), "col"] for c, dt in zip(list(R.columns), list(R.dtypes))]
    if not cols or any(isinstance(c[0], tuple) for c in cols) or len({c[0] for c in cols}) < len(cols):
        return {"op": "self"}       # no columns; two-level or repeated column labels are not consumed
    return make_tail(r, op, cols)


def _ix_lit(v):
    if isinstance(v, dict) and "ts" in v:
        return pd.Timestamp(v["ts"])
    return v


def _ix_pred(s, p):
    if p[0] == "gt":
        return s > _ix_lit(p[1])
    if p[0] == "ne":
        return s != _ix_lit(p[1])
    if p[0] == "notnull":
        return s.notnull()
    return s


def _ix_arith(s, a):
    if a[0] == "add":
        return s + a[1]
    if a[0] == "addtd":
        return s + pd.Timedelta(a[1])
    if a[0] == "inv":
        return ~s
    return s.isna()


def apply_tail(t, R, is_dask):
    t = resolve_tail(t, R)
    op = t["op"]
    if op == "self":
        return R
    if op == "getcol":
        return R[t["col"]]
    if op == "getcols":
        return R[list(t["cols"])]
    if op == "arith1":
        return _ix_arith(R[t["col"]], t["a"])
    if op == "arith2":
        x, y = R[t["c1"]], R[t["c2"]]
        return x + y if t["a"] == "add2" else x.isna() | y.isna()
    if op == "filter":
        return R[_ix_pred(R[t["by"]], t["pred"])]
    if op == "filter-getcol":
        return R[_ix_pred(R[t["by"]], t["pred"])][t["col"]]
    if op == "filter-getcols":
        return R[_ix_pred(R[t["by"]], t["pred"])][list(t["cols"])]
    if op == "sfilter":
        return R[t["col"]][_ix_pred(R[t["by"]], t["pred"])]
    if op == "assign":
        return R.assign(z=_ix_arith(R[t["by"]], t["a"]))
    if op == "assign-getcols":
        return R.assign(z=_ix_arith(R[t["by"]], t["a"]))[list(t["cols"])]
    if op == "index":
        return R.index
    if op == "getcols-index":
        return R[list(t["cols"])].index
    if op == "filter-index":
        return R[_ix_pred(R[t["by"]], t["pred"])].index
    if op == "count":
        return R[list(t["cols"])].count()
    if op == "reduce":
        return getattr(R[t["col"]], t["fn"])()
    if op in ("reset-getcol", "s-reset-getcol"):
        RR = R.reset_index()
        cols = list(RR.columns)
        return RR[cols[int(t["pick"] * len(cols)) % len(cols)]]
    if op == "reset-getcols":
        RR = R.reset_index()
        cols = list(RR.columns)
        sel = [c for c in t["cols"] if c in cols]
        return RR[[cols[0]] + sel[:1]]
    if op == "s-arith":
        return _ix_arith(R, t["a"])
    if op == "s-filter":
        return R[_ix_pred(R, t["pred"])]
    if op == "s-index":
        return R.index
    if op == "s-filter-index":
        return R[_ix_pred(R, t["pred"])].index
    if op == "s-to_frame-getcol":
        return R.to_frame(name=t["name"])[t["name"]]
    if op == "s-reduce":
        return getattr(R, t["fn"])()
    if op == "s-label":
        return R[t["label"]]
    raise ValueError(op)


def tail_reads_index(t, R=None):
    tt = resolve_tail(t, R) if R is not None else t
    return tt["op"] in _READS_INDEX


# =========================================================================== class "indexcol": index <-> column moves
IX_POOL = [["a", "int"], ["b", "str"], ["c", "float"], ["d", "float"], ["e", "bool"], ["t", "dt"], ["k", "cat"]]
IX_MOVES = ("reset_index", "set_index", "rename_axis", "index_to_series", "index_to_frame", "to_frame", "rename", "squeeze",
            "add_prefix", "add_suffix")


def prepare_frame(desc, pdf, cs):
    """the frame of an ``indexcol`` program: the rand_frame rows under the index described by ``desc["ix"]`` - dtype int /
    datetime / str / categorical; unnamed, named "ix", named like the column "a" or "c", or literally named "index";
    sorted unique, sorted with duplicates or unsorted - and, with ``colindex``, column d renamed to "index" (so that
    reset_index has to call its new column "level_0")."""
    import numpy as np

    ix = desc["ix"]
    n = len(pdf)
    r = np.random.default_rng(cs % (2 ** 31) + 11)
    if ix["order"] == "dups":
        v = np.sort(r.integers(0, max(1, n // 2), n)).astype("int64")
    else:
        v = np.sort(r.choice(np.arange(3 * n + 1), n, replace=False)).astype("int64") if n else np.array([], dtype="int64")
        if ix["order"] == "unsorted":
            v = r.permutation(v)
    t = ix["dtype"]
    if t == "int":
        idx = pd.Index(v, dtype="int64")
    elif t == "dt":
        idx = pd.DatetimeIndex(pd.Timestamp("2021-03-01") + pd.to_timedelta(v, unit="min"))
    elif t == "str":
        idx = pd.Index(["s%03d" % x for x in v], dtype="str")
    else:
        codes = v % 3 if ix["order"] == "unsorted" else np.sort(v % 3)
        idx = pd.CategoricalIndex(pd.Categorical.from_codes(codes, categories=["p", "q", "r", "u"]))
    out = pdf.rename(columns={"d": "index"}) if ix.get("colindex") else pdf.copy()
    out.index = idx.rename(ix["name"])
    return out


def _ix_newname(ixname, names):
    if ixname is not None:
        return ixname
    return "index" if "index" not in names else "level_0"


def _ix_step(st, mv):
    """symbolic pandas semantics of one move: new state, or None when pandas refuses (name collision) or the move would
    read a partition-local index (after reset_index dask numbers every partition from 0: documented)"""
    import copy

    st = copy.deepcopy(st)
    op = mv["op"]
    F = st["kind"] == "F"
    names = [c[0] for c in st["cols"]] if F else [st["ser"][0]]
    reads_ix = op in ("index_to_series", "index_to_frame", "add_prefix", "add_suffix") or \
        op == "reset_index" and not mv["drop"] or op == "filter" and mv.get("col") is None
    if reads_ix and st["local"]:
        return None
    if op == "reset_index":
        if not mv["drop"]:
            new = _ix_newname(st["ix"][0], names)
            if new in names:
                return None
            if F:
                st["cols"].insert(0, [new, st["ix"][1], "ix"])
            else:
                val = st["ser"]
                st["cols"] = [[new, st["ix"][1], "ix"], [0 if val[0] is None else val[0], val[1], val[2]]]
                st["kind"] = "F"
        st["ix"] = [None, "int"]
        st["local"] = True
    elif op == "set_index":
        if not F:
            return None
        c = [c for c in st["cols"] if c[0] == mv["col"]]
        if not c or (mv["drop"] and len(st["cols"]) < 2) or mv["col"] == st["ix"][0]:
            return None       # (set_index on the name the index already has is a documented no-op in dask)
        st["ix"] = [c[0][0], c[0][1]]
        if mv["drop"]:
            st["cols"] = [x for x in st["cols"] if x[0] != mv["col"]]
        st["local"] = False
        st["unordered"] = True
    elif op == "rename_axis":
        st["ix"][0] = mv["name"]
    elif op == "index_to_series":
        st["kind"], st["ser"] = "S", [st["ix"][0], st["ix"][1], "ix"]
    elif op == "index_to_frame":
        nm = mv["name"] if "name" in mv else (st["ix"][0] if st["ix"][0] is not None else 0)
        st["kind"], st["cols"] = "F", [[nm, st["ix"][1], "ix"]]
    elif op == "to_frame":
        if F:
            return None
        nm = mv["name"] if "name" in mv else (st["ser"][0] if st["ser"][0] is not None else 0)
        st["kind"], st["cols"] = "F", [[nm, st["ser"][1], st["ser"][2]]]
    elif op == "rename":
        if F:
            return None
        st["ser"][0] = mv["name"]
    elif op == "squeeze":
        if F and len(st["cols"]) == 1:
            st["kind"], st["ser"] = "S", list(st["cols"][0])
    elif op in ("add_prefix", "add_suffix"):
        if F:
            return None
        st["ix"][1] = "str"
        st["strlabels"] = True
    elif op == "filter":
        if mv.get("col") is not None and F and mv["col"] not in names:
            return None
    elif op == "project":
        if not F or any(c not in names for c in mv["cols"]):
            return None
        st["cols"] = [[c for c in st["cols"] if c[0] == n][0] for n in mv["cols"]]
    else:
        raise ValueError(op)
    return st


def _ix_propose(r, st):
    F = st["kind"] == "F"
    w = {"reset_index": 6, "rename_axis": 2, "index_to_series": 1.2, "index_to_frame": 1.2, "filter": 1.5, "squeeze": 0.4}
    if F:
        w.update({"set_index": 2.5, "project": 1 if len(st["cols"]) > 1 else 0,
                  "squeeze": 2 if len(st["cols"]) == 1 else 0.3})
    else:
        w.update({"to_frame": 2.5, "rename": 2.5, "add_prefix": 0.5, "add_suffix": 0.3})
    op = _wpick(r, w)
    if op == "reset_index":
        return {"op": op, "drop": r.random() < 0.2}
    if op == "set_index":
        # (not the NaN column c, not bool; an integer column label makes SetIndex._simplify_up fail: "argument of type 'int' is
        # not iterable" - a defect of its own, not a meta matter)
        ok = [c for c in st["cols"] if c[0] != "c" and c[1] != "bool" and isinstance(c[0], str)]
        if not ok:
            return None
        return {"op": op, "col": _prefer(r, ok, 0.4)[0], "drop": r.random() < 0.65}
    if op == "rename_axis":
        return {"op": op, "name": _pick(r, ["ax", "ax", None, "a", "index", "c"])}
    if op == "index_to_frame":
        mv = {"op": op}
        if r.random() < 0.6:
            mv["name"] = _pick(r, ["q", "index", "a"])
        return mv
    if op == "to_frame":
        mv = {"op": op}
        if r.random() < 0.6:
            mv["name"] = _pick(r, ["v", "index", "a", st["ix"][0] if st["ix"][0] is not None else "v"])
        return mv
    if op == "rename":
        return {"op": op, "name": _pick(r, ["v", "index", "level_0", st["ix"][0] if st["ix"][0] is not None else "v"])}
    if op in ("add_prefix", "add_suffix"):
        return {"op": op, "s": "p_" if op == "add_prefix" else "_s"}
    if op == "filter":
        if F:
            if r.random() < 0.25 and not st["local"]:
                return {"op": op, "col": None, "pred": _pred_for(st["ix"][1], "ix")}
            c = _prefer(r, st["cols"])
            return {"op": op, "col": c[0], "pred": _pred_for(c[1], c[2])}
        if r.random() < 0.3 and not st["local"]:
            return {"op": op, "col": None, "pred": _pred_for(st["ix"][1], "ix")}
        return {"op": op, "col": "", "pred": _pred_for(st["ser"][1], st["ser"][2])}
    if op == "project":
        k = r.randint(1, len(st["cols"]) - 1)
        return {"op": op, "cols": [c[0] for c in r.sample(st["cols"], k)]}
    return {"op": op}


def g_indexcol(r, known):
    ix = {"dtype": _pick(r, ["int", "int", "dt", "str", "cat"]),
          "name": _pick(r, [None, None, None, None, "ix", "ix", "a", "c", "index"]),
          "order": _pick(r, ["sorted", "sorted", "dups", "unsorted"]), "colindex": r.random() < 0.2}
    pool = [[("index" if (n == "d" and ix["colindex"]) else n), dt, "col"] for n, dt in IX_POOL]
    st = {"kind": "F", "cols": [], "ix": [ix["name"], ix["dtype"]], "ser": None, "local": False, "unordered": False}
    if r.random() < 0.5:
        c = _pick(r, pool)
        start = {"col": c[0]}
        st.update(kind="S", ser=list(c))
    else:
        cols = r.sample(pool, r.randint(1, 4))
        if r.random() < 0.7:
            cols = [c for c in pool if c in cols]
        start = {"cols": [c[0] for c in cols]}
        st["cols"] = [list(c) for c in cols]
    moves = []
    want = _pick(r, [1, 1, 2, 2, 3])
    focus = r.random() < 0.15
    if focus:
        # the Series branch of ResetIndex._simplify_up: series[.rename | .rename_axis | filter].reset_index() read by ONE
        # column selection (the column made from the index, or the values)
        c = _pick(r, pool)
        start = {"col": c[0]}
        st.update(kind="S", ser=list(c), cols=[])
        pre = _pick(r, [None, None, "rename", "rename_axis", "filter"])
        if pre == "rename":
            moves.append({"op": "rename", "name": _pick(r, ["v", "index", "level_0"])})
        elif pre == "rename_axis":
            moves.append({"op": "rename_axis", "name": _pick(r, ["ax", None, "index"])})
        elif pre == "filter":
            moves.append({"op": "filter", "col": "", "pred": _pred_for(c[1], "col")})
        for mv in moves:
            st = _ix_step(st, mv)
        want = len(moves) + 1
    tries = 0
    while len(moves) < want and tries < 40:
        tries += 1
        mv = _ix_propose(r, st) if not focus else {"op": "reset_index", "drop": False}
        if focus and tries > 1:
            focus = False        # (name collision: go on with ordinary moves)
            continue
        if mv is None:
            continue
        if len(moves) == want - 1 and not any(m["op"] in IX_MOVES for m in moves) and mv["op"] not in IX_MOVES:
            continue
        if moves and mv["op"] == moves[-1]["op"] and mv["op"] in ("filter", "project", "squeeze", "rename", "rename_axis"):
            continue
        st2 = _ix_step(st, mv)
        if st2 is None:
            continue
        if mv["op"] == "reset_index":
            mv["on"] = "series" if st["kind"] == "S" else "frame"
            if not mv["drop"]:
                names = [c[0] for c in st["cols"]] if st["kind"] == "F" else [st["ser"][0]]
                mv["new"] = _ix_newname(st["ix"][0], names)
                if st["kind"] == "S" and st["ser"][0] is None:
                    mv["unnamed_series"] = True
        st = st2
        moves.append(mv)
    if st["kind"] == "F":
        w = dict(_TAIL_W_F)
        if st["local"]:
            for k in ("index", "getcols-index", "filter-index"):
                w[k] = 0
        if len(st["cols"]) < 2:
            w.update({"arith2": 0.3, "getcols": 1})
        if focus:
            w = {"getcol": 3, "arith1": 1, "reduce": 1}
        tail = make_tail(r, _wpick(r, w), st["cols"])
    else:
        w = dict(_TAIL_W_S)
        if st["local"]:
            w.update({"s-index": 0, "s-filter-index": 0})
        tail = make_tail(r, _wpick(r, w), None, ser=st["ser"])
    ixcols = [c[0] for c in st["cols"] if c[2] == "ix"] if st["kind"] == "F" else []
    used = [tail.get(k) for k in ("col", "by", "c1", "c2")] + list(tail.get("cols", []))
    d = {"class": "indexcol", "ix": ix, "start": start, "moves": moves, "tail": tail, "local": st["local"],
         "unordered": st["unordered"], "final": {"kind": st["kind"], "cols": [c[0] for c in st["cols"]] if st["kind"] == "F" else None}}
    nm = "unnamed" if ix["name"] is None else "named-index" if ix["name"] == "index" else \
        "named-like-column" if ix["name"] in ("a", "c") else "named"
    d["inner_form"] = "%s:%s:%s" % ("series" if "col" in start else "frame", ">".join(m["op"] for m in moves), nm)
    d["form"] = "%s:%s>%s%s:%s" % ("series" if "col" in start else "frame", ">".join(m["op"] for m in moves), tail["op"],
                                   "(index-column)" if any(u in ixcols for u in used if u is not None) else "", nm)
    return d


def _ix_move(mv, x, is_dask):
    op = mv["op"]
    if op == "reset_index":
        return x.reset_index(drop=mv["drop"])
    if op == "set_index":
        return x.set_index(mv["col"], drop=mv["drop"])
    if op == "rename_axis":
        return x.rename_axis(mv["name"])
    if op == "index_to_series":
        return x.index.to_series()
    if op == "index_to_frame":
        return x.index.to_frame(name=mv["name"]) if "name" in mv else x.index.to_frame()
    if op == "to_frame":
        return x.to_frame(name=mv["name"]) if "name" in mv else x.to_frame()
    if op == "rename":
        return x.rename(mv["name"])
    if op == "squeeze":
        if x.ndim == 2:
            return x.squeeze(axis=1)
        return x.squeeze() if is_dask else x        # pandas would turn a one-row Series into a scalar
    if op == "add_prefix":
        return x.add_prefix(mv["s"])
    if op == "add_suffix":
        return x.add_suffix(mv["s"])
    if op == "filter":
        col = mv["col"]
        # dask takes an Index inside [] for a list of column labels: the index is read through to_series()
        by = x.index.to_series() if col is None else (x if col == "" else x[col])
        return x[_ix_pred(by, mv["pred"])]
    if op == "project":
        return x[list(mv["cols"])]
    raise ValueError(op)


def _a_indexcol(d, df, is_dask, other, upto=None):
    """upto: None = whole program, "inner" = all moves without the consumer, int k = the first k moves"""
    x = df[d["start"]["col"]] if "col" in d["start"] else df[list(d["start"]["cols"])]
    moves = d["moves"] if not isinstance(upto, int) else d["moves"][:upto]
    for mv in moves:
        x = _ix_move(mv, x, is_dask)
    if upto is not None:
        return x
    return apply_tail(d["tail"], x, is_dask)


TAIL_FAMILY = {"getcol": "getcol", "arith1": "getcol", "reduce": "getcol", "getcols": "getcols", "count": "getcols",
               "arith2": "getcol-siblings", "filter": "filter", "filter-getcol": "filter", "filter-getcols": "filter",
               "sfilter": "filter", "assign": "assign", "assign-getcols": "assign", "index": "index", "getcols-index": "index",
               "filter-index": "filter-index", "self": "self", "reset-getcol": "reset-getcol", "reset-getcols": "reset-getcol",
               "s-reset-getcol": "reset-getcol", "s-arith": "series-arith", "s-filter": "series-filter", "s-index": "series-index",
               "s-filter-index": "series-filter-index", "s-to_frame-getcol": "to_frame-getcol", "s-reduce": "series-reduce",
               "s-label": "label"}


_FILTER_FAMILIES = ("filter", "filter-index", "series-filter", "series-filter-index")
_INDEX_FAMILIES = ("index", "filter-index", "series-index", "series-filter-index")


def indexcol_features(desc, tail=None):
    """the structural features of an indexcol program that decide which optimizer rules meet: ``series.reset_index`` /
    ``frame.reset_index`` (``(drop)`` when the index is dropped), ``level_0`` (the new column had to be called level_0),
    ``unnamed-series`` (the value column is called 0), ``set_index``, ``index-read`` (index.to_series / to_frame / .index),
    ``relabel`` (add_prefix / add_suffix), ``to_frame``, ``filter`` / ``filters>=2`` (moves and consumer together)"""
    t = tail or desc["tail"]
    fam = TAIL_FAMILY[t["op"]]
    feats = []

    def add(f):
        if f not in feats:
            feats.append(f)

    nfilter = 0
    for m in desc["moves"]:
        op = m["op"]
        if op == "reset_index":
            add("%s.reset_index%s" % (m.get("on", "frame"), "(drop)" if m["drop"] else ""))
            if m.get("new") == "level_0":
                add("level_0")
            if m.get("unnamed_series"):
                add("unnamed-series")
        elif op == "set_index":
            add("set_index")
        elif op in ("index_to_series", "index_to_frame"):
            add("index-read")
        elif op in ("add_prefix", "add_suffix"):
            add("relabel")
        elif op == "to_frame":
            add("to_frame")
        elif op == "filter":
            nfilter += 1
            if m.get("col") is None:
                add("index-read")
    if fam in _INDEX_FAMILIES:
        add("index-read")
    if fam in _FILTER_FAMILIES:
        nfilter += 1
    if nfilter:
        feats.append("filter" if nfilter == 1 else "filters>=2")
    return feats or ["plain"]


def consumer_head(desc, tail=None):
    """``<class>:<operations>><consumer family>``: the head of the labels of what only the program WITH its consumer shows.
    indexcol: the structural features (see indexcol_features), the consumer family, whether it reads a column made from
    the index, and how the index is named; pushdown: the operation; select-after: the inner class and form."""
    t = tail or desc["tail"]
    fam = TAIL_FAMILY[t["op"]]
    k = desc["class"]
    if k == "indexcol":
        mark = "(index-column)" if "(index-column)" in desc["form"] else ""
        return "indexcol:%s>%s%s:%s" % ("+".join(indexcol_features(desc, t)), fam, mark, desc["form"].rsplit(":", 1)[1])
    if k == "pushdown":
        return "pushdown:%s>%s" % (desc["op"], fam)
    return "select-after:%s:%s>%s" % (desc["inner"]["class"], desc["inner"]["form"], fam)


# =========================================================================== class "pushdown": one frame operation of _expr.py
# whose optimizer rule (_simplify_up with a Projection / Filter / Index parent, or _simplify_down) was never reached
# because the other classes end with the operation; here it is followed by a consumer
PUSHDOWN_OPS = ("add_prefix", "add_suffix", "drop", "explode", "combine_first", "combine_first-other", "rename", "rename-swap",
                "set_columns", "copy", "dropna-subset", "dropna", "abs", "round", "isna", "notnull", "replace", "neg",
                "invert", "fillna-dict", "fillna", "ffill", "bfill", "diff", "shift", "head-elemwise", "tail-elemwise", "mulmul",
                "map_partitions-required", "rename_axis", "to_frame", "series-rename", "index-to_frame", "index-to_series",
                "sample", "partitions", "repartition", "clear_divisions", "cumsum", "loc-cols", "head-repartition")
_ALLCOLS = ["a", "b", "c", "d", "e", "t", "k", "n", "m"]


def _dyn_tail(r, weights=None, series=False):
    w = dict(weights or _TAIL_W_F)
    w["reset-getcol"] = 1.5
    w["reset-getcols"] = 0.7
    return {"op": _wpick(r, w), "dyn": r.randrange(2 ** 31)}


def _mp_double_a(p):
    return p.assign(a=p["a"] * 2)


def g_pushdown(r, known, k=None):
    op = _pick(r, PUSHDOWN_OPS)
    if k is not None:
        op = PUSHDOWN_OPS[k % len(PUSHDOWN_OPS)]
    d = {"class": "pushdown", "op": op}
    num = ["a", "c", "d"]
    anycols = r.sample(_ALLCOLS, r.randint(3, 6))
    if r.random() < 0.7:
        anycols = [c for c in _ALLCOLS if c in anycols]
    if op in ("abs", "round", "neg", "diff", "invert", "head-elemwise", "tail-elemwise", "cumsum"):       # numeric frames
        d["cols"] = r.sample(num, 3)
    elif op in ("combine_first", "combine_first-other"):
        d["cols"] = r.sample(["a", "b", "c", "d"], r.randint(2, 3))
        d["cols2"] = r.sample(["a", "b", "c", "d", "t"], r.randint(2, 3))
        d["need_unique"] = True
        if op == "combine_first-other":
            d["need_known"] = True
            d["unordered"] = True
    elif op == "explode":
        d["cols"] = anycols if "b" in anycols else anycols + ["b"]
    elif op == "map_partitions-required":
        d["cols"] = anycols if "a" in anycols else ["a"] + anycols
    elif op in ("mulmul", "to_frame", "series-rename"):
        d["cols"] = [_pick(r, num if op == "mulmul" else _ALLCOLS)]
    else:
        d["cols"] = anycols
    cols = d["cols"]
    if op == "drop":
        d["drop"] = r.sample(cols, r.randint(1, len(cols) - 1))
    elif op in ("rename", "rename-swap"):
        if op == "rename-swap" and len(cols) >= 2:
            x, y = r.sample(cols, 2)
            d["mapping"] = {x: y, y: x}
        else:
            d["mapping"] = {c: _pick(r, ["x", "y_" + c, c + c]) for c in r.sample(cols, r.randint(1, 2))}
            if len(set(d["mapping"].values())) < len(d["mapping"]):
                d["mapping"] = {c: c + "_r" for c in d["mapping"]}
    elif op == "set_columns":
        d["names"] = ["n%d" % i for i in range(len(cols))] if r.random() < 0.5 else list(reversed(cols))
    elif op == "dropna-subset":
        d["subset"] = r.sample(cols, r.randint(1, 2))
    elif op == "dropna":
        d["kw"] = _pick(r, [{}, {"how": "all"}, {"thresh": 2}])
    elif op == "fillna-dict":
        fill = {"a": 0, "b": "zz", "c": 0.5, "d": -1.0, "e": False, "n": 7}
        d["value"] = {c: fill[c] for c in cols if c in fill and r.random() < 0.6} or {"c": 0.5}
    elif op in ("ffill", "bfill"):
        d["limit"] = _pick(r, [None, 1, 2])
    elif op in ("diff", "shift"):
        d["periods"] = _pick(r, [-2, -1, 1, 2])
    elif op in ("head-elemwise", "tail-elemwise", "head-repartition"):
        d["n"] = r.randint(0, 5)
        d["novalues"] = True          # head / tail look at one partition only (documented); meta checks only
    elif op == "rename_axis":
        d["name"] = _pick(r, ["ax", "a", "index", None])
    elif op in ("to_frame", "index-to_frame"):
        d["name"] = _pick(r, [None, "v", "index"])
    elif op == "series-rename":
        d["name"] = _pick(r, ["v", "index", "a"])
    elif op == "sample":
        d["frac"] = _pick(r, [0.3, 0.7, 1.0])
        d["novalues"] = True
    elif op == "partitions":
        d["i"] = r.randint(0, 5)
        d["novalues"] = True
    elif op == "repartition":
        d["n"] = r.randint(1, 5)
    elif op == "loc-cols":
        d["sel"] = r.sample(cols, r.randint(1, len(cols) - 1))
    d["tail"] = _dyn_tail(r)
    if op in ("head-elemwise", "tail-elemwise", "head-repartition", "sample", "partitions") and d["tail"]["op"] in ("reduce", "count"):
        d["tail"]["op"] = "getcols"
    d["inner_form"] = op
    d["form"] = "%s>%s" % (op, d["tail"]["op"])
    return d


def _a_pushdown(d, df, is_dask, other, upto=None):
    op = d["op"]
    cols = list(d["cols"])
    x = df[cols]
    if op == "add_prefix":
        R = x.add_prefix("p_")
    elif op == "add_suffix":
        R = x.add_suffix("_s")
    elif op == "drop":
        R = x.drop(columns=list(d["drop"]))
    elif op == "explode":
        R = x.explode("b")
    elif op == "combine_first":
        R = x.combine_first(df[list(d["cols2"])])
    elif op == "combine_first-other":
        R = x.combine_first(other[list(d["cols2"])])
    elif op in ("rename", "rename-swap"):
        R = x.rename(columns=dict(d["mapping"]))
    elif op == "set_columns":
        R = x if is_dask else x.copy()
        R.columns = list(d["names"])
    elif op == "copy":
        R = x.copy()
    elif op == "dropna-subset":
        R = x.dropna(subset=list(d["subset"]))
    elif op == "dropna":
        R = x.dropna(**d["kw"])
    elif op == "abs":
        R = x.abs()
    elif op == "round":
        R = x.round(1)
    elif op == "isna":
        R = x.isna()
    elif op == "notnull":
        R = x.notnull()
    elif op == "replace":
        R = x.replace(1, 9)
    elif op == "neg":
        R = -x
    elif op == "invert":
        R = ~(x > 0)
    elif op == "fillna-dict":
        R = x.fillna(dict(d["value"]))
    elif op == "fillna":
        R = x[[c for c in cols if c in ("a", "c", "d", "n")] or cols].fillna(0)
    elif op in ("ffill", "bfill"):
        R = getattr(x, op)(limit=d["limit"])
    elif op == "diff":
        R = x.diff(d["periods"])
    elif op == "shift":
        R = x.shift(d["periods"])
    elif op == "head-elemwise":
        R = (x + 1).head(d["n"], compute=False) if is_dask else (x + 1).head(d["n"])
    elif op == "tail-elemwise":
        R = (x * 2).tail(d["n"], compute=False) if is_dask else (x * 2).tail(d["n"])
    elif op == "head-repartition":
        R = x.head(d["n"], compute=False).repartition(npartitions=1) if is_dask else x.head(d["n"])
    elif op == "mulmul":
        R = 2 * (3 * df[cols[0]])
    elif op == "map_partitions-required":
        # (without meta= the rule fails on ``self.meta[...]``: TypeError '_NoDefault' object is not subscriptable)
        R = x.map_partitions(_mp_double_a, required_columns=["a"], meta=x._meta) if is_dask else _mp_double_a(x)
    elif op == "rename_axis":
        R = x.rename_axis(d["name"])
    elif op == "to_frame":
        R = df[cols[0]].to_frame() if d["name"] is None else df[cols[0]].to_frame(name=d["name"])
    elif op == "series-rename":
        R = df[cols[0]].rename(d["name"])
    elif op == "index-to_frame":
        R = x.index.to_frame() if d["name"] is None else x.index.to_frame(name=d["name"])
    elif op == "index-to_series":
        R = x.index.to_series()
    elif op == "sample":
        R = x.sample(frac=d["frac"], random_state=3)
    elif op == "partitions":
        R = x.partitions[d["i"] % x.npartitions] if is_dask else x
    elif op == "repartition":
        R = x.repartition(npartitions=d["n"]) if is_dask else x
    elif op == "clear_divisions":
        R = x.clear_divisions() if is_dask else x
    elif op == "cumsum":
        R = x.cumsum()
    elif op == "loc-cols":
        R = x.loc[:, list(d["sel"])]
    else:
        raise ValueError(op)
    if upto == "inner":
        return R
    return apply_tail(d["tail"], R, is_dask)


# =========================================================================== class "select-after": a program of the older
# classes followed by a consumer (projection pushdown through merge / concat / groupby / shuffle / window / repartition ...)
SELECT_AFTER_INNER = ("merge", "merge", "concat", "shuffle", "shuffle", "window", "repartition", "astype", "groupby-agg",
                      "groupby-agg", "reduction")


def g_select_after(r, known):
    k = _pick(r, SELECT_AFTER_INNER)
    for _ in range(20):
        inner = getattr(_Gen, "g_" + k.replace("-", "_"))(r, known)
        if k == "reduction" and not (inner["form"].endswith(":frame") or inner["fn"] in ("value_counts", "describe", "unique", "mode")):
            continue
        if k == "repartition" and inner["op"] in ("head", "tail", "to_frame", "isna-any"):
            continue
        break
    w = dict(_TAIL_W_F)
    if k == "shuffle" and inner["op"] in ("sort_values", "set_index"):
        # the order of rows with EQUAL sort keys is not specified, and a consumer that reads the sorted frame twice gets
        # two differently projected sorts that may order the ties differently (seen: sorted[sorted.a > 1].index pairs the
        # index of one sort with the mask of the other): only consumers that read the sorted frame once
        for fam in ("arith2", "filter", "filter-getcol", "filter-getcols", "sfilter", "assign", "assign-getcols", "filter-index"):
            w[fam] = 0
    if k in ("shuffle", "merge", "groupby-agg"):
        # R[mask(R)].index becomes index(R)[mask(R')] - two copies of R paired by POSITION; where the row order of R is not
        # specified (hash-shuffled outputs, split_out) the copies may differ in order and the result is run-dependent
        w["filter-index"] = 0
    if k == "reduction":
        tail = {"op": "s-label", "dyn": r.randrange(2 ** 31), "label": _pick(r, NUMCOLS)} if inner["form"].endswith(":frame") and \
            inner["target"] == "num" and r.random() < 0.6 else _dyn_tail(r, _TAIL_W_F)
    else:
        tail = _dyn_tail(r, w)
    d = {"class": "select-after", "inner": inner, "tail": tail, "form": "%s:%s>%s" % (k, inner["form"], tail["op"])}
    if inner.get("need_known"):
        d["need_known"] = True
    return d


def _a_select_after(d, df, is_dask, other, upto=None):
    R = apply(d["inner"], df, is_dask, other=other)
    if upto == "inner":
        return R
    return apply_tail(d["tail"], R, is_dask)


def describe(desc):
    import json

    return json.dumps(desc, sort_keys=True, default=str)[:500]
