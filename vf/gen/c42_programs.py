"""C42 program generator: compact C37-C40 / C46 style operations (reductions, groupby aggregations, merge/concat,
set_index / sort_values / drop_duplicates, windows / cumulatives / shift / diff, repartition and friends).

The C42 monitor is about META (lazy ``._meta`` vs computed object), so these generators are broad rather than
deep: value correctness belongs to the owning properties.  One JSON description drives dask and pandas:

    desc = gen_program(random.Random(seed), klass=None | one of CLASSES)
    lazy = apply(desc, ddf, True, other=ddf2)        # dask collection (or Scalar)
    ref  = apply(desc, pdf, False, other=pdf2)       # pandas object (only used to reject invalid programs)

Frames are ``vf.gen.frames.rand_frame(cols="wide")`` (a int64, b str, c float NaN, d float, e bool, t datetime,
k categorical, n Int64, m boolean).  ``other`` is a second frame with the same columns.
"""
from __future__ import annotations

import pandas as pd

CLASSES = ("reduction", "groupby-agg", "merge", "concat", "shuffle", "window", "repartition", "index", "astype")
NUMCOLS = ["a", "c", "d"]


def _pick(r, seq):
    return seq[r.randrange(len(seq))]


def gen_program(rng, klass=None, known=True):
    r = rng
    klass = klass or _pick(r, CLASSES)
    return getattr(_Gen, "g_" + klass.replace("-", "_"))(r, known)


class _Gen:
    # ------------------------------------------------------------------ reductions
    @staticmethod
    def g_reduction(r, known):
        w = r.random()
        kw = {}
        if w < 0.45:      # series reductions -> scalar (or Series for value_counts / describe)
            fn = _pick(r, ["sum", "mean", "count", "min", "max", "std", "var", "nunique", "value_counts", "value_counts",
                           "value_counts", "value_counts", "describe", "any", "all", "size", "median_approximate", "unique",
                           "mode"])
            cols = {"sum": "acdne", "mean": "acdn", "count": "abcdetknm", "min": "acdnt", "max": "acdnbt", "std": "acd",
                    "var": "acd", "nunique": "abcdkn", "value_counts": "abekn", "describe": "acd", "any": "em",
                    "all": "e", "size": "ab", "median_approximate": "acd", "unique": "abk", "mode": "ab"}[fn]
            col = _pick(r, list(cols))
            if fn in ("sum", "mean", "min", "max", "std", "var") and r.random() < 0.4:
                kw["skipna"] = bool(r.getrandbits(1))
            if fn in ("sum", "mean", "count", "min", "max", "nunique") and r.random() < 0.3:
                kw["split_every"] = 2
            if fn == "value_counts":
                if r.random() < 0.4:
                    kw["sort"] = bool(r.getrandbits(1))
                if r.random() < 0.5:
                    kw["normalize"] = True
                if r.random() < 0.3:
                    kw["dropna"] = bool(r.getrandbits(1))
            if fn == "sum" and r.random() < 0.2:
                kw["min_count"] = r.choice([0, 1])
            return {"class": "reduction", "form": "%s:series" % fn, "target": col, "fn": fn, "kw": kw}
        if w < 0.85:      # frame reductions -> Series
            fn = _pick(r, ["sum", "mean", "count", "min", "max", "std", "var", "nunique", "describe", "any", "all",
                           "idxmin", "idxmax"])
            target = "num" if fn in ("describe", "std", "var", "idxmin", "idxmax", "nunique") or r.random() < 0.6 else "all"
            if fn in ("any", "all"):
                target = "bool"
            if target == "all" and fn not in ("count",):
                kw["numeric_only"] = True
            if fn in ("sum", "mean", "min", "max") and r.random() < 0.3:
                kw["skipna"] = bool(r.getrandbits(1))
            if fn in ("sum", "mean", "count", "min", "max") and r.random() < 0.3:
                kw["split_every"] = 2
            return {"class": "reduction", "form": "%s:frame" % fn, "target": target, "fn": fn, "kw": kw}
        fn = _pick(r, ["sum", "mean", "min", "max", "count", "any"])          # axis=1 -> Series aligned with the rows
        return {"class": "reduction", "form": "%s:frame-axis1" % fn, "target": "bool" if fn == "any" else "num",
                "fn": fn, "kw": {"axis": 1}}

    # ------------------------------------------------------------------ groupby
    @staticmethod
    def g_groupby_agg(r, known):
        key = _pick(r, ["a", "b", ["a", "b"], "k", "e", "n", ["b", "e"], "a", "b"])
        sel = _pick(r, ["frame", "cols", "series", "series"])
        form = _pick(r, ["method", "method", "method", "str-spec", "list-spec", "dict-spec", "named-spec", "size"])
        gkw = {}
        kw = {}
        if key == "k" or r.random() < 0.15:
            gkw["observed"] = bool(r.getrandbits(1))
        if r.random() < 0.25:
            gkw["sort"] = bool(r.getrandbits(1))
        if key == "n" or r.random() < 0.1:
            gkw["dropna"] = bool(r.getrandbits(1))
        if r.random() < 0.35:
            kw["split_out"] = 2
        fns = ["sum", "mean", "count", "min", "max", "std", "var", "first", "last", "nunique", "median", "prod"]
        d = {"class": "groupby-agg", "key": key, "sel": sel, "gkw": gkw, "kw": kw}
        if form == "size":
            d.update(form="size", spec=None)
        elif form == "method":
            fn = _pick(r, fns)
            if fn == "nunique":
                d["sel"] = "series"
            if fn == "median":
                kw.pop("split_out", None)
            d.update(form="method-%s" % fn, spec=fn)
        elif form == "str-spec":
            d.update(form="str-spec", spec=_pick(r, ["sum", "mean", "max", "count", "std"]))
        elif form == "list-spec":
            d.update(form="list-spec", spec=r.sample(["sum", "mean", "min", "max", "count", "std", "first"], r.randint(1, 3)))
        elif form == "dict-spec":
            spec = {}
            for c in r.sample(["c", "d", "a" if "a" not in (key if isinstance(key, list) else [key]) else "c"], 2):
                spec[c] = _pick(r, ["sum", "mean", "max", ["min", "max"], ["sum", "count"], "count", "first"])
            d.update(form="dict-spec", spec=spec, sel="frame")
        else:
            names = {}
            for i, c in enumerate(r.sample(["c", "d"], r.randint(1, 2))):
                names["o%d" % i] = [c, _pick(r, ["sum", "mean", "max", "min", "count"])]
            d.update(form="named-spec", spec=names, sel="frame")
        d["form"] = d["form"] + (":series" if d["sel"] == "series" else ":frame")
        return d

    # ------------------------------------------------------------------ merge / concat
    @staticmethod
    def g_merge(r, known):
        how = _pick(r, ["inner", "outer", "left", "right", "inner", "outer"])
        on = _pick(r, ["col", "cols", "index", "col"])
        d = {"class": "merge", "how": how, "on": on, "kw": {}}
        if r.random() < 0.3:
            d["kw"]["suffixes"] = ["_l", "_r"]
        if r.random() < 0.2 and on != "index":
            d["kw"]["indicator"] = True
        if r.random() < 0.3:
            d["kw"]["shuffle_method"] = "tasks"
        if r.random() < 0.2:
            d["kw"]["broadcast"] = bool(r.getrandbits(1))
        d["method"] = "join" if on == "index" and r.random() < 0.4 else "merge"
        d["form"] = "%s:on-%s" % (how, on)
        return d

    @staticmethod
    def g_concat(r, known):
        w = r.random()
        if w < 0.75:
            d = {"class": "concat", "axis": 0, "join": _pick(r, ["outer", "inner"]),
                 "cols1": r.sample(["a", "b", "c", "d", "k", "n", "t"], r.randint(1, 4)),
                 "cols2": r.sample(["a", "b", "c", "d", "k", "n", "t"], r.randint(1, 4)),
                 "interleave": bool(r.getrandbits(1)), "nframes": _pick(r, [2, 2, 3])}
            d["form"] = "axis0:%s%s" % (d["join"], "" if set(d["cols1"]) == set(d["cols2"]) else ":different-columns")
            return d
        d = {"class": "concat", "axis": 1, "cols1": r.sample(["a", "b", "c"], r.randint(1, 2)),
             "cols2": r.sample(["d", "e", "k", "n"], r.randint(1, 2)), "series2": r.random() < 0.3}
        d["form"] = "axis1:co-aligned" + (":series" if d["series2"] else "")
        return d

    # ------------------------------------------------------------------ set_index / sort / dedup
    @staticmethod
    def g_shuffle(r, known):
        op = _pick(r, ["set_index", "set_index", "sort_values", "sort_values", "drop_duplicates", "reset_index",
                       "shuffle", "nlargest", "sort_index"])
        d = {"class": "shuffle", "op": op, "kw": {}}
        if op == "set_index":
            d["col"] = _pick(r, ["a", "d", "b", "t", "a"])
            if r.random() < 0.3:
                d["kw"]["drop"] = bool(r.getrandbits(1))
            if r.random() < 0.3:
                d["kw"]["npartitions"] = r.randint(1, 4)
            if r.random() < 0.2:
                d["kw"]["sort"] = False
            d["form"] = "set_index" + (":drop=False" if d["kw"].get("drop") is False else "") + (":sort=False" if "sort" in d["kw"] else "")
        elif op == "sort_values":
            d["by"] = _pick(r, ["a", "c", ["a", "c"], ["b", "d"], "t", "b"])
            d["kw"]["ascending"] = bool(r.getrandbits(1))
            if r.random() < 0.3:
                d["kw"]["na_position"] = _pick(r, ["first", "last"])
            if r.random() < 0.3:
                d["kw"]["npartitions"] = r.randint(1, 4)
            d["form"] = "sort_values"
        elif op == "drop_duplicates":
            d["subset"] = _pick(r, [None, ["a"], ["a", "b"], ["b"], ["k"]])
            d["kw"]["keep"] = _pick(r, ["first", "last"])
            if r.random() < 0.4:
                d["kw"]["split_out"] = 2
            d["series"] = r.random() < 0.25
            d["form"] = "drop_duplicates" + (":series" if d["series"] else "")
        elif op == "reset_index":
            d["kw"]["drop"] = bool(r.getrandbits(1))
            d["series"] = r.random() < 0.3
            d["form"] = "reset_index:drop=%s%s" % (d["kw"]["drop"], ":series" if d["series"] else "")
        elif op == "shuffle":
            d["on"] = _pick(r, ["a", "b", ["a", "b"]])
            if r.random() < 0.5:
                d["kw"]["npartitions"] = r.randint(1, 4)
            d["form"] = "shuffle"
        elif op == "nlargest":
            d["n"] = r.randint(1, 4)
            d["col"] = _pick(r, ["c", "d", "a"])
            d["series"] = r.random() < 0.4
            d["which"] = _pick(r, ["nlargest", "nsmallest"])
            d["form"] = "nlargest" + (":series" if d["series"] else "")
        else:
            d["form"] = "sort_index"
            d["need_known"] = True
        return d

    # ------------------------------------------------------------------ windows
    @staticmethod
    def g_window(r, known):
        op = _pick(r, ["rolling", "rolling", "cum", "cum", "shift", "diff", "fill"])
        target = _pick(r, ["frame", "frame", "series"])
        d = {"class": "window", "op": op, "target": target, "kw": {}}
        if op == "rolling":
            d["window"] = r.randint(1, 5)
            if r.random() < 0.5:
                d["kw"]["min_periods"] = r.randint(1, d["window"])
            if r.random() < 0.3:
                d["kw"]["center"] = True
            d["fn"] = _pick(r, ["sum", "mean", "max", "min", "count", "std", "var", "median"])
            d["form"] = "rolling-%s" % d["fn"]
            d["need_known"] = True
        elif op == "cum":
            d["fn"] = _pick(r, ["cumsum", "cumprod", "cummax", "cummin"])
            d["cols"] = _pick(r, [["a", "c", "d"], ["a"], ["c", "d"], ["a", "n"]])
            if r.random() < 0.2:
                d["kw"]["skipna"] = False
            d["form"] = d["fn"] + (":int" if "a" in d["cols"] else "")
        elif op in ("shift", "diff", "pct_change"):
            d["periods"] = _pick(r, [-2, -1, 1, 1, 2, 3])
            d["cols"] = _pick(r, [["c", "d"], ["a", "d"], ["a"], ["b", "a"], ["t", "e"], ["k", "n"]]) if op == "shift" \
                else _pick(r, [["c", "d"], ["a", "d"], ["a"]])
            d["form"] = op + (":int" if "a" in d["cols"] else "") + (":non-numeric" if set(d["cols"]) & set("btekn") else "")
        else:
            d["fn"] = _pick(r, ["ffill", "bfill"])
            if r.random() < 0.5:
                d["kw"]["limit"] = r.randint(1, 2)
            d["cols"] = ["c", "n", "a"]
            d["form"] = d["fn"]
        d["form"] += ":series" if target == "series" else ":frame"
        return d

    # ------------------------------------------------------------------ repartition and row selections
    @staticmethod
    def g_repartition(r, known):
        op = _pick(r, ["npartitions", "npartitions", "divisions", "head", "tail", "sample", "map_partitions", "loc",
                       "partitions", "clear_divisions", "to_frame", "dropna", "explode-free"])
        d = {"class": "repartition", "op": op}
        if op == "npartitions":
            d["n"] = r.randint(1, 7)
        elif op == "divisions":
            d["need_known"] = True
            d["keep"] = r.random()
        elif op in ("head", "tail"):
            d["n"] = r.randint(0, 5)
            d["npartitions"] = _pick(r, [1, -1])
        elif op == "sample":
            d["frac"] = _pick(r, [0.0, 0.3, 0.7, 1.0])
        elif op == "loc":
            d["need_known"] = True
            d["q"] = [r.random(), r.random()]
        elif op == "partitions":
            d["i"] = r.randint(0, 5)
        elif op == "dropna":
            d["kw"] = _pick(r, [{}, {"how": "all"}, {"subset": ["c"]}, {"thresh": 8}])
        elif op == "explode-free":
            d["op"] = "isna-any"
        d["series"] = r.random() < 0.25
        d["form"] = d["op"] + (":series" if d["series"] else "")
        return d

    # ------------------------------------------------------------------ astype / categorize (meta of dtype conversions)
    @staticmethod
    def g_astype(r, known):
        targets = {"a": ["float64", "Int64", "str", "category", "bool", "int32"], "b": ["category"], "c": ["str", "float32"],
                   "d": ["int64", "Int64", "str", "category"], "e": ["int64", "boolean", "str", "category"],
                   "k": ["str"], "n": ["float64", "str"], "m": ["float64", "Int64"], "t": ["str", "datetime64[s]"]}
        w = r.random()
        if w < 0.6:
            cols = r.sample(sorted(targets), r.randint(1, 4))
            spec = {c: _pick(r, targets[c]) for c in cols}
            tag = "+".join(sorted({("category" if t == "category" else "nullable" if t in ("Int64", "boolean") else
                                    "str" if t == "str" else "numpy") for t in spec.values()}))
            return {"class": "astype", "form": "dict:" + tag, "spec": spec, "target": "frame"}
        if w < 0.8:
            c = _pick(r, sorted(targets))
            t = _pick(r, targets[c])
            return {"class": "astype", "form": "series:" + ("category" if t == "category" else t), "spec": t, "target": c}
        if w < 0.9:
            return {"class": "astype", "form": "categorize", "spec": r.sample(["b", "a", "e"], r.randint(1, 2)), "target": "categorize"}
        t = _pick(r, ["float64", "str", "category"])
        return {"class": "astype", "form": "frame:" + t, "spec": t, "target": "num"}

    # ------------------------------------------------------------------ Index-valued programs
    @staticmethod
    def g_index(r, known):
        op = _pick(r, ["index", "filter-index", "index-to-series", "index-unique", "index-to-frame",
                       "columns-of-empty-selection", "index-min", "index-nunique"])
        return {"class": "index", "op": op, "form": op}


# --------------------------------------------------------------------------- evaluation
def _dd():
    import dask.dataframe as dd

    return dd


def apply(desc, frame, is_dask, other=None):
    k = desc["class"]
    return globals()["_a_" + k.replace("-", "_")](desc, frame, is_dask, other)


def _a_reduction(d, df, is_dask, other):
    fn, kw = d["fn"], dict(d["kw"])
    if not is_dask:
        kw.pop("split_every", None)
    if d["form"].endswith(":series"):
        s = df[d["target"]]
        if fn == "median_approximate":
            return s.median_approximate() if is_dask else s.median()
        if fn == "size":
            return s.size
        return getattr(s, fn)(**kw)
    x = df[NUMCOLS] if d["target"] == "num" else (df[["e", "m"]] if d["target"] == "bool" else df)
    return getattr(x, fn)(**kw)


def _a_groupby_agg(d, df, is_dask, other):
    key = d["key"]
    keys = key if isinstance(key, list) else [key]
    gkw = dict(d["gkw"])
    kw = dict(d["kw"]) if is_dask else {}
    vals = [c for c in ("c", "d", "a") if c not in keys]
    if d["sel"] == "frame":
        g = df[keys + vals].groupby(key, **gkw)
    elif d["sel"] == "cols":
        g = df.groupby(key, **gkw)[vals[:2]]
    else:
        g = df.groupby(key, **gkw)[vals[0]]
    form = d["form"].split(":")[0]
    if form == "size":
        return g.size(**kw)
    if form.startswith("method-"):
        return getattr(g, d["spec"])(**kw)
    if form in ("str-spec", "list-spec"):
        return g.agg(d["spec"], **kw)
    if form == "dict-spec":
        return g.agg(dict(d["spec"]), **kw)
    spec = {k: tuple(v) for k, v in d["spec"].items()}
    return g.agg(**spec, **kw)


def _second(other):
    return other[["a", "b", "c", "d"]].rename(columns={"d": "z"})


def _a_merge(d, df, is_dask, other):
    kw = dict(d["kw"])
    if "suffixes" in kw:
        kw["suffixes"] = tuple(kw["suffixes"])
    if not is_dask:
        kw.pop("shuffle_method", None)
        kw.pop("broadcast", None)
    right = _second(other)
    left = df[["a", "b", "c", "e", "n"]]
    on = d["on"]
    if on == "col":
        return left.merge(right, how=d["how"], on="a", **kw)
    if on == "cols":
        return left.merge(right, how=d["how"], on=["a", "b"], **kw)
    if on == "index":
        if d["method"] == "join":
            kw.pop("indicator", None)
            sfx = kw.pop("suffixes", ("_l", "_r"))
            kw2 = {k: v for k, v in kw.items() if k in ("shuffle_method",)}
            return left.join(right, how=d["how"], lsuffix=sfx[0], rsuffix=sfx[1], **kw2)
        return left.merge(right, how=d["how"], left_index=True, right_index=True, **kw)
    return left.merge(right, how=d["how"], left_on="a", right_index=True, **kw)


def _a_concat(d, df, is_dask, other):
    if d["axis"] == 0:
        frames = [df[list(d["cols1"])], other[list(d["cols2"])]]
        if d["nframes"] == 3:
            frames.append(df[list(d["cols2"])])
        if is_dask:
            return _dd().concat(frames, join=d["join"], interleave_partitions=d["interleave"])
        return pd.concat(frames, join=d["join"])
    x, y = df[list(d["cols1"])], df[list(d["cols2"])]
    if d["series2"]:
        y = df[d["cols2"][0]]
    return _dd().concat([x, y], axis=1) if is_dask else pd.concat([x, y], axis=1)


def _a_shuffle(d, df, is_dask, other):
    op = d["op"]
    kw = dict(d["kw"])
    if op == "set_index":
        if not is_dask:
            kw.pop("npartitions", None)
            kw.pop("sort", None)
        return df.set_index(d["col"], **kw)
    if op == "sort_values":
        if not is_dask:
            kw.pop("npartitions", None)
        return df.sort_values(d["by"], **kw)
    if op == "drop_duplicates":
        if not is_dask:
            kw.pop("split_out", None)
        if d["series"]:
            return df["b"].drop_duplicates(**kw)
        return df[["a", "b", "k", "e"]].drop_duplicates(subset=d["subset"], **kw)
    if op == "reset_index":
        return (df["c"] if d["series"] else df).reset_index(**kw)
    if op == "shuffle":
        return df.shuffle(d["on"], **kw) if is_dask else df
    if op == "nlargest":
        if d["series"]:
            return getattr(df[d["col"]], d["which"])(d["n"])
        return getattr(df, d["which"])(d["n"], d["col"])
    return df.sort_index() if not is_dask else df.map_partitions(lambda p: p.sort_index(), meta=df._meta)


def _a_window(d, df, is_dask, other):
    op = d["op"]
    kw = dict(d["kw"])
    if op == "rolling":
        x = df[["c", "d"]] if d["target"] == "frame" else df["c"]
        return getattr(x.rolling(d["window"], **kw), d["fn"])()
    cols = list(d["cols"])
    x = df[cols] if d["target"] == "frame" else df[cols[0]]
    if op == "cum":
        return getattr(x, d["fn"])(**kw)
    if op in ("shift", "diff", "pct_change"):
        return getattr(x, op)(d["periods"])
    return getattr(x, d["fn"])(**kw)


def _a_repartition(d, df, is_dask, other):
    op = d["op"]
    x = df["c"] if d.get("series") else df
    if op == "npartitions":
        return x.repartition(npartitions=d["n"]) if is_dask else x
    if op == "divisions":
        if not is_dask:
            return x
        div = list(x.divisions)
        inner = [v for i, v in enumerate(div[1:-1]) if (hash((i, d["keep"])) % 100) / 100.0 < d["keep"]]
        return x.repartition(divisions=[div[0]] + inner + [div[-1]])
    if op in ("head", "tail"):
        if is_dask:
            return getattr(x, op)(d["n"], npartitions=d["npartitions"], compute=False) if op == "head" else x.tail(d["n"], compute=False)
        return getattr(x, op)(d["n"])
    if op == "sample":
        return x.sample(frac=d["frac"], random_state=3)
    if op == "map_partitions":
        return x.map_partitions(_ident) if is_dask else x
    if op == "loc":
        idx = df.index if not is_dask else None
        lo, hi = d["q"]
        if is_dask:
            div = x.divisions
            try:
                span = div[-1] - div[0]
                a, b = sorted([div[0] + span * lo, div[0] + span * hi])
            except TypeError:
                a, b = div[0], div[-1]
            return x.loc[a:b]
        return x
    if op == "partitions":
        return x.partitions[d["i"] % x.npartitions] if is_dask else x
    if op == "clear_divisions":
        return x.clear_divisions() if is_dask else x
    if op == "to_frame":
        return df["c"].to_frame(name="cc")
    if op == "dropna":
        return x.dropna(**d.get("kw", {})) if not d.get("series") else x.dropna()
    if op == "isna-any":
        return df.isna().any(axis=1)
    raise ValueError(op)


def _ident(p):
    return p


def _a_astype(d, df, is_dask, other):
    if d["target"] == "frame":
        return df.astype(dict(d["spec"]))
    if d["target"] == "num":
        return df[NUMCOLS].astype(d["spec"])
    if d["target"] == "categorize":
        cols = list(d["spec"])
        return df.categorize(columns=cols) if is_dask else df.astype({c: "category" for c in cols})
    return df[d["target"]].astype(d["spec"])


def _a_index(d, df, is_dask, other):
    op = d["op"]
    if op == "index":
        return df.index
    if op == "filter-index":
        return df[df.a > 1].index
    if op == "index-to-series":
        return df.index.to_series()
    if op == "index-map":
        return df.index.map(str) if not is_dask else df.index.map(str, meta=pd.Index([], dtype="str", name=df.index.name))
    if op == "index-unique":
        return df.b.unique() if is_dask else pd.Series(df.b.unique(), name="b")
    if op == "index-to-frame":
        return df.index.to_frame(name="ix")
    if op == "columns-of-empty-selection":
        return df[[]]
    if op == "index-min":
        return df.index.min()
    if op == "index-nunique":
        return df.index.nunique()
    raise ValueError(op)


def describe(desc):
    import json

    return json.dumps(desc, sort_keys=True, default=str)[:500]
