"""C13 helper: SIBLING PROGRAMS — the same input, one result-relevant parameter changed.

``OPS[name] = (api, param, values, build)``; ``build(env, seed, value)`` builds the input afresh from ``seed`` (equal
content on every call, no Python object shared between two members) and applies the public API call with ``value`` for
the one parameter named ``param``.  Two members of a case take two different entries of ``values``; everything else is
the same call on the same data.  ``env`` gives a scratch directory (``env.dir``) for the file readers.

Per API (the statement's "public array, dataframe, bag and delayed APIs"):
array      rechunk targets (also observed through the block shapes), slicing, fancy indexing, reductions axis / keepdims /
           ddof, topk, percentile, random generators with the same seed and another distribution parameter / size /
           chunks, creation routines with another k / step / endpoint / fill, roll / repeat / tile / pad / diff / clip /
           round / digitize / histogram / bincount / take / flip / rot90 / coarsen / map_overlap / astype / isin /
           map_blocks kwargs / reshape / transpose / concatenate / stack / einsum / searchsorted / fft n / norm ord /
           blocks, store into different regions of equal targets;
dataframe  repartition npartitions / partition_size / divisions / freq, shuffle / set_index / sort_values with another
           npartitions or column, rolling windows, shift / diff, groupby aggregation specs / split_out / by / ddof,
           map_partitions and map_overlap kwargs, read_csv blocksize / usecols, sample frac, head / tail / nlargest,
           quantile, fillna, clip, astype, round, isin, query, drop_duplicates, value_counts, describe, loc / partitions,
           assign, where, reductions skipna / min_count / ddof / axis, dropna, merge how, concat join, resample rule,
           str.slice, reset_index drop, to_dask_array, melt, explode-free subset of the public API;
bag        random_sample prob, repartition, map / map_partitions / starmap kwargs, read_text blocksize /
           files_per_partition / linedelimiter / include_path, filter, take, topk, fold / foldby / accumulate initial,
           groupby npartitions, pluck default, frequencies / reductions split_every, distinct key, from_sequence
           partition_size / npartitions, range, var ddof, to_dataframe columns, product, join;
delayed    the same pure function with other kwargs / args, nout, traverse, getattr / getitem / method argument, literal
           wrapped with another nout, operators with another operand.
"""
from __future__ import annotations

import os

import numpy as np

OPS = {}


def op(api, name, param, values):
    def deco(fn):
        key = "%s/%s:%s" % (api, name, param)
        assert key not in OPS, key
        OPS[key] = (api, param, list(values), fn)
        return fn
    return deco


# ---------------------------------------------------------------------------------------------------------------
# inputs

def _np2(seed, shape=(6, 8), dtype="int64", hi=50):
    r = np.random.default_rng(1000 + seed)
    return r.integers(0, hi, shape).astype(dtype)


def _arr(seed, shape=(6, 8), chunks=(3, 4), dtype="int64", hi=50):
    import dask.array as da

    return da.from_array(_np2(seed, shape, dtype, hi), chunks=chunks)


def _arr1(seed, n=24, chunks=6, dtype="int64", hi=50):
    import dask.array as da

    return da.from_array(_np2(seed, (n,), dtype, hi), chunks=chunks)


def _farr(seed, shape=(6, 8), chunks=(3, 4)):
    import dask.array as da

    r = np.random.default_rng(2000 + seed)
    return da.from_array(np.round(r.normal(size=shape) * 10, 3), chunks=chunks)


def _pdf(seed, n=48, kind="range"):
    import pandas as pd

    r = np.random.default_rng(3000 + seed)
    d = pd.DataFrame({"a": r.integers(0, 10, n), "b": np.round(r.normal(size=n), 3), "k": r.integers(0, 4, n),
                      "k2": r.integers(0, 3, n), "s": np.array(["ab", "cd", "abc", "x"], dtype=object)[r.integers(0, 4, n)],
                      "u": r.permutation(n).astype("float64")})      # unique: sorting by it has no ties
    d.loc[d.index[r.random(n) < 0.2], "b"] = np.nan
    if kind == "datetime":
        d.index = pd.date_range("2001-01-01", periods=n, freq="12h")
    return d


def _ddf(seed, n=48, npartitions=4, kind="range"):
    import dask.dataframe as dd

    return dd.from_pandas(_pdf(seed, n, kind), npartitions=npartitions)


def _seq(seed, n=30):
    r = np.random.default_rng(4000 + seed)
    return [int(v) for v in r.integers(0, 20, n)]


def _bag(seed, n=30, npartitions=3):
    import dask.bag as db

    return db.from_sequence(_seq(seed, n), npartitions=npartitions)


def _recs(seed, n=24):
    r = np.random.default_rng(5000 + seed)
    return [{"name": "n%d" % int(r.integers(0, 4)), "v": int(r.integers(0, 9)), **({"opt": int(i)} if i % 3 else {})} for i in range(n)]


# ---------------------------------------------------------------------------------------------------------------
# module-level functions (deterministic tokens)

def blk_shape(b):
    return np.array([list(b.shape)], dtype="int64").reshape((1,) * (b.ndim - 1) + (b.ndim,)) if b.ndim == 1 else \
        np.array(b.shape, dtype="int64").reshape(1, 2)


def f_blk(b, k=0, m=1):
    return b * m + k


def f_blk_kw(b, k=None):
    out = np.empty(b.shape, dtype=object)
    out[...] = "%s:%r" % (type(k).__name__, k)
    return out


def f_part(df, k=0, col="a"):
    df = df.copy()
    df[col] = df[col] + k
    return df


def f_row(row, k=0):
    return int(row["a"]) * 10 + int(row["k"]) + k


def f_overlap(df, k=0):
    return df.assign(a=df["a"] + k)


def f_elem(x, k=0, m=1):
    return (x * m, k)


def f_plist(part, k=0):
    return [(x, k) for x in part]


def f_star(x, y, k=0):
    return (x, y, k)


def f_pack(*a, **k):
    return ("pack", a, sorted(k.items()))


def _tn(x):
    if isinstance(x, (list, tuple)):
        return (type(x).__name__, [_tn(e) for e in x])
    if isinstance(x, dict):
        return ("dict", sorted((str(k), _tn(e)) for k, e in x.items()))
    return type(x).__name__


def f_types(*a, **k):
    return ("types", [_tn(x) for x in a], sorted((n, _tn(v)) for n, v in k.items()))


def f_many(x, n=3):
    return tuple(x + i for i in range(n))


def binop_add(a, b):
    return a + b


def mod_key(x, m=3):
    return x % m


def gt(x, t=5):
    return x > t


class Box:
    def __init__(self, v):
        self.v = v
        self.w = v + 1

    def scaled(self, k=1):
        return self.v * k

    def __dask_tokenize__(self):
        return ("c13-Box", self.v)

    def __eq__(self, other):
        return type(other) is Box and other.v == self.v

    def __hash__(self):
        return hash(self.v)


class Target:
    """a store() target; equal targets are equal inputs (deterministic token from the content)"""

    def __init__(self, shape, dtype):
        self.a = np.zeros(shape, dtype=dtype)
        self.shape, self.dtype, self.ndim = self.a.shape, self.a.dtype, self.a.ndim

    def __setitem__(self, k, v):
        self.a[k] = v

    def __getitem__(self, k):
        return self.a[k]


def read_target(_stored, t):
    return t.a.copy()


# ---------------------------------------------------------------------------------------------------------------
# array

def _da():
    import dask.array as da

    return da


@op("array", "rechunk", "chunks", [(2, 2), (3, 8), (6, 4), ((1, 5), (4, 4)), (1, 1), (3, 4)])
def _(env, s, v):
    return _arr(s).rechunk(v)


@op("array", "rechunk-block-shapes", "chunks", [(2, 2), (3, 8), (6, 4), (2, 4), (1, 8)])
def _(env, s, v):
    x = _arr(s).rechunk(v)
    return x.map_blocks(blk_shape, dtype="int64", chunks=((1,) * x.numblocks[0], (2,) * x.numblocks[1]))


@op("array", "rechunk-1d", "chunks", [2, 3, 8, 24, (5, 19)])
def _(env, s, v):
    return _arr1(s).rechunk(v)


@op("array", "getitem", "slice", [(0, 3), (1, 4), (2, 6), (0, 6), (3, 6)])
def _(env, s, v):
    return _arr(s)[v[0]:v[1]]


@op("array", "getitem", "step", [1, 2, 3, -1])
def _(env, s, v):
    return _arr(s)[::v]


@op("array", "getitem", "column", [0, 1, 3, -1])
def _(env, s, v):
    return _arr(s)[:, v]


@op("array", "getitem", "index-list", [[0, 2], [2, 0], [1, 1, 3], [0, 2, 4]])
def _(env, s, v):
    return _arr(s)[v]


@op("array", "getitem", "newaxis-position", [0, 1, 2])
def _(env, s, v):
    idx = [slice(None), slice(None)]
    idx.insert(v, None)
    return _arr(s)[tuple(idx)]


@op("array", "vindex", "points", [([0, 1], [1, 2]), ([0, 1], [2, 1]), ([1, 0], [1, 2])])
def _(env, s, v):
    return _arr(s).vindex[v[0], v[1]]


@op("array", "blocks", "index", [0, 1, (0, 1), (1, 0)])
def _(env, s, v):
    return _arr(s).blocks[v]


@op("array", "sum", "axis", [0, 1, None, (0, 1)])
def _(env, s, v):
    return _arr(s).sum(axis=v)


@op("array", "sum", "keepdims", [False, True])
def _(env, s, v):
    return _arr(s).sum(axis=0, keepdims=v)


@op("array", "sum", "dtype", ["int64", "float64", "int32"])
def _(env, s, v):
    return _arr(s).sum(axis=0, dtype=v)


@op("array", "sum", "split_every", [2, 4, None])
def _(env, s, v):
    return _arr(s, chunks=(1, 2)).sum(axis=0, split_every=v)


@op("array", "mean", "axis", [0, 1, None])
def _(env, s, v):
    return _arr(s).mean(axis=v)


@op("array", "max", "axis", [0, 1, None])
def _(env, s, v):
    return _arr(s).max(axis=v)


@op("array", "argmax", "axis", [0, 1, None])
def _(env, s, v):
    return _arr(s).argmax(axis=v)


@op("array", "cumsum", "axis", [0, 1])
def _(env, s, v):
    return _arr(s).cumsum(axis=v)


@op("array", "cumsum", "method", ["sequential", "blelloch"])
def _(env, s, v):
    return _arr(s).cumsum(axis=0, method=v)


@op("array", "std", "ddof", [0, 1, 2])
def _(env, s, v):
    return _arr(s).std(axis=0, ddof=v)


@op("array", "var", "ddof", [0, 1, 2])
def _(env, s, v):
    return _arr(s).var(ddof=v)


@op("array", "moment", "order", [1, 2, 3])
def _(env, s, v):
    return _farr(s).moment(v, axis=0)


@op("array", "median", "axis", [0, 1])
def _(env, s, v):
    return _da().median(_arr(s), axis=v)


@op("array", "topk", "k", [1, 2, -2, 3])
def _(env, s, v):
    return _da().topk(_arr(s), v, axis=1)


@op("array", "argtopk", "k", [1, 2, -2])
def _(env, s, v):
    return _da().argtopk(_arr(s), v, axis=1)


@op("array", "percentile", "q", [[25], [50], [25, 75], [75]])
def _(env, s, v):
    return _da().percentile(_arr1(s).astype("float64"), v, internal_method="dask")


@op("array", "percentile", "method", ["linear", "lower", "higher", "nearest"])
def _(env, s, v):
    return _da().percentile(_arr1(s).astype("float64"), [30, 60], method=v, internal_method="dask")


@op("array", "random-normal", "loc", [0.0, 1.0, 2.5])
def _(env, s, v):
    return _da().random.default_rng(s).normal(v, 1.0, size=(6, 8), chunks=(3, 4))


@op("array", "random-normal", "scale", [1.0, 2.0, 0.5])
def _(env, s, v):
    return _da().random.default_rng(s).normal(0.0, v, size=(6, 8), chunks=(3, 4))


@op("array", "random-normal", "size", [(6, 8), (6, 4), (3, 8)])
def _(env, s, v):
    return _da().random.default_rng(s).normal(0.0, 1.0, size=v, chunks=(3, 4))


@op("array", "random-normal", "chunks", [(3, 4), (6, 8), (2, 8), (3, 2)])
def _(env, s, v):
    return _da().random.default_rng(s).normal(0.0, 1.0, size=(6, 8), chunks=v)


@op("array", "random-integers", "high", [5, 10, 11])
def _(env, s, v):
    return _da().random.default_rng(s).integers(0, v, size=(6, 8), chunks=(3, 4))


@op("array", "random-integers", "dtype", ["int64", "int32", "uint8"])
def _(env, s, v):
    return _da().random.default_rng(s).integers(0, 10, size=(6, 8), chunks=(3, 4), dtype=v)


@op("array", "random-distribution", "name", ["normal", "standard_normal", "random", "exponential", "standard_exponential"])
def _(env, s, v):
    g = _da().random.default_rng(s)
    return getattr(g, v)(size=(6, 8), chunks=(3, 4))


@op("array", "randomstate-randint", "high", [5, 10])
def _(env, s, v):
    return _da().random.RandomState(s).randint(0, v, size=(6, 8), chunks=(3, 4))


@op("array", "randomstate-uniform", "high", [1.0, 2.0, 3.0])
def _(env, s, v):
    return _da().random.RandomState(s).uniform(0.0, v, size=(6, 8), chunks=(3, 4))


@op("array", "randomstate-binomial", "p", [0.2, 0.5, 0.7])
def _(env, s, v):
    return _da().random.RandomState(s).binomial(10, v, size=(6, 8), chunks=(3, 4))


@op("array", "random-choice", "size", [4, 6, 8])
def _(env, s, v):
    return _da().random.default_rng(s).choice(10, size=v, chunks=2)


@op("array", "random-permutation", "n", [6, 8, 9])
def _(env, s, v):
    return _da().random.default_rng(s).permutation(_da().arange(v, chunks=3))


@op("array", "eye", "k", [0, 1, -1, 2])
def _(env, s, v):
    return _da().eye(6, chunks=3, k=v)


@op("array", "eye", "M", [6, 4, 9])
def _(env, s, v):
    return _da().eye(6, chunks=3, M=v)


@op("array", "eye", "dtype", ["float64", "int64", "bool"])
def _(env, s, v):
    return _da().eye(6, chunks=3, dtype=v)


@op("array", "arange", "step", [1, 2, 3])
def _(env, s, v):
    return _da().arange(0, 24, v, chunks=4)


@op("array", "arange", "start", [0, 1, 4])
def _(env, s, v):
    return _da().arange(v, 24, 2, chunks=4)


@op("array", "arange", "stop", [24, 23, 20])
def _(env, s, v):
    return _da().arange(0, v, 1, chunks=4)


@op("array", "linspace", "endpoint", [True, False])
def _(env, s, v):
    return _da().linspace(0, 1, 6, endpoint=v, chunks=3)


@op("array", "linspace", "num", [5, 6, 7])
def _(env, s, v):
    return _da().linspace(0, 1, v, chunks=3)


@op("array", "linspace", "stop", [1, 2, 1.5])
def _(env, s, v):
    return _da().linspace(0, v, 6, chunks=3)


@op("array", "tri", "k", [0, 1, -1])
def _(env, s, v):
    return _da().tri(6, 6, k=v, chunks=3)


@op("array", "tril", "k", [0, 1, -1])
def _(env, s, v):
    return _da().tril(_arr(s, (6, 6), (3, 3)), k=v)


@op("array", "triu", "k", [0, 1, -1])
def _(env, s, v):
    return _da().triu(_arr(s, (6, 6), (3, 3)), k=v)


@op("array", "diag", "k", [0, 1, -1])
def _(env, s, v):
    return _da().diag(_arr1(s, 6, 3), k=v)


@op("array", "diagonal", "offset", [0, 1, -1])
def _(env, s, v):
    return _da().diagonal(_arr(s), offset=v)


@op("array", "full", "fill_value", [1, 2, 1.0, True])
def _(env, s, v):
    return _da().full((6, 8), v, chunks=(3, 4))


@op("array", "full_like", "fill_value", [1, 2, 7])
def _(env, s, v):
    return _da().full_like(_arr(s), v)


@op("array", "ones-zeros-empty", "routine", ["ones", "zeros"])
def _(env, s, v):
    return getattr(_da(), v)((6, 8), chunks=(3, 4), dtype="int64")


@op("array", "indices", "dimensions", [(2, 3), (3, 2), (3, 3)])
def _(env, s, v):
    return _da().indices(v, chunks=(2, 2))


@op("array", "roll", "shift", [1, 2, -1])
def _(env, s, v):
    return _da().roll(_arr(s), v, axis=1)


@op("array", "roll", "axis", [0, 1, None])
def _(env, s, v):
    return _da().roll(_arr(s), 2, axis=v)


@op("array", "repeat", "repeats", [1, 2, 3])
def _(env, s, v):
    return _da().repeat(_arr(s), v, axis=0)


@op("array", "tile", "reps", [1, 2, 3])
def _(env, s, v):
    return _da().tile(_arr(s), v)


@op("array", "pad", "pad_width", [1, 2, ((1, 0), (0, 2))])
def _(env, s, v):
    return _da().pad(_arr(s), v, mode="constant")


@op("array", "pad", "mode", ["constant", "edge", "reflect", "wrap"])
def _(env, s, v):
    return _da().pad(_arr(s), 1, mode=v)


@op("array", "pad", "constant_values", [0, 1, 9])
def _(env, s, v):
    return _da().pad(_arr(s), 1, mode="constant", constant_values=v)


@op("array", "diff", "n", [1, 2, 3])
def _(env, s, v):
    return _da().diff(_arr(s), n=v, axis=1)


@op("array", "diff", "axis", [0, 1])
def _(env, s, v):
    return _da().diff(_arr(s, (6, 6), (3, 3)), axis=v)


@op("array", "clip", "min", [5, 10, 20])
def _(env, s, v):
    return _da().clip(_arr(s), v, 40)


@op("array", "clip", "max", [30, 40, 45])
def _(env, s, v):
    return _da().clip(_arr(s), 5, v)


@op("array", "round", "decimals", [0, 1, 2])
def _(env, s, v):
    return _da().round(_farr(s), v)


@op("array", "digitize", "right", [False, True])
def _(env, s, v):
    return _da().digitize(_arr(s), np.array([10, 20, 30]), right=v)


@op("array", "digitize", "bins", [[10, 20, 30], [10, 25, 30], [5, 20, 30]])
def _(env, s, v):
    return _da().digitize(_arr(s), np.array(v))


@op("array", "histogram", "bins", [3, 4, 5])
def _(env, s, v):
    return _da().histogram(_arr(s), bins=v, range=(0, 50))[0]


@op("array", "histogram", "range", [(0, 50), (0, 40), (10, 50)])
def _(env, s, v):
    return _da().histogram(_arr(s), bins=4, range=v)[0]


@op("array", "histogram", "density", [False, True])
def _(env, s, v):
    return _da().histogram(_arr(s), bins=4, range=(0, 50), density=v)[0]


@op("array", "bincount", "minlength", [0, 60, 100])
def _(env, s, v):
    return _da().bincount(_arr1(s), minlength=v)


@op("array", "take", "indices", [[0, 2], [2, 0], [1, 1, 3]])
def _(env, s, v):
    return _da().take(_arr(s), v, axis=1)


@op("array", "take", "axis", [0, 1])
def _(env, s, v):
    return _da().take(_arr(s, (6, 6), (3, 3)), [0, 2, 5], axis=v)


@op("array", "flip", "axis", [0, 1, None])
def _(env, s, v):
    return _da().flip(_arr(s), axis=v)


@op("array", "rot90", "k", [1, 2, 3])
def _(env, s, v):
    return _da().rot90(_arr(s, (6, 6), (3, 3)), k=v)


@op("array", "coarsen", "factor", [2, 3, 6])
def _(env, s, v):
    return _da().coarsen(np.sum, _arr(s, (6, 6), (6, 6)), {0: v})


@op("array", "coarsen", "reduction", ["sum", "max", "min"])
def _(env, s, v):
    return _da().coarsen(getattr(np, v), _arr(s, (6, 6), (6, 6)), {0: 2})


@op("array", "map_overlap", "depth", [1, 2, {0: 1, 1: 0}])
def _(env, s, v):
    return _arr(s).map_overlap(f_blk, depth=v, boundary="reflect", k=1)


@op("array", "map_overlap", "boundary", ["reflect", "periodic", "nearest", 0])
def _(env, s, v):
    return _arr(s).map_overlap(np.cumsum, depth=1, boundary=v, axis=0, dtype="int64")


@op("array", "astype", "dtype", ["float64", "int32", "float32", "int64", "uint8"])
def _(env, s, v):
    return _arr(s).astype(v)


@op("array", "view", "dtype", ["int64", "float64", "uint64", "int32"])
def _(env, s, v):
    return _arr(s).view(v)


@op("array", "isin", "test_elements", [[1, 2], [1, 3], [2, 1]])
def _(env, s, v):
    return _da().isin(_arr(s, hi=5), v)


@op("array", "isin", "invert", [False, True])
def _(env, s, v):
    return _da().isin(_arr(s, hi=5), [1, 2], invert=v)


@op("array", "where", "threshold", [10, 20, 30])
def _(env, s, v):
    x = _arr(s)
    return _da().where(x > v, x, 0)


@op("array", "where", "other", [0, 1, -1])
def _(env, s, v):
    x = _arr(s)
    return _da().where(x > 20, x, v)


@op("array", "map_blocks", "kwarg", [0, 1, 1.0, True, 2])
def _(env, s, v):
    return _arr(s).map_blocks(f_blk_kw, k=v, dtype=object)


@op("array", "map_blocks", "arg", [0, 1, 2])
def _(env, s, v):
    return _arr(s).map_blocks(f_blk, v, dtype="int64")


@op("array", "map_blocks", "two-kwargs-swapped", [(1, 2), (2, 1), (2, 2)])
def _(env, s, v):
    return _arr(s).map_blocks(f_blk, k=v[0], m=v[1], dtype="int64")


@op("array", "blockwise", "kwarg", [0, 1, 2])
def _(env, s, v):
    return _da().blockwise(f_blk, "ij", _arr(s), "ij", k=v, dtype="int64")


@op("array", "blockwise", "out-index", ["ij", "ji"])
def _(env, s, v):
    return _da().blockwise(np.transpose if v == "ji" else f_blk, v, _arr(s, (6, 6), (3, 3)), "ij", dtype="int64")


@op("array", "elemwise", "scalar", [1, 2, 1.0, True])
def _(env, s, v):
    return _arr(s) + v


@op("array", "elemwise", "ufunc", ["sqrt", "cbrt", "exp2", "negative"])
def _(env, s, v):
    return getattr(_da(), v)(_arr(s).astype("float64"))


@op("array", "reshape", "shape", [(48,), (2, 3, 8), (6, 2, 4), (3, 2, 8), (6, 4, 2)])
def _(env, s, v):
    return _arr(s, chunks=(3, 8)).reshape(v)


@op("array", "reshape", "merge_chunks", [True, False])
def _(env, s, v):
    x = _arr(s, (4, 6, 2), (2, 3, 2)).reshape((24, 2), merge_chunks=v)
    return x.map_blocks(blk_shape, dtype="int64", chunks=((1,) * x.numblocks[0], (2,) * x.numblocks[1]))


@op("array", "transpose", "axes", [(0, 1, 2), (1, 0, 2), (2, 1, 0), (0, 2, 1)])
def _(env, s, v):
    return _arr(s, (2, 3, 4), (1, 3, 2)).transpose(v)


@op("array", "expand_dims", "axis", [0, 1, 2])
def _(env, s, v):
    return _da().expand_dims(_arr(s), v)


@op("array", "moveaxis", "destination", [0, 1, 2])
def _(env, s, v):
    return _da().moveaxis(_arr(s, (2, 3, 4), (1, 3, 2)), 0, v)


@op("array", "swapaxes", "axis2", [0, 1, 2])
def _(env, s, v):
    return _da().swapaxes(_arr(s, (2, 3, 4), (1, 3, 2)), 0, v)


@op("array", "concatenate", "axis", [0, 1])
def _(env, s, v):
    x = _arr(s, (6, 6), (3, 3))
    return _da().concatenate([x, x + 1], axis=v)


@op("array", "concatenate", "order", ["ab", "ba"])
def _(env, s, v):
    x = _arr(s, (6, 6), (3, 3))
    y = x + 1
    return _da().concatenate([x, y] if v == "ab" else [y, x], axis=0)


@op("array", "stack", "axis", [0, 1, 2])
def _(env, s, v):
    x = _arr(s)
    return _da().stack([x, x + 1], axis=v)


@op("array", "block", "nesting", ["row", "column"])
def _(env, s, v):
    x = _arr(s, (6, 6), (3, 3))
    return _da().block([x, x + 1] if v == "row" else [[x], [x + 1]])


@op("array", "einsum", "subscripts", ["ij->i", "ij->j", "ij->", "ij->ji"])
def _(env, s, v):
    return _da().einsum(v, _arr(s))


@op("array", "tensordot", "axes", [1, ((0,), (0,)), ((1,), (1,))])
def _(env, s, v):
    x = _arr(s, (6, 6), (3, 3))
    return _da().tensordot(x, x, axes=v)


@op("array", "searchsorted", "side", ["left", "right"])
def _(env, s, v):
    a = _da().from_array(np.sort(_np2(s, (24,))), chunks=6)
    return _da().searchsorted(a, _da().from_array(np.array([5, 10, 10, 30]), chunks=2), side=v)


@op("array", "fft", "n", [8, 6, 4, 10])
def _(env, s, v):
    return _da().fft.fft(_arr(s, chunks=(3, 8)).astype("float64"), n=v)


@op("array", "fft", "axis", [0, 1])
def _(env, s, v):
    return _da().fft.fft(_arr(s, (6, 6), (6, 6)).astype("float64"), axis=v)


@op("array", "norm", "ord", [None, 1, 2, np.inf])
def _(env, s, v):
    return _da().linalg.norm(_arr1(s).astype("float64"), ord=v)


@op("array", "norm", "axis", [0, 1, None])
def _(env, s, v):
    return _da().linalg.norm(_arr(s).astype("float64"), axis=v)


@op("array", "apply_along_axis", "axis", [0, 1])
def _(env, s, v):
    return _da().apply_along_axis(np.cumsum, v, _arr(s, (6, 6), (3, 3)), dtype="int64", shape=(6,))


@op("array", "cumprod", "axis", [0, 1])
def _(env, s, v):
    return _arr(s, hi=3).cumprod(axis=v)


@op("array", "average", "weights", [[1, 1, 1, 1, 1, 1], [1, 2, 1, 1, 1, 1], [2, 1, 1, 1, 1, 1]])
def _(env, s, v):
    return _da().average(_arr(s), axis=0, weights=np.array(v))


@op("array", "compress", "condition", [[1, 0, 1, 0, 0, 0], [0, 1, 1, 0, 0, 0], [1, 1, 0, 0, 0, 1]])
def _(env, s, v):
    return _da().compress(np.array(v, dtype=bool), _arr(s), axis=0)


@op("array", "insert", "obj", [0, 2, 6])
def _(env, s, v):
    return _da().insert(_arr(s), v, 99, axis=0)


@op("array", "insert", "values", [99, 98, 0])
def _(env, s, v):
    return _da().insert(_arr(s), 2, v, axis=0)


@op("array", "delete", "obj", [0, 2, [0, 2]])
def _(env, s, v):
    return _da().delete(_arr(s), v, axis=0)


@op("array", "append", "axis", [0, None])
def _(env, s, v):
    x = _arr(s, (6, 6), (3, 3))
    return _da().append(x, x, axis=v)


@op("array", "ediff1d", "to_end", [None, 0, 5])
def _(env, s, v):
    return _da().ediff1d(_arr1(s), to_end=v)


@op("array", "gradient", "spacing", [1, 2, 0.5])
def _(env, s, v):
    g = _da().gradient(_arr1(s).astype("float64"), v)
    return g[0] if isinstance(g, (list, tuple)) else g


@op("array", "shuffle", "indexer", [[[0, 1], [2, 3], [4, 5]], [[1, 0], [2, 3], [4, 5]], [[0, 1, 2], [3, 4, 5]]])
def _(env, s, v):
    return _da().shuffle(_arr(s), v, axis=0)


@op("array", "squeeze", "axis", [0, 2, None])
def _(env, s, v):
    return _da().squeeze(_arr(s, (1, 6, 1), (1, 3, 1)), axis=v)


@op("array", "nansum", "axis", [0, 1, None])
def _(env, s, v):
    x = _farr(s)
    return _da().nansum(_da().where(x > 5, np.nan, x), axis=v)


@op("array", "around-quantile", "q", [0.25, 0.5, 0.75])
def _(env, s, v):
    return _da().quantile(_farr(s, (6, 8), (6, 4)), v, axis=0)


@op("array", "unique", "output", [0, 1, 2])
def _(env, s, v):
    return _da().unique(_arr1(s, hi=6), return_index=True, return_counts=True)[v]


@op("array", "from_array", "chunks-block-shapes", [(2, 2), (3, 8), (6, 4), (1, 8)])
def _(env, s, v):
    x = _da().from_array(_np2(s), chunks=v)
    return x.map_blocks(blk_shape, dtype="int64", chunks=((1,) * x.numblocks[0], (2,) * x.numblocks[1]))


@op("array", "store", "regions", [(0, 6), (6, 12), (3, 9)])
def _(env, s, v):
    import dask

    t = Target((12, 8), "int64")
    stored = _da().store(_arr(s), t, regions=(slice(v[0], v[1]), slice(None)), compute=False, lock=False)
    return dask.delayed(read_target, pure=False)(stored, t)


@op("array", "store", "source", [0, 1, 2])
def _(env, s, v):
    import dask

    t = Target((6, 8), "int64")
    stored = _da().store(_arr(s) + v, t, compute=False, lock=False)
    return dask.delayed(read_target, pure=False)(stored, t)


# ---------------------------------------------------------------------------------------------------------------
# dataframe

@op("dataframe", "repartition", "npartitions", [2, 3, 5, 8, 1])
def _(env, s, v):
    return _ddf(s).repartition(npartitions=v)


@op("dataframe", "repartition-partition-lengths", "npartitions", [2, 3, 5, 8])
def _(env, s, v):
    return _ddf(s).repartition(npartitions=v).map_partitions(len)


@op("dataframe", "repartition", "partition_size", ["1kB", "2kB", "600B", "4kB", "1MB"])
def _(env, s, v):
    return _ddf(s, n=400).repartition(partition_size=v)


@op("dataframe", "repartition-partition-lengths", "partition_size", ["1kB", "2kB", "600B", "4kB"])
def _(env, s, v):
    return _ddf(s, n=400).repartition(partition_size=v).map_partitions(len)


@op("dataframe", "repartition", "divisions", [[0, 20, 47], [0, 30, 47], [0, 10, 20, 47], [0, 47]])
def _(env, s, v):
    return _ddf(s).repartition(divisions=v)


@op("dataframe", "repartition-partition-lengths", "divisions", [[0, 20, 47], [0, 30, 47], [0, 10, 20, 47]])
def _(env, s, v):
    return _ddf(s).repartition(divisions=v).map_partitions(len)


@op("dataframe", "repartition", "freq", ["2D", "3D", "5D"])
def _(env, s, v):
    return _ddf(s, kind="datetime").repartition(freq=v).map_partitions(len)


@op("dataframe", "shuffle", "npartitions", [2, 3, 5])
def _(env, s, v):
    return _ddf(s).shuffle("k", npartitions=v)


@op("dataframe", "shuffle", "on", ["k", "k2", "a"])
def _(env, s, v):
    return _ddf(s).shuffle(v)


@op("dataframe", "shuffle-partition-lengths", "npartitions", [2, 3, 5])
def _(env, s, v):
    return _ddf(s).shuffle("k", npartitions=v).map_partitions(len)


@op("dataframe", "set_index", "npartitions", [2, 3, 4])
def _(env, s, v):
    return _ddf(s).set_index("a", npartitions=v)


@op("dataframe", "set_index", "column", ["a", "k", "k2"])
def _(env, s, v):
    return _ddf(s).set_index(v)


@op("dataframe", "set_index", "divisions", [[0, 5, 9], [0, 3, 9], [0, 3, 6, 9]])
def _(env, s, v):
    return _ddf(s).set_index("a", divisions=v)


@op("dataframe", "set_index", "drop", [True, False])
def _(env, s, v):
    return _ddf(s).set_index("a", drop=v)


@op("dataframe", "sort_values", "by", ["u", ["a", "u"], ["k", "u"], ["k", "a", "u"]])
def _(env, s, v):
    return _ddf(s).sort_values(v)


@op("dataframe", "sort_values", "ascending", [True, False])
def _(env, s, v):
    return _ddf(s).sort_values("u", ascending=v)


@op("dataframe", "sort_values", "npartitions", [2, 3, 4])
def _(env, s, v):
    return _ddf(s).sort_values("u", npartitions=v)


@op("dataframe", "sort_values", "na_position", ["first", "last"])
def _(env, s, v):
    return _ddf(s).sort_values(["b", "u"], na_position=v)


@op("dataframe", "rolling-sum", "window", [2, 3, 5])
def _(env, s, v):
    return _ddf(s)["a"].rolling(v).sum()


@op("dataframe", "rolling-mean", "window", [2, 3, 5])
def _(env, s, v):
    return _ddf(s)[["a", "b"]].rolling(v).mean()


@op("dataframe", "rolling-sum", "min_periods", [1, 2, 3])
def _(env, s, v):
    return _ddf(s)["b"].rolling(3, min_periods=v).sum()


@op("dataframe", "rolling-sum", "center", [False, True])
def _(env, s, v):
    return _ddf(s)["a"].rolling(3, center=v).sum()


@op("dataframe", "rolling-time-sum", "window", ["1D", "2D", "36h"])
def _(env, s, v):
    return _ddf(s, kind="datetime")["a"].rolling(v).sum()


@op("dataframe", "rolling-agg", "function", ["sum", "max", "min", "count"])
def _(env, s, v):
    return getattr(_ddf(s)["a"].rolling(3), v)()


@op("dataframe", "shift", "periods", [1, 2, -1])
def _(env, s, v):
    return _ddf(s)["a"].shift(v)


@op("dataframe", "diff", "periods", [1, 2, -1])
def _(env, s, v):
    return _ddf(s)["a"].diff(v)


@op("dataframe", "groupby-agg", "spec", [{"a": "sum"}, {"a": "mean"}, {"a": ["sum", "max"]}, {"b": "sum"}, {"a": "sum", "b": "max"}])
def _(env, s, v):
    return _ddf(s).groupby("k").agg(v)


@op("dataframe", "groupby-agg", "split_out", [1, 2, 3])
def _(env, s, v):
    return _ddf(s).groupby("k").agg({"a": "sum"}, split_out=v)


@op("dataframe", "groupby-agg", "split_every", [2, 3, 8])
def _(env, s, v):
    return _ddf(s).groupby("k").agg({"a": "sum"}, split_every=v)


@op("dataframe", "groupby-sum", "by", ["k", "k2", ["k", "k2"]])
def _(env, s, v):
    return _ddf(s).groupby(v)["a"].sum()


@op("dataframe", "groupby-sum", "column", ["a", "b"])
def _(env, s, v):
    return _ddf(s).groupby("k")[v].sum()


@op("dataframe", "groupby-reduction", "function", ["sum", "mean", "max", "count", "size", "first", "last", "nunique"])
def _(env, s, v):
    return getattr(_ddf(s).groupby("k")["a"], v)()


@op("dataframe", "groupby-var", "ddof", [0, 1, 2])
def _(env, s, v):
    return _ddf(s).groupby("k")["b"].var(ddof=v)


@op("dataframe", "groupby-sum", "min_count", [0, 5, 20])
def _(env, s, v):
    return _ddf(s).groupby("k")["b"].sum(min_count=v)


@op("dataframe", "groupby-shift", "periods", [1, 2])
def _(env, s, v):
    return _ddf(s).groupby("k")["a"].shift(v, meta=("a", "float64"))


@op("dataframe", "groupby-cumulative", "function", ["cumsum", "cumcount", "cumprod"])
def _(env, s, v):
    return getattr(_ddf(s).groupby("k")["a"], v)()


@op("dataframe", "groupby-apply", "kwarg", [0, 1, 2])
def _(env, s, v):
    import pandas as pd

    return _ddf(s).groupby("k").apply(f_part, k=v, meta=_pdf(s).iloc[:0].drop(columns=["k"]))


@op("dataframe", "groupby-agg", "sort", [True, False])
def _(env, s, v):
    return _ddf(s).groupby("k", sort=v).agg({"a": "sum"}).map_partitions(len)


@op("dataframe", "map_partitions", "kwarg", [0, 1, 1.0, True, 2])
def _(env, s, v):
    return _ddf(s).map_partitions(f_part, k=v)


@op("dataframe", "map_partitions", "arg", [0, 1, 2])
def _(env, s, v):
    return _ddf(s).map_partitions(f_part, v)


@op("dataframe", "map_partitions", "two-kwargs", [(1, "a"), (1, "b"), (2, "a")])
def _(env, s, v):
    return _ddf(s).map_partitions(f_part, k=v[0], col=v[1])


@op("dataframe", "map_overlap", "before", [1, 2, 3])
def _(env, s, v):
    return _ddf(s).map_overlap(f_overlap, v, 0, k=1).map_partitions(len)


@op("dataframe", "map_overlap", "kwarg", [0, 1, 2])
def _(env, s, v):
    return _ddf(s).map_overlap(f_overlap, 1, 1, k=v)


@op("dataframe", "apply-rows", "kwarg", [0, 1, 2])
def _(env, s, v):
    return _ddf(s)[["a", "k"]].apply(f_row, axis=1, args=(v,), meta=(None, "int64"))


@op("dataframe", "series-map", "mapping", [{0: 10, 1: 11}, {0: 11, 1: 10}, {0: 10}])
def _(env, s, v):
    return _ddf(s)["k"].map(v, meta=("k", "float64"))


@op("dataframe", "read_csv", "blocksize", [None, 300, 700, 1500, 301])
def _(env, s, v):
    import dask.dataframe as dd

    return dd.read_csv(env.csv(s), blocksize=v)


@op("dataframe", "read_csv-partition-lengths", "blocksize", [300, 700, 1500])
def _(env, s, v):
    import dask.dataframe as dd

    return dd.read_csv(env.csv(s), blocksize=v).map_partitions(len)


@op("dataframe", "read_csv", "usecols", [["a", "b"], ["a", "k"], ["b", "a"]])
def _(env, s, v):
    import dask.dataframe as dd

    return dd.read_csv(env.csv(s), usecols=v, blocksize=700)


@op("dataframe", "read_csv", "dtype", [{"a": "int64"}, {"a": "float64"}, {"a": "int32"}])
def _(env, s, v):
    import dask.dataframe as dd

    return dd.read_csv(env.csv(s), dtype=v, blocksize=700)


@op("dataframe", "read_csv", "skiprows", [0, 1, 5])
def _(env, s, v):
    import dask.dataframe as dd

    return dd.read_csv(env.csv(s), skiprows=v, header=None, blocksize=700)


@op("dataframe", "read_csv", "include_path_column", [False, True, "src"])
def _(env, s, v):
    import dask.dataframe as dd

    return dd.read_csv(env.csv(s), include_path_column=v, blocksize=700).map_partitions(lambda d: d.astype(str))


@op("dataframe", "from_pandas", "npartitions-partition-lengths", [1, 2, 3, 5])
def _(env, s, v):
    import dask.dataframe as dd

    return dd.from_pandas(_pdf(s), npartitions=v).map_partitions(len)


@op("dataframe", "from_pandas", "chunksize-partition-lengths", [10, 12, 24])
def _(env, s, v):
    import dask.dataframe as dd

    return dd.from_pandas(_pdf(s), chunksize=v).map_partitions(len)


@op("dataframe", "from_pandas", "sort", [True, False])
def _(env, s, v):
    import dask.dataframe as dd

    return dd.from_pandas(_pdf(s).iloc[::-1], npartitions=3, sort=v)


@op("dataframe", "from_dask_array", "columns", [["p", "q"], ["q", "p"], ["p", "r"]])
def _(env, s, v):
    import dask.dataframe as dd

    return dd.from_dask_array(_arr(s, (6, 2), (3, 2)), columns=v)


@op("dataframe", "from_map", "args", [[0, 1], [1, 0], [0, 2]])
def _(env, s, v):
    import dask.dataframe as dd

    return dd.from_map(_pdf_k, v, meta=_pdf(0, 6))


def _pdf_k(k):
    return _pdf(k, 6)


@op("dataframe", "sample", "frac", [0.2, 0.5, 0.8])
def _(env, s, v):
    return _ddf(s).sample(frac=v, random_state=7)


@op("dataframe", "sample", "replace", [False, True])
def _(env, s, v):
    return _ddf(s).sample(frac=0.5, replace=v, random_state=7)


@op("dataframe", "sample", "random_state", [7, 8, 9])
def _(env, s, v):
    return _ddf(s).sample(frac=0.5, random_state=v)


@op("dataframe", "random_split", "frac", [[0.5, 0.5], [0.3, 0.7], [0.7, 0.3]])
def _(env, s, v):
    return _ddf(s).random_split(v, random_state=7)[0]


@op("dataframe", "random_split", "output", [0, 1])
def _(env, s, v):
    return _ddf(s).random_split([0.5, 0.5], random_state=7)[v]


@op("dataframe", "head", "n", [2, 5, 13])
def _(env, s, v):
    return _ddf(s).head(v, npartitions=-1, compute=False)


@op("dataframe", "head", "npartitions", [1, 2, -1])
def _(env, s, v):
    return _ddf(s).head(20, npartitions=v, compute=False)


@op("dataframe", "tail", "n", [2, 5])
def _(env, s, v):
    return _ddf(s).tail(v, compute=False)


@op("dataframe", "nlargest", "n", [2, 3, 5])
def _(env, s, v):
    return _ddf(s).nlargest(v, "b")


@op("dataframe", "nlargest", "columns", ["a", "b", ["k", "b"]])
def _(env, s, v):
    return _ddf(s).nlargest(3, v)


@op("dataframe", "nsmallest", "n", [2, 3])
def _(env, s, v):
    return _ddf(s)["b"].nsmallest(v)


@op("dataframe", "quantile", "q", [0.25, 0.5, [0.25, 0.75]])
def _(env, s, v):
    return _ddf(s)["b"].quantile(v)


@op("dataframe", "quantile-frame", "q", [0.25, 0.5])
def _(env, s, v):
    return _ddf(s)[["a", "b"]].quantile(v)


@op("dataframe", "fillna", "value", [0, 1, -1.5])
def _(env, s, v):
    return _ddf(s).fillna({"b": v})


@op("dataframe", "fillna", "method", ["ffill", "bfill"])
def _(env, s, v):
    return getattr(_ddf(s)["b"], v)()


@op("dataframe", "clip", "lower", [2, 3, 5])
def _(env, s, v):
    return _ddf(s)["a"].clip(lower=v)


@op("dataframe", "clip", "upper", [5, 6, 8])
def _(env, s, v):
    return _ddf(s)["a"].clip(upper=v)


@op("dataframe", "astype", "dtype", ["float64", "int32", "float32", "Int64", "object"])
def _(env, s, v):
    return _ddf(s)["a"].astype(v)


@op("dataframe", "astype-frame", "mapping", [{"a": "float64"}, {"k": "float64"}, {"a": "float32"}])
def _(env, s, v):
    return _ddf(s).astype(v)


@op("dataframe", "round", "decimals", [0, 1, 2])
def _(env, s, v):
    return _ddf(s)["b"].round(v)


@op("dataframe", "isin", "values", [[1, 2], [1, 3], [2]])
def _(env, s, v):
    return _ddf(s)["a"].isin(v)


@op("dataframe", "query", "expr", ["a > 3", "a > 4", "a >= 4", "k > 1"])
def _(env, s, v):
    return _ddf(s).query(v)


@op("dataframe", "getitem-mask", "threshold", [3, 4, 5])
def _(env, s, v):
    d = _ddf(s)
    return d[d["a"] > v]


@op("dataframe", "getitem", "columns", [["a"], ["a", "b"], ["b", "a"], ["k", "a"]])
def _(env, s, v):
    return _ddf(s)[v]


@op("dataframe", "drop", "columns", [["a"], ["b"], ["a", "b"]])
def _(env, s, v):
    return _ddf(s).drop(columns=v)


@op("dataframe", "drop_duplicates", "subset", [["k"], ["a"], ["k", "k2"]])
def _(env, s, v):
    return _ddf(s).drop_duplicates(subset=v)


@op("dataframe", "drop_duplicates", "keep", ["first", "last"])
def _(env, s, v):
    return _ddf(s).drop_duplicates(subset=["k"], keep=v)


@op("dataframe", "drop_duplicates", "split_out", [1, 2])
def _(env, s, v):
    return _ddf(s).drop_duplicates(subset=["a"], split_out=v).map_partitions(len)


@op("dataframe", "value_counts", "normalize", [False, True])
def _(env, s, v):
    return _ddf(s)["k"].value_counts(normalize=v)


@op("dataframe", "value_counts", "ascending", [False, True])
def _(env, s, v):
    return _ddf(s)["k"].value_counts(ascending=v)


@op("dataframe", "value_counts", "column", ["k", "k2", "a"])
def _(env, s, v):
    return _ddf(s)[v].value_counts()


@op("dataframe", "describe", "percentiles", [[0.5], [0.25, 0.75], [0.1, 0.5]])
def _(env, s, v):
    return _ddf(s)[["a", "b"]].describe(percentiles=v)


@op("dataframe", "partitions", "index", [0, 1, 3, slice(0, 2)])
def _(env, s, v):
    return _ddf(s).partitions[v]


@op("dataframe", "loc", "slice", [(5, 20), (5, 30), (6, 20), (12, 24)])
def _(env, s, v):
    return _ddf(s).loc[v[0]:v[1]]


@op("dataframe", "loc", "label", [5, 6, 12])
def _(env, s, v):
    return _ddf(s).loc[v]


@op("dataframe", "iloc", "columns", [[0], [0, 1], [1, 0]])
def _(env, s, v):
    return _ddf(s).iloc[:, v]


@op("dataframe", "rename", "columns", [{"a": "z"}, {"b": "z"}, {"a": "y"}])
def _(env, s, v):
    return _ddf(s).rename(columns=v)


@op("dataframe", "assign", "value", [1, 2, 1.0, True])
def _(env, s, v):
    return _ddf(s).assign(z=v)


@op("dataframe", "assign", "name", ["z", "y", "a"])
def _(env, s, v):
    return _ddf(s).assign(**{v: 1})


@op("dataframe", "where", "other", [0, 1, -1])
def _(env, s, v):
    d = _ddf(s)[["a", "k"]]
    return d.where(d > 2, v)


@op("dataframe", "mask", "other", [0, 1])
def _(env, s, v):
    d = _ddf(s)[["a", "k"]]
    return d.mask(d > 2, v)


@op("dataframe", "binop", "scalar", [1, 2, 1.0, True])
def _(env, s, v):
    return _ddf(s)[["a", "b"]] + v


@op("dataframe", "binop-method", "fill_value", [None, 0, 1])
def _(env, s, v):
    d = _ddf(s)
    return d["b"].add(d["a"], fill_value=v)


@op("dataframe", "sum", "skipna", [True, False])
def _(env, s, v):
    return _ddf(s)[["a", "b"]].sum(skipna=v)


@op("dataframe", "sum", "min_count", [0, 45, 100])
def _(env, s, v):
    return _ddf(s)[["a", "b"]].sum(min_count=v)


@op("dataframe", "sum", "axis", [0, 1])
def _(env, s, v):
    return _ddf(s)[["a", "k"]].sum(axis=v)


@op("dataframe", "mean", "axis", [0, 1])
def _(env, s, v):
    return _ddf(s)[["a", "k"]].mean(axis=v)


@op("dataframe", "std", "ddof", [0, 1, 2])
def _(env, s, v):
    return _ddf(s)[["a", "b"]].std(ddof=v)


@op("dataframe", "var", "ddof", [0, 1, 2])
def _(env, s, v):
    return _ddf(s)["b"].var(ddof=v)


@op("dataframe", "sem", "ddof", [0, 1])
def _(env, s, v):
    return _ddf(s)["b"].sem(ddof=v)


@op("dataframe", "reduction", "function", ["sum", "mean", "max", "min", "count", "prod", "nunique_approx"])
def _(env, s, v):
    return getattr(_ddf(s)["a"], v)()


@op("dataframe", "reduction", "split_every", [2, 3, False])
def _(env, s, v):
    return _ddf(s, npartitions=6)["a"].sum(split_every=v)


@op("dataframe", "cumulative", "function", ["cumsum", "cumprod", "cummax", "cummin"])
def _(env, s, v):
    return getattr(_ddf(s)["k"], v)()


@op("dataframe", "cumsum", "skipna", [True, False])
def _(env, s, v):
    return _ddf(s)["b"].cumsum(skipna=v)


@op("dataframe", "idxmax", "skipna", [True, False])
def _(env, s, v):
    return _ddf(s)[["a", "k"]].idxmax(skipna=v)


@op("dataframe", "cov", "min_periods", [None, 2, 60])
def _(env, s, v):
    return _ddf(s)[["a", "b"]].cov(min_periods=v)


@op("dataframe", "corr", "columns", [["a", "b"], ["a", "k"], ["b", "k"]])
def _(env, s, v):
    return _ddf(s)[v].corr()


@op("dataframe", "mode", "dropna", [True, False])
def _(env, s, v):
    return _ddf(s)["b"].round(0).mode(dropna=v)


@op("dataframe", "nunique", "dropna", [True, False])
def _(env, s, v):
    return _ddf(s)["b"].round(0).nunique(dropna=v)


@op("dataframe", "dropna", "how", ["any", "all"])
def _(env, s, v):
    return _ddf(s)[["b", "a"]].where(_ddf(s)[["b", "a"]] > 2).dropna(how=v)


@op("dataframe", "dropna", "subset", [["b"], ["a"], ["a", "b"]])
def _(env, s, v):
    return _ddf(s).dropna(subset=v)


@op("dataframe", "dropna", "thresh", [1, 2])
def _(env, s, v):
    return _ddf(s)[["b", "a"]].where(_ddf(s)[["b", "a"]] > 2).dropna(thresh=v)


@op("dataframe", "merge", "how", ["inner", "left", "outer", "right"])
def _(env, s, v):
    import dask.dataframe as dd
    import pandas as pd

    right = dd.from_pandas(pd.DataFrame({"k": [0, 1, 5], "r": [10, 11, 15]}), npartitions=2)
    return _ddf(s).merge(right, on="k", how=v)


@op("dataframe", "merge", "on", ["k", "k2"])
def _(env, s, v):
    import dask.dataframe as dd
    import pandas as pd

    right = dd.from_pandas(pd.DataFrame({"k": [0, 1, 2], "k2": [2, 1, 0], "r": [10, 11, 15]}), npartitions=2)
    return _ddf(s)[["a", "k", "k2"]].merge(right, on=v, how="inner")


@op("dataframe", "merge", "suffixes", [("_x", "_y"), ("_l", "_r")])
def _(env, s, v):
    d = _ddf(s)[["a", "k"]]
    return d.merge(d, on="k", suffixes=v).map_partitions(lambda p: p.iloc[:5])


@op("dataframe", "merge", "npartitions", [1, 2, 3])
def _(env, s, v):
    import dask.dataframe as dd
    import pandas as pd

    right = dd.from_pandas(pd.DataFrame({"k": [0, 1, 5], "r": [10, 11, 15]}), npartitions=2)
    return _ddf(s).merge(right, on="k", how="inner", npartitions=v, shuffle_method="tasks").map_partitions(len)


@op("dataframe", "join", "how", ["inner", "left", "outer"])
def _(env, s, v):
    d = _ddf(s)
    return d[["a"]].loc[5:30].join(d[["b"]].loc[10:40], how=v)


@op("dataframe", "concat", "join", ["inner", "outer"])
def _(env, s, v):
    import dask.dataframe as dd

    d = _ddf(s)
    return dd.concat([d[["a", "b"]], d[["a", "k"]]], join=v)


@op("dataframe", "concat", "axis", [0, 1])
def _(env, s, v):
    import dask.dataframe as dd

    d = _ddf(s)
    return dd.concat([d[["a"]], d[["b"]]], axis=v)


@op("dataframe", "concat", "order", ["ab", "ba"])
def _(env, s, v):
    import dask.dataframe as dd

    d = _ddf(s)
    x, y = d[["a"]], d[["a"]] + 1
    return dd.concat([x, y] if v == "ab" else [y, x], interleave_partitions=True)


@op("dataframe", "resample", "rule", ["1D", "2D", "3D"])
def _(env, s, v):
    return _ddf(s, kind="datetime")["a"].resample(v).sum()


@op("dataframe", "resample", "function", ["sum", "mean", "max", "count"])
def _(env, s, v):
    return getattr(_ddf(s, kind="datetime")["a"].resample("2D"), v)()


@op("dataframe", "resample", "label", ["left", "right"])
def _(env, s, v):
    return _ddf(s, kind="datetime")["a"].resample("2D", label=v).sum()


@op("dataframe", "str-slice", "stop", [1, 2, 3])
def _(env, s, v):
    return _ddf(s)["s"].str.slice(0, v)


@op("dataframe", "str-method", "name", ["upper", "lower", "title", "len"])
def _(env, s, v):
    return getattr(_ddf(s)["s"].str, v)()


@op("dataframe", "str-contains", "pat", ["a", "b", "ab"])
def _(env, s, v):
    return _ddf(s)["s"].str.contains(v)


@op("dataframe", "dt-accessor", "field", ["day", "hour", "dayofweek", "month"])
def _(env, s, v):
    return getattr(_ddf(s, kind="datetime").index.to_series().dt, v)


@op("dataframe", "reset_index", "drop", [False, True])
def _(env, s, v):
    return _ddf(s).reset_index(drop=v)


@op("dataframe", "to_dask_array", "lengths", [True, None])
def _(env, s, v):
    return _ddf(s)[["a", "k"]].to_dask_array(lengths=v).sum(axis=0)


@op("dataframe", "to_dask_array", "columns", [["a", "k"], ["k", "a"], ["a", "k2"]])
def _(env, s, v):
    return _ddf(s)[v].to_dask_array(lengths=True)


@op("dataframe", "melt", "id_vars", [["k"], ["k2"], ["k", "k2"]])
def _(env, s, v):
    return _ddf(s)[["a", "k", "k2"]].melt(id_vars=v)


@op("dataframe", "pivot_table", "aggfunc", ["sum", "mean", "count"])
def _(env, s, v):
    d = _ddf(s).categorize(columns=["k2"])
    return d.pivot_table(index="k", columns="k2", values="a", aggfunc=v)


@op("dataframe", "get_dummies", "prefix", ["p", "q"])
def _(env, s, v):
    import dask.dataframe as dd

    return dd.get_dummies(_ddf(s)[["k2"]].categorize(columns=["k2"]), prefix=v)


@op("dataframe", "categorize", "columns", [["k"], ["k2"], ["k", "k2"]])
def _(env, s, v):
    return _ddf(s)[["a", "k", "k2"]].astype({"k": "object", "k2": "object"}).categorize(columns=v).map_partitions(lambda p: p.dtypes.astype(str).to_frame("dt"))


@op("dataframe", "select_dtypes", "include", [["int64"], ["float64"], ["number"]])
def _(env, s, v):
    return _ddf(s).select_dtypes(include=v)


@op("dataframe", "memory_usage", "index", [True, False])
def _(env, s, v):
    return _ddf(s)[["a", "b"]].memory_usage(index=v)


@op("dataframe", "explode", "column", ["l", "m"])
def _(env, s, v):
    import dask.dataframe as dd
    import pandas as pd

    p = pd.DataFrame({"l": [[1, 2], [3], [], [4, 5, 6]], "m": [[1], [2, 3], [4], []], "z": [1, 2, 3, 4]})
    return dd.from_pandas(p, npartitions=2).explode(v)


@op("dataframe", "abs-neg", "function", ["abs", "__neg__", "__invert__"])
def _(env, s, v):
    return getattr(_ddf(s)["a"], v)()


@op("dataframe", "index-ops", "scalar", [1, 2, 10])
def _(env, s, v):
    return _ddf(s).index + v


@op("dataframe", "squeeze-series", "name", ["a", "b", "k"])
def _(env, s, v):
    return _ddf(s)[v]


@op("dataframe", "align", "join", ["inner", "outer", "left"])
def _(env, s, v):
    d = _ddf(s)
    return d[["a"]].loc[5:30].align(d[["b"]].loc[10:40], join=v)[0]


@op("dataframe", "between", "inclusive", ["both", "neither", "left", "right"])
def _(env, s, v):
    return _ddf(s)["a"].between(2, 6, inclusive=v)


@op("dataframe", "to_timestamp-freq", "to_frame-name", ["x", "y"])
def _(env, s, v):
    return _ddf(s)["a"].to_frame(name=v)


# ---------------------------------------------------------------------------------------------------------------
# bag

@op("bag", "random_sample", "prob", [0.1, 0.5, 0.9, 0.3])
def _(env, s, v):
    return _bag(s, 60).random_sample(v, random_state=42)


@op("bag", "random_sample", "random_state", [1, 2, 42])
def _(env, s, v):
    return _bag(s, 60).random_sample(0.5, random_state=v)


@op("bag", "random_sample-count", "prob", [0.1, 0.5, 0.9])
def _(env, s, v):
    return _bag(s, 60).random_sample(v, random_state=42).count()


@op("bag", "repartition", "npartitions", [1, 2, 4, 6])
def _(env, s, v):
    return _bag(s).repartition(npartitions=v).map_partitions(lambda p: [len(list(p))])


@op("bag", "repartition", "partition_size", [100, 200, 400])
def _(env, s, v):
    return _bag(s, 60).repartition(partition_size=v).map_partitions(lambda p: [len(list(p))])


@op("bag", "map", "kwarg", [0, 1, 1.0, True, 2])
def _(env, s, v):
    return _bag(s).map(f_elem, k=v)


@op("bag", "map", "arg", [0, 1, 2])
def _(env, s, v):
    return _bag(s).map(f_elem, v)


@op("bag", "map", "two-kwargs-swapped", [(1, 2), (2, 1), (2, 2)])
def _(env, s, v):
    return _bag(s).map(f_elem, k=v[0], m=v[1])


@op("bag", "map_partitions", "kwarg", [0, 1, 2])
def _(env, s, v):
    return _bag(s).map_partitions(f_plist, k=v)


@op("bag", "starmap", "kwarg", [0, 1, 2])
def _(env, s, v):
    import dask.bag as db

    return db.from_sequence([(i, i + 1) for i in _seq(s, 12)], npartitions=3).starmap(f_star, k=v)


@op("bag", "map-bag-arg", "other", [0, 1])
def _(env, s, v):
    return _bag(s).map(binop_add, _bag(s + 1 + v))


@op("bag", "filter", "predicate-threshold", [3, 5, 10])
def _(env, s, v):
    import functools

    return _bag(s).filter(functools.partial(gt, t=v))


@op("bag", "remove", "predicate-threshold", [3, 5, 10])
def _(env, s, v):
    import functools

    return _bag(s).remove(functools.partial(gt, t=v))


@op("bag", "take", "k", [1, 3, 5])
def _(env, s, v):
    return _bag(s).take(v, compute=False)


@op("bag", "take", "npartitions", [1, 2, -1])
def _(env, s, v):
    return _bag(s).take(15, npartitions=v, compute=False, warn=False)


@op("bag", "topk", "k", [1, 3, 5])
def _(env, s, v):
    return _bag(s).topk(v)


@op("bag", "topk", "key", [None, "neg", "mod"])
def _(env, s, v):
    import operator

    return _bag(s).topk(3, key={None: None, "neg": operator.neg, "mod": mod_key}[v])


@op("bag", "fold", "initial", [0, 1, 10])
def _(env, s, v):
    return _bag(s).fold(binop_add, initial=v)


@op("bag", "fold", "split_every", [2, 3, None])
def _(env, s, v):
    return _bag(s, npartitions=6).fold(binop_add, split_every=v)


@op("bag", "foldby", "initial", [0, 1, 10])
def _(env, s, v):
    return _bag(s).foldby(mod_key, binop_add, v, binop_add, 0)


@op("bag", "foldby", "key", [2, 3, 4])
def _(env, s, v):
    import functools

    return _bag(s).foldby(functools.partial(mod_key, m=v), binop_add, 0)


@op("bag", "accumulate", "initial", [0, 1, 10])
def _(env, s, v):
    return _bag(s).accumulate(binop_add, initial=v)


@op("bag", "groupby", "key", [2, 3, 4])
def _(env, s, v):
    import functools

    return _bag(s).groupby(functools.partial(mod_key, m=v), shuffle="tasks").map(lambda kv: (kv[0], sorted(kv[1])))


@op("bag", "pluck", "key", ["name", "v"])
def _(env, s, v):
    import dask.bag as db

    return db.from_sequence(_recs(s), npartitions=3).pluck(v)


@op("bag", "pluck", "default", [None, 0, -1])
def _(env, s, v):
    import dask.bag as db

    return db.from_sequence(_recs(s), npartitions=3).pluck("opt", v)


@op("bag", "frequencies", "split_every", [2, 3, None])
def _(env, s, v):
    return _bag(s, npartitions=6).frequencies(split_every=v).map_partitions(lambda p: [sorted(p)])


@op("bag", "frequencies", "sort", [False, True])
def _(env, s, v):
    return _bag(s).frequencies(sort=v)


@op("bag", "distinct", "key", [None, 2, 3])
def _(env, s, v):
    import functools

    return _bag(s).distinct(key=None if v is None else functools.partial(mod_key, m=v)).map_partitions(lambda p: [sorted(p)])


@op("bag", "reduction", "function", ["sum", "max", "min", "count", "mean", "std", "any", "all"])
def _(env, s, v):
    return getattr(_bag(s), v)()


@op("bag", "var", "ddof", [0, 1, 2])
def _(env, s, v):
    return _bag(s).var(ddof=v)


@op("bag", "sum", "split_every", [2, 3, None])
def _(env, s, v):
    return _bag(s, npartitions=6).sum(split_every=v)


@op("bag", "from_sequence", "partition_size", [2, 5, 10])
def _(env, s, v):
    import dask.bag as db

    return db.from_sequence(_seq(s), partition_size=v).map_partitions(lambda p: [list(p)])


@op("bag", "from_sequence", "npartitions", [1, 2, 3, 6])
def _(env, s, v):
    import dask.bag as db

    return db.from_sequence(_seq(s), npartitions=v).map_partitions(lambda p: [list(p)])


@op("bag", "range", "n", [10, 11, 12])
def _(env, s, v):
    import dask.bag as db

    return db.range(v, npartitions=3)


@op("bag", "range", "npartitions", [1, 2, 3])
def _(env, s, v):
    import dask.bag as db

    return db.range(12, npartitions=v).map_partitions(lambda p: [list(p)])


@op("bag", "from_delayed", "order", ["ab", "ba"])
def _(env, s, v):
    import dask
    import dask.bag as db

    a, b = dask.delayed(_seq, pure=True)(s, 5), dask.delayed(_seq, pure=True)(s + 1, 5)
    return db.from_delayed([a, b] if v == "ab" else [b, a])


@op("bag", "concat", "order", ["ab", "ba"])
def _(env, s, v):
    import dask.bag as db

    a, b = _bag(s, 8, 2), _bag(s + 1, 8, 2)
    return db.concat([a, b] if v == "ab" else [b, a])


@op("bag", "zip", "order", ["ab", "ba"])
def _(env, s, v):
    import dask.bag as db

    a, b = _bag(s, 8, 2), _bag(s + 1, 8, 2)
    return db.zip(a, b) if v == "ab" else db.zip(b, a)


@op("bag", "product", "other", [0, 1])
def _(env, s, v):
    return _bag(s, 6, 2).product(_bag(s + 1 + v, 4, 2))


@op("bag", "join", "on_other", [2, 3])
def _(env, s, v):
    import functools

    return _bag(s, 8, 2).join([0, 1, 2, 3], functools.partial(mod_key, m=v), mod_key)


@op("bag", "to_dataframe", "columns", [["p", "q"], ["q", "p"]])
def _(env, s, v):
    import dask.bag as db

    return db.from_sequence([(i, i + 1) for i in _seq(s, 12)], npartitions=3).to_dataframe(columns=v)


@op("bag", "to_delayed-map", "optimize_graph", [True, False])
def _(env, s, v):
    import dask

    return dask.delayed(f_pack, pure=True)(*_bag(s).map(f_elem, k=1).to_delayed(optimize_graph=v))


@op("bag", "str-method", "name", ["upper", "lower", "title"])
def _(env, s, v):
    import dask.bag as db

    return getattr(db.from_sequence(["ab", "Cd", "eF g"], npartitions=2).str, v)()


@op("bag", "flatten-map", "kwarg", [0, 1])
def _(env, s, v):
    import dask.bag as db

    return db.from_sequence([[1, 2], [3], [4, 5]], npartitions=2).flatten().map(f_elem, k=v)


@op("bag", "read_text", "blocksize", [None, 16, 32, 64, 24])
def _(env, s, v):
    import dask.bag as db

    return db.read_text(env.text(s, 1)[0], blocksize=v)


@op("bag", "read_text-partition-lengths", "blocksize", [16, 32, 64])
def _(env, s, v):
    import dask.bag as db

    return db.read_text(env.text(s, 1)[0], blocksize=v).map_partitions(lambda p: [len(list(p))])


@op("bag", "read_text", "files_per_partition", [None, 1, 2, 3])
def _(env, s, v):
    import dask.bag as db

    return db.read_text(env.text(s, 4), files_per_partition=v).map_partitions(lambda p: [list(p)])


@op("bag", "read_text", "linedelimiter", ["\n", ";", "-"])
def _(env, s, v):
    import dask.bag as db

    return db.read_text(env.text(s, 1)[0], linedelimiter=v, blocksize=40)


@op("bag", "read_text", "include_path", [False, True])
def _(env, s, v):
    import dask.bag as db

    return db.read_text(env.text(s, 2), include_path=v, blocksize=32).map(str)


@op("bag", "read_text", "files", [[0, 1], [1, 0], [0, 2]])
def _(env, s, v):
    import dask.bag as db

    fs = env.text(s, 3)
    return db.read_text([fs[i] for i in v])


@op("bag", "read_text", "encoding", ["utf-8", "latin-1"])
def _(env, s, v):
    import dask.bag as db

    return db.read_text(env.text(s, 1)[0], encoding=v, blocksize=32)


@op("bag", "read_text-map", "blocksize", [16, 32, 64])
def _(env, s, v):
    import dask.bag as db

    return db.read_text(env.text(s, 2), blocksize=v).map(len).sum()


# ---------------------------------------------------------------------------------------------------------------
# delayed

def _d():
    import dask

    return dask.delayed


@op("delayed", "call", "kwarg", [0, 1, 1.0, True, 2, "1"])
def _(env, s, v):
    return _d()(f_pack, pure=True)(_seq(s, 4), k=v)


@op("delayed", "call", "arg", [0, 1, 1.0, True, 2])
def _(env, s, v):
    return _d()(f_pack, pure=True)(_seq(s, 4), v)


@op("delayed", "call", "kwarg-name", ["k", "m", "n"])
def _(env, s, v):
    return _d()(f_pack, pure=True)(_seq(s, 4), **{v: 1})


@op("delayed", "call", "arg-vs-kwarg", ["arg", "kwarg"])
def _(env, s, v):
    f = _d()(f_pack, pure=True)
    return f(_seq(s, 4), 1) if v == "arg" else f(_seq(s, 4), k=1)


@op("delayed", "call", "two-kwargs-swapped", [(1, 2), (2, 1), (2, 2)])
def _(env, s, v):
    return _d()(f_pack, pure=True)(_seq(s, 4), k=v[0], m=v[1])


@op("delayed", "call", "arg-order", ["ab", "ba"])
def _(env, s, v):
    a, b = _seq(s, 3), _seq(s + 1, 3)
    return _d()(f_pack, pure=True)(*([a, b] if v == "ab" else [b, a]))


@op("delayed", "call", "nested-delayed-kwarg", [0, 1, 2])
def _(env, s, v):
    d = _d()
    return d(f_pack, pure=True)(d(f_pack, pure=True)(_seq(s, 3), k=v), k=0)


@op("delayed", "call", "container-arg", [[1, 2], (1, 2), [2, 1], {"a": 1}, {"a": 2}])
def _(env, s, v):
    return _d()(f_types, pure=True)(v, k=v)


@op("delayed", "call", "function", ["f_pack", "f_types"])
def _(env, s, v):
    return _d()({"f_pack": f_pack, "f_types": f_types}[v], pure=True)(_seq(s, 4), k=1)


@op("delayed", "nout", "children", [2, 3, 4])
def _(env, s, v):
    d = _d()
    parts = d(f_many, pure=True, nout=v)(s, n=v)
    return d(f_pack, pure=True)(*parts)


@op("delayed", "nout", "value", [None, 2, 3])
def _(env, s, v):
    return _d()(f_many, pure=True, nout=v)(s, n=3)


@op("delayed", "literal-nout", "nout", [2, 3])
def _(env, s, v):
    d = _d()
    x = d(tuple(_seq(s, 3)), nout=v, pure=True)
    return d(f_pack, pure=True)(*list(x)[:2], n=v)


@op("delayed", "traverse", "flag", [True, False])
def _(env, s, v):
    d = _d()
    inner = d(f_pack, pure=True)(s)
    return d(f_types, pure=True)(d([inner, 1], traverse=v, pure=True))


@op("delayed", "getattr", "name", ["v", "w"])
def _(env, s, v):
    return getattr(_d()(Box(s), pure=True), v)


@op("delayed", "method", "arg", [1, 2, 3])
def _(env, s, v):
    return _d()(Box(s + 1), pure=True).scaled(v)


@op("delayed", "method", "kwarg", [1, 2, 3])
def _(env, s, v):
    return _d()(Box(s + 1), pure=True).scaled(k=v)


@op("delayed", "getitem", "index", [0, 1, -1, slice(0, 2)])
def _(env, s, v):
    return _d()(_seq(s, 4), pure=True)[v]


@op("delayed", "operator", "operand", [1, 2, 1.0, True])
def _(env, s, v):
    return _d()(s + 3, pure=True) + v


@op("delayed", "operator", "name", ["add", "sub", "mul", "floordiv", "pow"])
def _(env, s, v):
    import operator

    return getattr(operator, v)(_d()(s + 3, pure=True), 2)


@op("delayed", "operator", "side", ["left", "right"])
def _(env, s, v):
    x = _d()(s + 3, pure=True)
    return x - 1 if v == "left" else 1 - x


@op("delayed", "literal", "value", [[1, 2], (1, 2), [1, 2.0], [True, 2], [2, 1]])
def _(env, s, v):
    return _d()(v, pure=True)


@op("delayed", "array-argument", "chunks", [(3, 4), (6, 8), (2, 8)])
def _(env, s, v):
    return _d()(f_types, pure=True)(_arr(s, chunks=v).sum(axis=0).to_delayed().ravel().tolist(), k=len(v))


@op("delayed", "bag-to_delayed", "npartitions", [1, 2, 3])
def _(env, s, v):
    return _d()(f_pack, pure=True)(*_bag(s, 12, v).to_delayed())


# ---------------------------------------------------------------------------------------------------------------
# scratch files

class Env:
    def __init__(self, directory):
        self.dir = directory
        self._csv = {}
        self._text = {}

    def csv(self, seed):
        k = seed % 3
        if k not in self._csv:
            p = os.path.join(self.dir, "sib-%d.csv" % k)
            _pdf(k, 120).drop(columns=["s", "u"]).to_csv(p, index=False)
            os.utime(p, (1_000_000_000 + k, 1_000_000_000 + k))
            self._csv[k] = p
        return self._csv[k]

    def text(self, seed, n):
        k = seed % 3
        out = []
        for j in range(n):
            if (k, j) not in self._text:
                p = os.path.join(self.dir, "sib-%d-%d.txt" % (k, j))
                with open(p, "wb") as f:
                    f.write("".join("l%d-%d%02d;\n" % (k, j, i) for i in range(16 + j)).encode())
                os.utime(p, (1_000_000_000 + k, 1_000_000_000 + k))
                self._text[(k, j)] = p
            out.append(self._text[(k, j)])
        return out


def api_of(name):
    return OPS[name][0]


def names():
    return sorted(OPS)
