"""Array workload helpers (DESIGN 4.5): shapes, chunkings, dtypes, data.
Everything is rebuilt deterministically from small JSON descriptions."""
from __future__ import annotations

import itertools
import random

import numpy as np

DTYPES = ["bool", "int8", "int32", "int64", "uint8", "float32", "float64", "complex128", "datetime64[ns]", "timedelta64[ns]"]
NUMERIC = ["bool", "int8", "int32", "int64", "uint8", "float32", "float64", "complex128"]
REAL = ["int8", "int32", "int64", "uint8", "float32", "float64"]
FLOATS = ["float32", "float64"]


def compositions(n):
    """All chunkings (compositions) of an axis of length n.  2**(n-1) of them: keep n <= 12."""
    if n == 0:
        return [(0,)]
    assert n <= 14, "do not enumerate compositions of long axes"
    out = []
    for mask in range(2 ** (n - 1)):
        parts, cur = [], 1
        for i in range(n - 1):
            if mask >> i & 1:
                parts.append(cur)
                cur = 1
            else:
                cur += 1
        parts.append(cur)
        out.append(tuple(parts))
    return out


def all_chunkings(shape):
    """Complete product of per-axis compositions: 'all chunkings of a small shape'."""
    return list(itertools.product(*[compositions(n) for n in shape]))


def rand_comp(rng: random.Random, n, flavour=None):
    """Random chunking of one axis; over-weights size-1 chunks, one big chunk, irregular chunks."""
    if n == 0:
        return (0,)
    flavour = flavour or rng.choice(("one", "ones", "regular", "irregular", "irregular", "two"))
    if flavour == "one" or n == 1:
        return (n,)
    if flavour == "ones":
        return (1,) * n
    if flavour == "regular":
        c = rng.randint(1, n)
        return tuple([c] * (n // c) + ([n % c] if n % c else []))
    if flavour == "two":
        a = rng.randint(1, n - 1)
        return (a, n - a)
    k = rng.randint(1, min(n - 1, 6))
    cuts = sorted(rng.sample(range(1, n), k))
    b = [0] + cuts + [n]
    return tuple(y - x for x, y in zip(b, b[1:]))


def rand_chunks(rng, shape):
    return tuple(rand_comp(rng, n) for n in shape)


def rand_shape(rng, maxnd=3, maxlen=6, minnd=0, allow_zero=True):
    nd = rng.randint(minnd, maxnd)
    pool = ([0] if allow_zero else []) + [1, 1, 2, 3, 4, 5, 6, 7, 8, 9]
    pool = [p for p in pool if p <= maxlen]
    return tuple(rng.choice(pool) for _ in range(nd))


def rand_data(seed, shape, dtype, special=True):
    """Small-valued data so that exact comparisons are meaningful; NaN/inf/-0.0 for floats when special."""
    r = np.random.default_rng(seed)
    shape = tuple(shape)
    n = int(np.prod(shape)) if shape else 1
    dtype = str(dtype)
    if dtype == "bool":
        a = r.integers(0, 2, n).astype(bool)
    elif dtype.startswith("uint"):
        a = r.integers(0, 7, n).astype(dtype)
    elif dtype.startswith("int"):
        a = r.integers(-5, 6, n).astype(dtype)
    elif dtype.startswith("float"):
        a = (r.integers(-8, 9, n) / 2).astype(dtype)
        if special and n:
            u = r.random()
            if u < 0.35:
                a[r.integers(0, n, max(1, n // 4))] = np.nan
            if 0.25 < u < 0.45:
                a[r.integers(0, n, 1)] = np.inf
            if 0.4 < u < 0.5:
                a[r.integers(0, n, 1)] = -np.inf
            if u > 0.9:
                a[r.integers(0, n, 1)] = -0.0
    elif dtype == "complex128":
        a = (r.integers(-3, 4, n) + 1j * r.integers(-3, 4, n)).astype(dtype)
    elif dtype.startswith("datetime64"):
        a = (r.integers(0, 10, n) * 10 ** 9).astype("datetime64[ns]")
        if special and n and r.random() < 0.2:
            a[r.integers(0, n, 1)] = np.datetime64("NaT")
    elif dtype.startswith("timedelta64"):
        a = (r.integers(-5, 6, n) * 10 ** 9).astype("timedelta64[ns]")
    else:
        raise ValueError(dtype)
    return a.reshape(shape)


def from_array(x, chunks):
    import dask.array as da

    return da.from_array(x, chunks=chunks)


def has_split(chunks):
    """Non-triviality rule shared by the array properties: some axis has >= 2 chunks."""
    return any(len(c) >= 2 for c in chunks)


def chunks_of_desc(desc):
    return tuple(tuple(c) for c in desc)
