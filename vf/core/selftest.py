"""Setup-time self test: nothing to build (pure Python, no third-party deps
beyond the repository's own); verify the harness imports and sees /repo."""
import glob
import importlib
import json
import os
import subprocess
import sys

from .ctx import REPO, VERIF
from .runner import child_env


def selftest():
    env = child_env("SELF", "quick", 0)
    code = ("import dask, os, sys; assert os.path.realpath(dask.__file__).startswith(%r), dask.__file__; "
            "import vf.core.shard, vf.mon.steps; print('dask', dask.__file__)" % (REPO + os.sep))
    rc = subprocess.call([sys.executable, "-c", code], cwd=VERIF, env=env)
    if rc:
        return rc
    sys.path.insert(0, VERIF)
    n = 0
    with open(os.path.join(VERIF, "claimed.txt")) as f:
        claimed = [l.strip() for l in f if l.strip() and not l.startswith("#")]
    for pid in claimed:
        p = os.path.join(VERIF, "vf", "props", pid.lower() + ".py")
        m = importlib.import_module("vf.props." + pid.lower())
        for attr in ("PROP", "RULE", "BUDGET", "FLOORS", "cases", "run_case"):
            assert hasattr(m, attr), (p, attr)
        n += 1
    json.load(open(os.path.join(VERIF, "known_findings.json")))
    os.makedirs(os.path.join(VERIF, "evidence"), exist_ok=True)
    print("vf selftest ok: %d property modules" % n)
    return 0
