"""Parent process of a check: shards the case stream over subprocesses, merges
what the monitors observed, decides the three-valued verdict, writes evidence."""
from __future__ import annotations

import json
import os
import shutil
import subprocess
import sys
import tempfile
import time

from . import findings
from .ctx import REPO, VERIF, jdump, short, sighash

PY = sys.executable


def child_env(pid, tier, seed):
    env = dict(os.environ)
    env["PYTHONPATH"] = VERIF + os.pathsep + REPO
    env["PYTHONDONTWRITEBYTECODE"] = "1"
    env.setdefault("PYTHONHASHSEED", "0")
    env["DASK_VERIF"] = "1"
    env["VERIF_REPO"] = REPO
    env["VERIF_SEED"] = str(seed)
    env["VERIF_TIER"] = tier
    env["OMP_NUM_THREADS"] = "1"
    env["OPENBLAS_NUM_THREADS"] = "1"
    env["MKL_NUM_THREADS"] = "1"
    # never let a user's dask config or env leak into a check
    for k in list(env):
        if k.startswith("DASK_") and k not in ("DASK_VERIF",):
            del env[k]
    env["DASK_CONFIG"] = os.path.join(VERIF, "vf", "shim", "empty_config")
    return env


def _launch(pid, tier, seed, shard, nshards, out, budget, env, skip=()):
    cmd = [PY, "-m", "vf", "shard", pid, "--tier", tier, "--seed", str(seed),
           "--shard", str(shard), "--nshards", str(nshards), "--out", out,
           "--budget", str(budget)]
    if skip:
        cmd += ["--skip", ",".join(str(i) for i in sorted(skip))]
    log = open(out + ".log", "w")
    return subprocess.Popen(cmd, cwd=VERIF, env=env, stdout=log, stderr=subprocess.STDOUT), log


def check(pid, tier, seed):
    t0 = time.time()
    from .shard import load

    mod = load(pid)
    nshards = int(os.environ.get("VF_SHARDS", "0")) or min(16, os.cpu_count() or 4)
    nshards = min(nshards, getattr(mod, "MAX_SHARDS", 16))
    budget = float(os.environ.get("VF_BUDGET", "0")) or float(mod.BUDGET[tier])
    if not os.environ.get("VF_BUDGET"):
        # the budgets were measured on an idle 16-core machine; on a loaded one the same work takes longer, and a
        # truncated run can only end INCONCLUSIVE, so stretch the budget by the load seen at start (at most 4x)
        try:
            budget *= max(1.0, min(4.0, os.getloadavg()[0] / float(os.cpu_count() or 1)))
        except OSError:
            pass
    hard = budget * 4 + 120
    tmp = tempfile.mkdtemp(prefix="vf-%s-" % pid)
    env = child_env(pid, tier, seed)
    if hasattr(mod, "child_env"):
        mod.child_env(env, tier, seed)
    results, failed = {}, {}
    crashes, skip = [], {}
    try:
        pending = list(range(nshards))
        for attempt in (0, 1, 2, 3):
            procs = {}
            for s in pending:
                out = os.path.join(tmp, "shard%d.json" % s)
                for f in (out, out + ".current"):
                    if os.path.exists(f):
                        os.unlink(f)
                procs[s] = _launch(pid, tier, seed, s, nshards, out, budget, env, skip.get(s, ())) + (out,)
            again = []
            for s, (p, log, out) in procs.items():
                left = max(1.0, t0 + hard * (min(attempt, 1) + 1) - time.time())
                try:
                    rc = p.wait(timeout=left)
                    why = "exit %s" % rc
                except subprocess.TimeoutExpired:
                    p.kill()
                    p.wait()
                    rc, why = -9, "watchdog after %.0fs" % hard
                log.close()
                if rc == 0 and os.path.exists(out):
                    with open(out) as f:
                        results[s] = json.load(f)
                    failed.pop(s, None)
                else:
                    tail = ""
                    try:
                        with open(out + ".log") as f:
                            tail = f.read()[-1500:]
                    except OSError:
                        pass
                    failed[s] = "%s: %s" % (why, tail)
                    cur = None
                    if rc is not None and rc < 0 and rc != -9:
                        # the interpreter itself died (signal): the case in flight is the witness; run the shard again
                        # without it so that the rest of its cases are still observed
                        try:
                            with open(out + ".current") as f:
                                cur = json.load(f)
                        except (OSError, ValueError):
                            cur = None
                    if cur is not None and len(crashes) < 12:
                        crashes.append({"signal": -rc, "shard": s, "index": cur["index"], "case": cur["case"], "tail": tail[-1200:]})
                        skip.setdefault(s, set()).add(cur["index"])
                        again.append(s)
                    elif attempt < 1:
                        again.append(s)
            pending = again
            if not pending:
                break
    finally:
        shutil.rmtree(tmp, ignore_errors=True)
    return decide(pid, mod, tier, seed, results, failed, nshards, t0, crashes)


def decide(pid, mod, tier, seed, results, failed, nshards, t0, crashes=()):
    kf = findings.known_for(pid)
    ev = evals = 0
    sigs, sets = set(), {}
    outcomes, counters, ops, reasons = {}, {}, {}, {}
    samples, herr, unraisable = [], [], []
    viol, vcount = {}, {}
    truncated = False
    exhaustive_done = bool(results) and not failed
    timeouts = 0
    tcases = []
    for s in sorted(results):
        r = results[s]
        evals += r["evaluations"]
        sigs.update(r["nontrivial_sigs"])
        for k, v in r["sets"].items():
            sets.setdefault(k, set()).update(v)
        for src, dst in ((r["outcomes"], outcomes), (r["counters"], counters), (r["ops"], ops),
                         (r["reasons"], reasons), (r["violation_counts"], vcount)):
            for k, v in src.items():
                dst[k] = dst.get(k, 0) + v
        if len(samples) < 5:
            samples.extend(r["samples"][: max(1, 5 - len(samples))][:2])
        herr.extend(r["harness_errors"])
        unraisable.extend(r.get("unraisable", []))
        for lab, ws in r["violations"].items():
            viol.setdefault(lab, []).extend(ws)
        truncated = truncated or r["truncated"]
        exhaustive_done = exhaustive_done and r["exhaustive_done"]
        timeouts += r["case_timeouts"]
        tcases.extend(r.get("timeout_cases", []))

    for c in crashes:
        # a crash of the interpreter while the real code ran a case of the domain is a violation of any "computes the
        # value ..." property; the label names the signal and, if the module can tell, the operation
        namer = getattr(mod, "crash_label", None)
        what = None
        try:
            what = namer(c["case"]) if namer else None
        except Exception:  # noqa: BLE001
            what = None
        lab = "process-crash:%s:signal-%d" % (what or "case", c["signal"])
        viol.setdefault(lab, []).append({"label": lab, "message": "the interpreter died with signal %d while running this case"
                                          % c["signal"], "case": c["case"], "index": c["index"],
                                         "detail": {"faulthandler": c["tail"]}})
        vcount[lab] = vcount.get(lab, 0) + 1

    floors = dict(getattr(mod, "FLOORS", {}).get(tier, {}))
    inconclusive = []
    for s, why in failed.items():
        inconclusive.append("shard %d failed twice (%s)" % (s, short(why, 300)))
    if herr:
        inconclusive.append("harness errors: %s" % short(jdump(herr[:2]), 1200))
    if timeouts and not getattr(mod, "TIMEOUT_OK", False):
        inconclusive.append("%d case(s) hit the wall-clock watchdog, e.g. %s" % (timeouts, short(jdump(tcases[:2]), 400)))
    if evals < floors.get("evaluations", 1):
        inconclusive.append("only %d evaluations (floor %d)" % (evals, floors.get("evaluations", 1)))
    if len(sigs) < floors.get("distinct_nontrivial", 2):
        inconclusive.append("only %d distinct non-trivial cases (floor %d)"
                            % (len(sigs), floors.get("distinct_nontrivial", 2)))
    for k, m in floors.get("counters", {}).items():
        if counters.get(k, 0) < m:
            inconclusive.append("monitor counter %s=%d below floor %d" % (k, counters.get(k, 0), m))
    for k, m in floors.get("sets", {}).items():
        if len(sets.get(k, ())) < m:
            inconclusive.append("distinct %s=%d below floor %d" % (k, len(sets.get(k, ())), m))
    bad = sum(outcomes.get(k, 0) for k in ("rejected", "unsupported", "envlimited"))
    ceil = floors.get("max_skipped_fraction", 0.6)
    if evals and bad / evals > ceil:
        inconclusive.append("%.0f%% of cases were rejected/unsupported (ceiling %.0f%%)"
                            % (100 * bad / evals, 100 * ceil))

    known_hit, new = {}, {}
    for lab, ws in viol.items():
        (known_hit if lab in kf else new)[lab] = ws

    replay_paths = []
    if new:
        rdir = os.path.join(VERIF, "replays", pid)
        os.makedirs(rdir, exist_ok=True)
        for lab, ws in sorted(new.items()):
            w = min(ws, key=lambda w: len(jdump(w["case"])))
            path = os.path.join(rdir, "%s.json" % sighash(lab))
            with open(path, "w") as f:
                f.write(jdump({"property": pid, "tier": tier, "seed": seed, "label": lab,
                               "count": vcount.get(lab, len(ws)), "witness": w,
                               "other_witnesses": [x for x in ws if x is not w][:3]}, indent=1))
            replay_paths.append((lab, path, w))

    wall = time.time() - t0
    verdict = "violated" if new else ("inconclusive" if inconclusive else "held")
    space = getattr(mod, "EXHAUSTIVE_SPACE", None)
    if isinstance(space, dict):
        space = space.get(tier)
    cov = {
        "evaluations": evals,
        "distinct_nontrivial": len(sigs),
        "rule": mod.RULE,
        "samples": samples[:5] or [{"note": "no non-trivial case completed"}],
        "exhaustive": bool(space) and exhaustive_done,
        "exhaustive_space": space if (space and exhaustive_done) else None,
        "outcomes": outcomes,
        "skip_reasons": dict(sorted(reasons.items(), key=lambda kv: -kv[1])[:12]),
        "monitor_counters": counters,
        "operation_histogram": dict(sorted(ops.items(), key=lambda kv: -kv[1])[:80]),
        "distinct_observed": {k: len(v) for k, v in sets.items()},
        "known_findings_hit": {k: vcount.get(k, 0) for k in known_hit},
        "new_violation_labels": {k: vcount.get(k, 0) for k in new},
        "shards": nshards,
        "truncated_by_time_budget": truncated,
        "unraisable_or_thread_exceptions": unraisable[:5],
        "verdict": verdict,
        "inconclusive_reasons": inconclusive,
        "repo": REPO,
    }
    evidence = {
        "property_id": pid,
        "tier": tier,
        "seed": seed,
        "level": getattr(mod, "LEVEL", "exploration"),
        "coverage": cov,
        "assumptions": list(getattr(mod, "ASSUMPTIONS", [])),
        "wall_s": round(wall, 2),
        "violations": sum(vcount.get(k, 0) for k in new),
    }
    edir = os.path.join(VERIF, "evidence")
    os.makedirs(edir, exist_ok=True)
    with open(os.path.join(edir, "%s.json" % pid), "w") as f:
        f.write(jdump(evidence, indent=1) + "\n")

    print("%s %s seed=%d: %d cases, %d distinct non-trivial, outcomes=%s, %.1fs"
          % (pid, tier, seed, evals, len(sigs), jdump(outcomes), wall))
    if counters:
        print("  monitors: " + ", ".join("%s=%s" % kv for kv in sorted(counters.items())[:24]))
    if sets:
        print("  distinct: " + ", ".join("%s=%d" % (k, len(v)) for k, v in sorted(sets.items())))
    for lab in sorted(known_hit):
        print("KNOWN-FINDING: property=%s %s [%s] (x%d)" % (pid, kf[lab].get("what", lab), lab, vcount.get(lab, 0)))
    for lab, path, w in replay_paths:
        print("  witness [%s] x%d: %s | case=%s" % (lab, vcount.get(lab, 0), short(w["message"], 300), short(jdump(w["case"]), 300)))
        print("VIOLATION property=%s replay=%s" % (pid, path))
    if new:
        return 1
    if inconclusive:
        for r in inconclusive:
            print("INCONCLUSIVE property=%s reason=%s" % (pid, r))
        return 2
    print("HELD property=%s on what was observed" % pid)
    return 0


def replay(path):
    with open(path) as f:
        d = json.load(f)
    pid = d["property"]
    from .shard import load
    from .ctx import Ctx

    env = child_env(pid, d.get("tier", "quick"), d.get("seed", 0))
    if os.environ.get("VF_REPLAY_CHILD") != "1":
        env["VF_REPLAY_CHILD"] = "1"
        return subprocess.call([PY, "-m", "vf", "replay", path], cwd=VERIF, env=env)
    mod = load(pid)
    if hasattr(mod, "shard_setup"):
        mod.shard_setup(d.get("tier", "quick"), d.get("seed", 0))
    ctx = Ctx(d["witness"]["case"], d.get("tier", "quick"), d.get("seed", 0))
    mod.run_case(d["witness"]["case"], ctx)
    print(jdump({"status": ctx.status, "reason": ctx.reason, "violations": ctx.violations,
                 "observed": ctx.sample}, indent=1))
    labels = {v["label"] for v in ctx.violations}
    if d["label"] in labels:
        print("REPRODUCED label=%s" % d["label"])
        return 1
    print("NOT REPRODUCED (labels now: %s)" % sorted(labels))
    return 0
