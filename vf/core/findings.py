"""Known findings: genuine defects recorded rather than repaired.

The file is committed and never written at run time.  A violation is matched
by (property, label) where label is the module's mechanism label.
"""
from __future__ import annotations

import json
import os

from .ctx import VERIF

PATH = os.path.join(VERIF, "known_findings.json")


def load(path=PATH):
    if not os.path.exists(path):
        return {"findings": [], "fixed": []}
    with open(path) as f:
        d = json.load(f)
    d.setdefault("findings", [])
    d.setdefault("fixed", [])
    # per-property files (committed, never written at run time) are merged in
    import glob

    for p in sorted(glob.glob(os.path.join(os.path.dirname(path), "known_findings.d", "*.json"))):
        with open(p) as f:
            e = json.load(f)
        d["findings"].extend(e.get("findings", []))
        d["fixed"].extend(e.get("fixed", []))
    return d


def known_for(pid, data=None):
    data = data or load()
    return {f["key"]: f for f in data["findings"] if f.get("property") == pid}
