"""Shard worker: runs every nshards-th case of a property module's case stream
in a fresh interpreter and writes one aggregated JSON result."""
from __future__ import annotations

import faulthandler
import importlib
import json
import os
import signal
import sys
import threading
import time
import traceback

from .ctx import REPO, CaseTimeout, Ctx, dask_frame, jdump, short, sighash

MAX_VIOL_PER_LABEL = 5
MAX_SAMPLES = 4


def _alarm(signum, frame):
    raise CaseTimeout()


def load(pid):
    return importlib.import_module("vf.props.%s" % pid.lower())


def run_shard(pid, tier, seed, shard, nshards, out, budget, only_index=None, skip=()):
    t0 = time.time()
    faulthandler.enable()
    mod = load(pid)
    agg = {
        "shard": shard,
        "evaluations": 0,
        "generated": 0,
        "outcomes": {},
        "reasons": {},
        "nontrivial_sigs": set(),
        "counters": {},
        "ops": {},
        "sets": {},
        "samples": [],
        "violations": {},      # label -> list of witnesses
        "violation_counts": {},
        "harness_errors": [],
        "case_timeouts": 0,
        "timeout_cases": [],
        "truncated": False,
        "stream_done": False,
        "exhaustive_done": True,
        "unraisable": [],
    }
    # swallowed exceptions in worker threads / destructors are observations too
    def _unraisable(u):
        agg["unraisable"].append(short("%r %r" % (u.exc_value, u.object), 300))
    sys.unraisablehook = _unraisable
    def _thread_exc(a):
        if a.exc_type is SystemExit:
            return
        agg["unraisable"].append(short("thread %s: %r" % (a.thread and a.thread.name, a.exc_value), 300))
    threading.excepthook = _thread_exc

    import dask

    dask_file = os.path.realpath(dask.__file__)
    agg["dask_file"] = dask_file
    if not dask_file.startswith(REPO + os.sep):
        agg["harness_errors"].append("dask imported from %s, not from %s" % (dask_file, REPO))
        _write(out, agg, t0)
        return

    if hasattr(mod, "shard_setup"):
        mod.shard_setup(tier, seed)
    case_timeout = getattr(mod, "CASE_TIMEOUT", 60)
    signal.signal(signal.SIGALRM, _alarm)
    deadline = t0 + budget
    try:
        for i, case in enumerate(mod.cases(tier, seed)):
            agg["generated"] = i + 1
            if only_index is None and i % nshards != shard:
                continue
            if only_index is not None and i != only_index:
                continue
            if i in skip:
                continue
            if time.time() > deadline:
                agg["truncated"] = True
                # the case stream puts complete sub-spaces first; note if we cut into one
                if isinstance(case, dict) and case.get("space") == "exhaustive":
                    agg["exhaustive_done"] = False
                break
            ctx = Ctx(case, tier, seed)
            # the case in flight, so that the parent can name the witness when the interpreter itself dies
            try:
                with open(out + ".current", "w") as f:
                    json.dump({"index": i, "case": case}, f, default=repr)
            except (OSError, TypeError, ValueError):
                pass
            signal.setitimer(signal.ITIMER_REAL, case_timeout)
            try:
                mod.run_case(case, ctx)
            except CaseTimeout:
                agg["case_timeouts"] += 1
                ctx.status = "timeout"
                if len(agg["timeout_cases"]) < 3:
                    agg["timeout_cases"].append(case)
                hook = getattr(mod, "on_timeout", None)
                if hook:
                    hook(case, ctx)
            except BaseException as e:  # noqa: BLE001
                signal.setitimer(signal.ITIMER_REAL, 0)
                if isinstance(e, KeyboardInterrupt):
                    raise
                if dask_frame(e) is not None:
                    # raised from inside dask and not anticipated by the module:
                    # inside the generator's domain this is a witness
                    ctx.exception(e, prefix="uncaught")
                else:
                    ctx.status = "harness_error"
                    if len(agg["harness_errors"]) < 5:
                        agg["harness_errors"].append(
                            {"case": case, "trace": traceback.format_exc()[-2500:]}
                        )
                    else:
                        agg["harness_errors"].append("more")
            finally:
                signal.setitimer(signal.ITIMER_REAL, 0)
            _merge(agg, case, ctx, i)
        else:
            agg["stream_done"] = True
    finally:
        signal.setitimer(signal.ITIMER_REAL, 0)
    if hasattr(mod, "shard_finish"):
        extra = mod.shard_finish()
        for k, v in (extra or {}).items():
            agg["counters"][k] = agg["counters"].get(k, 0) + v
    _write(out, agg, t0)


def _merge(agg, case, ctx, index):
    agg["evaluations"] += 1
    agg["outcomes"][ctx.status] = agg["outcomes"].get(ctx.status, 0) + 1
    if ctx.reason and ctx.status != "ok":
        r = ctx.status + ": " + ctx.reason[:80]
        if len(agg["reasons"]) < 40 or r in agg["reasons"]:
            agg["reasons"][r] = agg["reasons"].get(r, 0) + 1
    if ctx.nontrivial and ctx.status == "ok":
        agg["nontrivial_sigs"].add(sighash(ctx.sig if ctx.sig is not None else case))
        for s in ctx.extra_sigs:
            agg["nontrivial_sigs"].add(sighash(s))
    for k, v in ctx.counters.items():
        agg["counters"][k] = agg["counters"].get(k, 0) + v
    for k, v in ctx.ops.items():
        agg["ops"][k] = agg["ops"].get(k, 0) + v
    for k, s in ctx.sets.items():
        agg["sets"].setdefault(k, set()).update(s)
    if ctx.nontrivial and ctx.status == "ok" and len(agg["samples"]) < MAX_SAMPLES:
        agg["samples"].append({"case": case, "observed": ctx.sample})
    for v in ctx.violations:
        lab = v["label"]
        agg["violation_counts"][lab] = agg["violation_counts"].get(lab, 0) + 1
        lst = agg["violations"].setdefault(lab, [])
        if len(lst) < MAX_VIOL_PER_LABEL:
            w = dict(v)
            w["case"] = case
            w["index"] = index
            lst.append(w)


def _write(out, agg, t0):
    agg["wall_s"] = round(time.time() - t0, 3)
    agg["nontrivial_sigs"] = sorted(agg["nontrivial_sigs"])
    agg["sets"] = {k: sorted(v) for k, v in agg["sets"].items()}
    tmp = out + ".tmp"
    with open(tmp, "w") as f:
        f.write(jdump(agg))
    os.replace(tmp, out)
