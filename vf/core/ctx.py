"""Per-case context handed to a property module's run_case().

A property module decides one property.  For every generated case it calls the
real dask API, lets its monitor/oracle look at what happened, and reports via
this context object.  Nothing here decides a property by itself.
"""
from __future__ import annotations

import hashlib
import json
import os
import sys
import traceback

REPO = os.path.realpath(os.environ.get("VERIF_REPO", "/repo"))
VERIF = os.path.dirname(os.path.dirname(os.path.dirname(os.path.abspath(__file__))))


def jdefault(o):
    """JSON fallback used everywhere: never fail to serialise a witness."""
    try:
        import numpy as np

        if isinstance(o, np.generic):
            return o.item()
        if isinstance(o, np.ndarray):
            return {"ndarray": o.tolist(), "dtype": str(o.dtype), "shape": list(o.shape)}
    except Exception:
        pass
    if isinstance(o, (set, frozenset)):
        return {"set": sorted(map(repr, o))}
    if isinstance(o, bytes):
        return {"bytes": o.decode("latin1")}
    if isinstance(o, tuple):
        return list(o)
    return repr(o)[:500]


def jdump(o, **kw):
    return json.dumps(o, default=jdefault, sort_keys=True, **kw)


def sighash(o) -> str:
    if not isinstance(o, str):
        o = jdump(o)
    return hashlib.blake2b(o.encode("utf8", "replace"), digest_size=8).hexdigest()


def short(o, n=300):
    s = o if isinstance(o, str) else repr(o)
    return s if len(s) <= n else s[: n - 3] + "..."


def dask_frame(tb_or_exc):
    """Innermost traceback frame that lies inside the dask package under test.

    Returns (relative_file, function_name) or None.  Used to build mechanism
    labels such as ``ZeroDivisionError@local.py:fire_tasks``.
    """
    tb = tb_or_exc.__traceback__ if isinstance(tb_or_exc, BaseException) else tb_or_exc
    found = None
    root = os.path.join(REPO, "dask") + os.sep
    for fs in traceback.extract_tb(tb):
        fn = os.path.realpath(fs.filename)
        if fn.startswith(root):
            found = (fn[len(root):], fs.name)
    return found


def exc_label(exc: BaseException) -> str:
    fr = dask_frame(exc)
    where = "%s:%s" % fr if fr else "outside-dask"
    return "%s@%s" % (type(exc).__name__, where)


def through_shim(exc: BaseException) -> bool:
    """True when an exception is caused by the harness stand-ins (pyarrow stub,
    cachey stand-in) rather than by dask: environment-limited, never a verdict."""
    shim = os.path.join(VERIF, "vf", "shim") + os.sep
    e = exc
    seen = 0
    while e is not None and seen < 6:
        for fs in traceback.extract_tb(e.__traceback__):
            if os.path.realpath(fs.filename).startswith(shim):
                return True
        msg = str(e).lower()
        if isinstance(e, ImportError) and ("pyarrow" in msg or "cachey" in msg):
            return True
        if "pyarrow" in msg and isinstance(e, (ImportError, ModuleNotFoundError)):
            return True
        e = e.__cause__ or e.__context__
        seen += 1
    return False


class CaseTimeout(BaseException):
    """Raised in the main thread by the per-case wall-clock watchdog."""


class Ctx:
    """Collects what a single case observed."""

    def __init__(self, case, tier="quick", seed=0):
        self.case = case
        self.tier = tier
        self.seed = seed
        self.nontrivial = False
        self.sig = None            # distinctness signature (default: the case itself)
        self.extra_sigs = []       # additional distinct non-trivial items (e.g. schedules)
        self.status = "ok"         # ok | rejected | unsupported | envlimited
        self.reason = None
        self.counters = {}
        self.ops = {}
        self.sets = {}             # named sets of hashes merged across cases (distinct counting)
        self.violations = []
        self.sample = None         # what to show in evidence for this case

    # ---- observation -----------------------------------------------------
    def count(self, name, n=1):
        self.counters[name] = self.counters.get(name, 0) + n

    def op(self, name, n=1):
        self.ops[name] = self.ops.get(name, 0) + n

    def distinct(self, setname, item):
        self.sets.setdefault(setname, set()).add(sighash(item))

    # ---- non-verdict outcomes ---------------------------------------------
    def reject(self, reason=""):
        """The reference (NumPy/pandas/Python) itself refuses the input."""
        self.status = "rejected"
        self.reason = short(reason, 200)

    def unsupported(self, reason=""):
        self.status = "unsupported"
        self.reason = short(reason, 200)

    def envlimited(self, reason=""):
        self.status = "envlimited"
        self.reason = short(reason, 200)

    # ---- verdict -----------------------------------------------------------
    def violation(self, label, message="", **detail):
        """Record a witness.  ``label`` is the mechanism label produced by the
        property's classifier: input-feature predicate + symptom, never random
        values or hashes."""
        self.violations.append(
            {
                "label": label,
                "message": short(message, 1500),
                "detail": json.loads(jdump(detail)) if detail else {},
            }
        )

    def exception(self, exc, prefix="", **detail):
        """Classify an exception raised by dask inside the supported domain."""
        if isinstance(exc, CaseTimeout):
            raise exc
        if through_shim(exc):
            self.envlimited("%s: %s" % (type(exc).__name__, exc))
            return
        tb = "".join(traceback.format_exception(type(exc), exc, exc.__traceback__))[-3000:]
        self.violation(
            (prefix + ":" if prefix else "") + exc_label(exc),
            "%s: %s" % (type(exc).__name__, short(str(exc), 400)),
            traceback=tb,
            **detail,
        )

    # ---- serialisation -------------------------------------------------------
    def record(self):
        return {
            "status": self.status,
            "reason": self.reason,
            "nontrivial": bool(self.nontrivial),
            "sig": sighash(self.sig if self.sig is not None else self.case),
            "violations": self.violations,
        }
