"""python -m vf check <id> --tier quick|thorough    (run from /verif)"""
import argparse
import os
import sys


def main(argv=None):
    ap = argparse.ArgumentParser(prog="vf")
    sub = ap.add_subparsers(dest="cmd", required=True)
    c = sub.add_parser("check")
    c.add_argument("pid")
    c.add_argument("--tier", default=os.environ.get("VERIF_TIER", "quick"), choices=["quick", "thorough"])
    c.add_argument("--seed", type=int, default=int(os.environ.get("VERIF_SEED", "0") or 0))
    s = sub.add_parser("shard")
    s.add_argument("pid")
    s.add_argument("--tier", default="quick")
    s.add_argument("--seed", type=int, default=0)
    s.add_argument("--shard", type=int, default=0)
    s.add_argument("--nshards", type=int, default=1)
    s.add_argument("--out", required=True)
    s.add_argument("--budget", type=float, default=30)
    s.add_argument("--index", type=int, default=None)
    s.add_argument("--skip", default="")
    sub.add_parser("selftest")
    r = sub.add_parser("replay")
    r.add_argument("path")
    a = ap.parse_args(argv)
    if a.cmd == "check":
        from vf.core.runner import check

        return check(a.pid.upper(), a.tier, a.seed)
    if a.cmd == "shard":
        from vf.core.shard import run_shard

        run_shard(a.pid.upper(), a.tier, a.seed, a.shard, a.nshards, a.out, a.budget, a.index,
                  skip=frozenset(int(x) for x in a.skip.split(",") if x))
        return 0
    if a.cmd == "selftest":
        from vf.core.selftest import selftest

        return selftest()
    if a.cmd == "replay":
        from vf.core.runner import replay

        return replay(a.path)


if __name__ == "__main__":
    sys.exit(main())
