"""C07 — toposort / getcycle / isdag are correct.

Monitor: every call of the real dask.core.toposort / getcycle / isdag on a
generated directed graph is checked against harness reachability + SCCs
computed from the same edge list (Tarjan-free: boolean transitive closure,
independent of dask).
"""
from __future__ import annotations

import itertools
import random

PROP = "C07"
RULE = ("cases = directed graphs given as (n, edge mask, self-loop mask, key style, graph form); "
        "all graphs on n<=4 nodes (no self loops) are enumerated completely, then self-loop variants, "
        "sampled n=5,6 and random graphs up to 60 nodes with planted cycles; every case calls toposort "
        "once and getcycle/isdag for every non-empty start-key subset (n<=4) or sampled subsets; "
        "non-trivial = at least one edge; distinct = distinct (n, masks, style, form)")
ASSUMPTIONS = ["edge lists are produced by the harness; dependencies are those the harness wrote into the graph"]
BUDGET = {"quick": 25, "thorough": 420}
FLOORS = {
    "quick": {"evaluations": 4000, "distinct_nontrivial": 3000,
              "counters": {"toposort_calls": 4000, "getcycle_calls": 30000, "cyclic_graphs": 1500, "acyclic_graphs": 400}},
    "thorough": {"evaluations": 50000, "distinct_nontrivial": 40000,
                 "counters": {"toposort_calls": 50000, "getcycle_calls": 300000, "cyclic_graphs": 20000, "acyclic_graphs": 3000}},
}
EXHAUSTIVE_SPACE = {
    "quick": "all directed graphs without self-loops on n<=4 labelled nodes (1+1+4+64+4096) x all non-empty start-key subsets, legacy form",
    "thorough": "all directed graphs without self-loops on n<=4 labelled nodes x all start-key subsets x {legacy, task-spec, explicit dependencies} forms; all self-loop variants for n<=3",
}
LEVEL_NOTE = "trusts only the harness closure computation and that graph dicts mean what the harness wrote"

STYLES = ("str", "int", "tuple", "mixed")
FORMS = ("legacy", "spec", "depsdict")


def _pairs(n):
    return [(i, j) for i in range(n) for j in range(n) if i != j]


def cases(tier, seed):
    rng = random.Random(seed * 7919 + 17)
    # --- complete sub-space -------------------------------------------------
    for n in range(0, 5):
        npairs = n * (n - 1)
        for mask in range(2 ** npairs):
            forms = FORMS if tier == "thorough" else ("legacy",)
            for form in forms:
                yield {"space": "exhaustive", "n": n, "mask": mask, "self": 0, "style": "str",
                       "perm": 0, "form": form, "subsets": "all"}
    if tier == "thorough":
        for n in range(1, 4):
            for mask in range(2 ** (n * (n - 1))):
                for sl in range(1, 2 ** n):
                    yield {"space": "exhaustive", "n": n, "mask": mask, "self": sl, "style": "str",
                           "perm": 0, "form": "legacy", "subsets": "all"}
    # --- sampled: other forms / key styles / self loops on the small graphs ----
    k = 3000 if tier == "quick" else 40000
    for _ in range(k):
        n = rng.choice((2, 3, 4, 4, 5, 5, 6))
        npairs = n * (n - 1)
        # sparse masks so that acyclic graphs are common too
        dens = rng.choice((0.15, 0.3, 0.5))
        mask = 0
        for b in range(npairs):
            if rng.random() < dens:
                mask |= 1 << b
        yield {"n": n, "mask": mask, "self": rng.getrandbits(n) if rng.random() < 0.15 else 0,
               "style": rng.choice(STYLES), "perm": rng.randrange(10 ** 6),
               "form": rng.choice(FORMS), "subsets": "all" if n <= 4 else "sample"}
    # --- random larger graphs with planted cycles ------------------------------
    k = 300 if tier == "quick" else 6000
    for _ in range(k):
        yield {"big": True, "n": rng.randint(7, 60), "gseed": rng.randrange(2 ** 31),
               "cycles": rng.choice((0, 0, 1, 2)), "style": rng.choice(STYLES),
               "form": rng.choice(FORMS), "subsets": "sample"}


def _names(n, style, perm):
    rng = random.Random(perm)
    if style == "str":
        names = ["k%d" % i for i in range(n)]
    elif style == "int":
        names = list(range(n))
    elif style == "tuple":
        names = [("x", i) for i in range(n)]
    else:
        names = [("x", i) if i % 3 == 0 else ("k%d" % i if i % 3 == 1 else i + 100) for i in range(n)]
    if perm:
        rng.shuffle(names)
    return names


def _edges(case):
    n = case["n"]
    if case.get("big"):
        rng = random.Random(case["gseed"])
        edges = set()
        order = list(range(n))
        rng.shuffle(order)
        pos = {v: i for i, v in enumerate(order)}
        m = rng.randint(n - 1, 3 * n)
        for _ in range(m):
            a, b = rng.sample(range(n), 2)
            if pos[a] < pos[b]:
                a, b = b, a
            edges.add((a, b))  # a depends on b, b earlier in order: acyclic
        for _ in range(case["cycles"]):
            ln = rng.randint(1, min(6, n))
            walk = rng.sample(range(n), ln)
            for a, b in zip(walk, walk[1:] + walk[:1]):
                edges.add((a, b))
        return edges
    edges = {p for b, p in enumerate(_pairs(n)) if case["mask"] >> b & 1}
    edges |= {(i, i) for i in range(n) if case.get("self", 0) >> i & 1}
    return edges


def _f(*a):
    return a


def _build(case, names, edges):
    from dask._task_spec import Task, TaskRef, DataNode

    n = case["n"]
    deps = {names[i]: [names[j] for (a, j) in sorted(edges) if a == i] for i in range(n)}
    form = case["form"]
    if form == "spec":
        dsk = {}
        for k, ds in deps.items():
            dsk[k] = Task(k, _f, *[TaskRef(d) for d in ds]) if ds else DataNode(k, "lit")
        return dsk, None, deps
    dsk = {k: ((_f,) + tuple(ds) if ds else "lit") for k, ds in deps.items()}
    if form == "depsdict":
        return dsk, {k: set(v) for k, v in deps.items()}, deps
    return dsk, None, deps


def _closure(n, edges):
    reach = [[False] * n for _ in range(n)]
    for a, b in edges:
        reach[a][b] = True
    for k in range(n):
        rk = reach[k]
        for i in range(n):
            if reach[i][k]:
                ri = reach[i]
                for j in range(n):
                    if rk[j]:
                        ri[j] = True
    return reach


def run_case(case, ctx):
    import dask.core as core

    n = case["n"]
    edges = _edges(case)
    names = _names(n, case["style"], case.get("perm", 0))
    idx = {nm: i for i, nm in enumerate(names)}
    dsk, depmap, deps = _build(case, names, edges)
    reach = _closure(n, edges)
    oncycle = [reach[i][i] for i in range(n)]
    cyclic = any(oncycle)
    ctx.nontrivial = bool(edges)
    ctx.sig = (n, sorted(edges), case["style"], case.get("perm", 0), case["form"])
    ctx.count("cyclic_graphs" if cyclic else "acyclic_graphs")
    ctx.op("form:" + case["form"])
    feat = "n%s:%s" % ("<=4" if n <= 4 else ">4", case["form"])

    from vf.mon.steps import StepBoundExceeded, bounded

    bound = 5000 + 400 * (n + len(edges)) ** 2   # the real algorithm is linear in n+e
    # ---- toposort -------------------------------------------------------------
    ctx.count("toposort_calls")
    try:
        with bounded([core._toposort], bound) as st:
            out = core.toposort(dsk, dependencies=depmap) if depmap is not None else core.toposort(dsk)
        ctx.count("line_events", st.count)
        raised = None
    except StepBoundExceeded as e:
        ctx.violation("toposort:nontermination:" + feat,
                      "toposort executed more than %d lines on n=%d e=%d" % (bound, n, len(edges)), edges=sorted(edges))
        out, raised = None, e
    except RuntimeError as e:
        out, raised = None, e
    except Exception as e:  # noqa: BLE001
        ctx.exception(e, prefix="toposort")
        out, raised = None, e
    if cyclic and raised is None:
        ctx.violation("toposort:cyclic-accepted:" + feat, "toposort returned %r for cyclic graph" % (out,), edges=sorted(edges))
    elif not cyclic and raised is not None and isinstance(raised, RuntimeError):
        ctx.violation("toposort:acyclic-rejected:" + feat, "toposort raised %r on a DAG" % (raised,), edges=sorted(edges))
    elif not cyclic and out is not None:
        if sorted(map(repr, out)) != sorted(map(repr, names)) or len(out) != n:
            ctx.violation("toposort:not-a-permutation:" + feat, "got %r for keys %r" % (out, names))
        else:
            pos = {k: i for i, k in enumerate(out)}
            for a, b in edges:
                if pos[names[a]] < pos[names[b]]:
                    ctx.violation("toposort:key-before-dependency:" + feat,
                                  "%r placed before its dependency %r in %r" % (names[a], names[b], out))
                    break

    # ---- getcycle / isdag ---------------------------------------------------------
    if n == 0:
        return
    if case["subsets"] == "all":
        subsets = [list(c) for r in range(1, n + 1) for c in itertools.combinations(range(n), r)]
    else:
        rng = random.Random(case.get("gseed", case.get("perm", 0)))
        subsets = [rng.sample(range(n), rng.randint(1, min(n, 4))) for _ in range(8)]
    for sub in subsets:
        keys = [names[i] for i in sub]
        # a single key may be passed bare (not tuple keys: a tuple is a key, and a bare str is fine)
        variants = [keys]
        if len(keys) == 1:
            variants.append(keys[0])
        expect_cycle = any(oncycle[j] and (j == s or reach[s][j]) for s in sub for j in range(n))
        for kv in variants:
            ctx.count("getcycle_calls")
            try:
                with bounded([core._toposort], bound) as st:
                    cyc = core.getcycle(dsk, kv)
                    dag = core.isdag(dsk, kv)
                ctx.count("line_events", st.count)
            except StepBoundExceeded:
                ctx.violation("getcycle:nontermination:" + feat,
                              "getcycle/isdag executed more than %d lines; keys=%r edges=%r" % (bound, kv, sorted(edges)))
                continue
            except Exception as e:  # noqa: BLE001
                ctx.exception(e, prefix="getcycle")
                continue
            if dag != (not cyc):
                ctx.violation("isdag-disagrees-with-getcycle:" + feat, "isdag=%r getcycle=%r keys=%r" % (dag, cyc, kv))
            if not isinstance(cyc, list):
                ctx.violation("getcycle:not-a-list:" + feat, repr(cyc))
                continue
            if expect_cycle and not cyc:
                ctx.violation("getcycle:missed-reachable-cycle:" + feat,
                              "keys=%r edges=%r returned []" % (kv, sorted(edges)))
            elif not expect_cycle and cyc:
                ctx.violation("getcycle:cycle-reported-where-none-reachable:" + feat,
                              "keys=%r edges=%r returned %r" % (kv, sorted(edges), cyc))
            elif cyc:
                ok = len(cyc) >= 2 and cyc[0] == cyc[-1] and all(c in idx for c in cyc)
                if ok:
                    for a, b in zip(cyc, cyc[1:]):
                        if (idx[a], idx[b]) not in edges:
                            ok = False
                    st = idx[cyc[0]]
                    if not any(s == st or reach[s][st] for s in sub):
                        ok = False
                if not ok:
                    ctx.violation("getcycle:not-a-real-reachable-cycle:" + feat,
                                  "keys=%r edges=%r returned %r" % (kv, sorted(edges), cyc))
    ctx.sample = {"cyclic": cyclic, "edges": sorted(edges)[:12], "toposort": out if out is None else [repr(k) for k in out][:8]}

CLAIM = ("Every call of toposort/getcycle/isdag made on the generated graphs (all directed graphs on <=4 nodes "
         "completely, sampled and planted-cycle graphs up to 60 nodes) is checked against an independent "
         "reachability/cycle oracle; termination is observed with a logical line-count bound (sys.monitoring), "
         "not a clock. Held means: no counterexample among the executions observed.")
TECHNIQUE = "runtime monitoring: return-value oracle (transitive closure) + sys.monitoring step-bound on the real functions, complete small space + random"
