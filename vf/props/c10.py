"""C10 — high-level graph culling and blockwise fusion are sound; fused annotations never loosen a constraint.

Monitor (classic array engine, HighLevelGraph).  A case rebuilds a random stack of 2-6 blockwise steps through
the public dask.array API (vf/gen/c10_stacks.py) and observes four facets on the real functions:

1. `HighLevelGraph.cull(S)`: the values of the keys in S computed (dask.get) from the materialised culled graph
   equal the values computed from the full materialised graph; every subset S of the output blocks when there are
   <= 6 of them, seeded random subsets beyond; also culling an already culled graph, and culling the graph that
   `optimize_blockwise` returned.
2. `Blockwise.cull(K, all_keys)` on every Blockwise layer (original, fused, and culled once before): the returned
   dependency map has exactly the keys of the materialised culled layer, these contain K, and deps[k] equals the
   dependencies of the materialised task k.
3. `optimize_blockwise(hlg, keys)` and `fuse_roots(...)`: the materialised result computes the same values for all
   output keys as the unfused graph.
4. annotations: steps are built under `dask.annotate(...)` with values from a small lattice; for every layer of the
   optimised graph that absorbed other layers, the annotations must follow the rules of the statement over the
   absorbed layers that carry the key: priority/retries max, resources per-resource max, workers intersection,
   allow_other_workers conjunction.  Layers with annotations that dask refuses to fuse are counted
   (`ann_not_fused`), that is fine.  The same rules are applied to `fuse_roots` (which only merges layers with equal
   annotations: the merged layer has to keep them).

Side statistic only (DESIGN: culled layer names and the dependency map disagree by design):
`HighLevelGraph.validate()` after cull -> counters validate_ok / validate_fail, no verdict.

Calibration
* `Blockwise.cull` asked for none of its keys returns an empty dependency map and a layer that is never used
  (HighLevelGraph.cull drops it): the layer facet starts from non-empty key sets.
* expected values are those of the *unfused materialised graph* evaluated by the same dask.get - NumPy is not involved,
  so float results must be bit-identical (same block functions on the same blocks); they are.
"""
from __future__ import annotations

import itertools
import random

import numpy as np

PROP = "C10"
RULE = ("cases = (program seed, number of steps 2-6, dtype, per-step annotations). Complete parts: every subset of the "
        "output blocks for outputs with <= 6 blocks (all cases); for every annotation key every ordered pair and triple "
        "of lattice values on a fixed 2/3-layer chain. Random part: stacks over 1-3 d roots (from_array ndarray / "
        "array-like, ones, full, map_blocks block_id root) with random chunking and 28 step kinds (elementwise, 2-3 sibling contraction layers with differently chunked contracted axes feeding one parent, "
        "transposes, same input twice with different index order, contractions with concatenate True/None, tensordot, "
        "broadcast vector/column, new axes, drop_axis, block_id, block_info, literals, delayed kwargs). non-trivial = "
        "some output has >= 2 blocks or at least one layer was absorbed by fusion; distinct = distinct (step trace, "
        "chunks, annotations).")
ASSUMPTIONS = ["dask.get (synchronous scheduler) on a fully materialised unfused graph defines the expected block values",
               "Task.dependencies of a materialised task are the dependencies of that task"]
BUDGET = {"quick": 100, "thorough": 540}
FLOORS = {
    "quick": {"evaluations": 1100, "distinct_nontrivial": 1050,
              "counters": {"hlg_cull_checked": 14500, "hlg_cull_removed_tasks": 13000, "hlg_cull_twice_checked": 3600,
                           "layer_cull_checked": 38000, "layer_cull_twice_checked": 9000, "task_deps_compared": 88000,
                           "optimize_blockwise_calls": 1100, "fused_values_checked": 4300, "layers_absorbed": 2800,
                           "ann_fused_groups_with_differing_annotations": 500, "fuse_roots_merged_layers": 400,
                           "fuse_roots_ann_groups_with_annotations": 24, "complete_subset_spaces": 750,
                           "sibling_contraction_steps": 350},
              "sets": {"annotation_combinations": 450, "layer_features": 18}, "max_skipped_fraction": 0.05},
    "thorough": {"evaluations": 13500, "distinct_nontrivial": 13000,
                 "counters": {"hlg_cull_checked": 220000, "hlg_cull_twice_checked": 55000, "layer_cull_checked": 560000,
                              "layer_cull_twice_checked": 140000, "task_deps_compared": 1300000, "fused_values_checked": 64000,
                              "layers_absorbed": 42000, "ann_fused_groups_with_differing_annotations": 5400,
                              "fuse_roots_merged_layers": 6000, "fuse_roots_ann_groups_with_annotations": 350,
                              "sibling_contraction_steps": 5500},
                 "sets": {"annotation_combinations": 4200, "layer_features": 25}, "max_skipped_fraction": 0.05},
}
EXHAUSTIVE_SPACE = ("every subset of output blocks for outputs with <= 6 blocks; all ordered pairs and triples of lattice "
                    "values per annotation key (priority, retries, resources, workers, allow_other_workers) on a fixed chain")
CLAIM = ("On every generated stack the real HighLevelGraph.cull, Blockwise.cull, optimize_blockwise and fuse_roots were run "
         "and their results materialised and evaluated: culled/fused values were compared with the values of the unfused "
         "full graph, culled dependency maps with the dependencies of the materialised tasks, and annotations of fused "
         "layers with the rules of the statement; held = no difference and no dask exception on the executions observed.")
LEVEL_NOTE = "the unfused, fully materialised graph evaluated by dask.get is the reference; annotation rules restated in the harness"
TECHNIQUE = "runtime monitoring: differential oracle (culled / fused vs full unfused graph), return-value contract on Blockwise.cull, annotation-lattice oracle"
CASE_TIMEOUT = 120
PENDING = {}
# Found by this check on the pinned tree and repaired since (repo commit "fix: fuse_roots drops the annotations of the layers
# it merges", see findings_proposed/C10.md): label `fused-annotations:fuse_roots:all-annotations-dropped`.

# ---- annotation lattice ---------------------------------------------------------------------------------------------
LATTICE = {
    "priority": [None, -1, 0, 5],
    "retries": [None, 0, 2, 3],
    "resources": [None, {"GPU": 1}, {"GPU": 2}, {"GPU": 1, "MEM": 2}, {"MEM": 1}],
    "workers": [None, ["a"], ["a", "b"], ["b", "c"], "a"],
    "allow_other_workers": [None, True, False],
}
FUSABLE = tuple(LATTICE)


def _rand_ann(rng):
    u = rng.random()
    if u < 0.25:
        return None
    ann = {}
    for k, vals in LATTICE.items():
        if rng.random() < 0.5:
            v = rng.choice(vals)
            if v is not None:
                ann[k] = v
    if rng.random() < 0.08:
        ann["custom"] = rng.choice((1, 2))
    return ann or None


def cases(tier, seed):
    rng = random.Random(seed * 6151 + 10)
    # ---- complete: per annotation key, every ordered pair / triple of lattice values on a fixed chain ------------------
    for key, vals in LATTICE.items():
        for n in (2, 3):
            for combo in itertools.product(range(len(vals)), repeat=n):
                anns = [({key: vals[i]} if vals[i] is not None else None) for i in combo]
                yield {"space": "exhaustive", "pseed": 1000 + n, "nops": n, "dtype": "int64", "anns": anns, "chain_only": True,
                       "shape": [4, 4], "chunks": [[2, 2], [1, 3]], "root": "ones", "lat": key}
    # ---- random stacks ---------------------------------------------------------------------------------------------------
    n = 2000 if tier == "quick" else 30000
    for i in range(n):
        nops = rng.choice((2, 2, 3, 3, 4, 4, 5, 6))
        mode = rng.random()
        if mode < 0.45:
            anns = None
        elif mode < 0.9:
            anns = [_rand_ann(rng) for _ in range(nops)]
        else:  # equal annotations on every step (and the root): the fuse_roots situation
            a = _rand_ann(rng)
            anns = [a] * nops
        yield {"pseed": rng.randrange(2 ** 31), "nops": nops, "dtype": rng.choice(("int64", "float64")), "anns": anns,
               "sseed": rng.randrange(2 ** 31), "two_outputs": rng.random() < 0.2,
               "annfuse_off": rng.random() < 0.05}


# ---- helpers ---------------------------------------------------------------------------------------------------------

def _same_block(a, b):
    a, b = np.asarray(a), np.asarray(b)
    return a.shape == b.shape and a.dtype == b.dtype and bool(np.array_equal(a, b, equal_nan=a.dtype.kind in "fc"))


def _subsets(keys, rng, limit_all=6, nrand=10):
    n = len(keys)
    if n <= limit_all:
        return [list(c) for r in range(1, n + 1) for c in itertools.combinations(keys, r)], True
    out = [[k] for k in rng.sample(keys, min(3, n))] + [list(keys)]
    for _ in range(nrand):
        out.append(rng.sample(keys, rng.randint(1, n - 1)))
    return out, False


def _feat(trace):
    """input-feature predicate of a stack for labels: the first of a fixed priority list of step families that
    occurs in the stack (one label per mechanism; no seeds, sizes or conjunctions of incidental features)"""
    t = {s.split(":")[0] for s in trace}
    if "sib_contract" in t:
        return "sibling-contractions"
    if t & {"addT", "bw_twice", "bw_twice_tfirst", "tensordot", "outer"}:
        return "same-input-twice"
    if t & {"cat_matmul", "cat_sumlast", "drop_mb"}:
        return "contraction-concatenate"
    if t & {"list_matmul", "list_sumlast", "tensordot_root"}:
        return "contraction"
    if t & {"newaxis_mb", "tile", "tile_chunks"}:
        return "new-axes"
    if t & {"bcast_vec", "bcast_col"}:
        return "broadcast"
    if t & {"T", "transpose"}:
        return "transpose"
    if t & {"blockid", "blockinfo"} or any(s.startswith("root:") and s != "root:np" for s in trace):
        return "io-deps"
    return "elementwise"


def _layer_feats(layer):
    f = []
    out = set(layer.output_indices)
    ins = [ind for _, ind in layer.indices if ind is not None]
    if any(i not in out for ind in ins for i in ind):
        f.append("contracted" + ("-concatenate" if layer.concatenate else ""))
    names = [a for a, ind in layer.indices if ind is not None]
    if len(set(map(str, names))) < len(names):
        f.append("same-input-twice")
    if layer.io_deps:
        f.append("io-deps")
    if layer.new_axes:
        f.append("new-axes")
    if any(nb == 1 and layer.dims.get(i, 1) > 1 for a, ind in layer.indices if ind is not None
           for i, nb in zip(ind, layer.numblocks[a])):
        f.append("broadcast")
    if any(ind is None for _, ind in layer.indices):
        f.append("literal-args")
    if layer.output_blocks:
        f.append("culled-before")
    return f or ["plain"]


def _layer_feat(layer):
    """primary feature of a Blockwise layer (first of the fixed priority list above) for labels"""
    return _layer_feats(layer)[0]


def _expected_ann(anns):
    """rules of the statement over the annotation dicts of the fused inputs"""
    anns = [a for a in anns if a]
    exp = {}
    for k in ("priority", "retries"):
        v = [a[k] for a in anns if k in a]
        if v:
            exp[k] = max(v)
    res = [a["resources"] for a in anns if "resources" in a]
    if res:
        exp["resources"] = {r: max(d[r] for d in res if r in d) for r in set().union(*res)}
    w = [set(a["workers"]) for a in anns if "workers" in a]
    if w:
        exp["workers"] = set.intersection(*w)
    aow = [a["allow_other_workers"] for a in anns if "allow_other_workers" in a]
    if aow:
        exp["allow_other_workers"] = all(aow)
    return exp


def _ann_mismatch(got, members):
    """first rule the fused annotations break: (key, message) or None"""
    got = dict(got or {})
    exp = _expected_ann(members)
    if exp and not got:
        return "all-annotations-dropped", "inputs %r, the fused layer has no annotations" % (members,)
    for k in FUSABLE:
        if k not in exp:
            if k in got:
                return k + "-invented", "fused layer has %s=%r, no input has it" % (k, got[k])
            continue
        if k not in got:
            return k + "-dropped", "inputs %r, fused annotations %r lack %s" % (members, got, k)
        g = set(got[k]) if k == "workers" else got[k]
        if g != exp[k] or (k == "allow_other_workers" and type(g) is not bool):
            loose = ""
            if k in ("priority", "retries"):
                loose = "below-max" if g < exp[k] else "above-max"
            elif k == "workers":
                loose = "outside-intersection" if g - exp[k] else "narrower-than-intersection"
            elif k == "resources":
                loose = "below-max" if any(g.get(r, 0) < v for r, v in exp[k].items()) else "not-per-resource-max"
            else:
                loose = "true-while-an-input-is-false" if g else "false-while-all-true"
            return "%s-%s" % (k, loose), "inputs %r -> fused %s=%r, rule gives %r" % (members, k, got[k], exp[k])
    return None


def run_case(case, ctx):
    import dask
    from dask.blockwise import Blockwise, fuse_roots, optimize_blockwise
    from dask.core import flatten
    from dask.highlevelgraph import HighLevelGraph

    from ..gen.c10_stacks import Stack

    rng = random.Random(case.get("sseed", 7))
    st = Stack(case)
    cfg = {"optimization.annotations.fuse": False} if case.get("annfuse_off") else {}
    try:
        z = st.build()
    except NotImplementedError as ex:
        ctx.unsupported(str(ex))
        return
    except Exception as ex:  # noqa: BLE001
        ctx.exception(ex, prefix="build:" + (st.trace[-1].split(":")[0] if st.trace else "root"))
        return
    outs = [z]
    if case.get("two_outputs") and len(st.pool) > 2:
        outs.append(st.pool[rng.randrange(1, len(st.pool) - 1)])
    feat = _feat(st.trace)
    for s in st.trace:
        ctx.op(s.split(":")[0] if not s.startswith("root") else s)
    h = HighLevelGraph.merge(*[o.__dask_graph__() for o in outs]) if len(outs) > 1 else z.__dask_graph__()
    keys = list(flatten([o.__dask_keys__() for o in outs]))
    ctx.sig = (st.trace, [list(map(list, p.chunks)) for p in st.pool[:1]], case.get("anns"), case["dtype"], len(outs))
    nsib = sum(s.startswith("sib_contract") for s in st.trace)
    if nsib:
        ctx.count("sibling_contraction_steps", nsib)
    nbw = sum(isinstance(l, Blockwise) for l in h.layers.values())
    ctx.count("blockwise_layers", nbw)

    # ---- reference: the unfused, fully materialised graph ---------------------------------------------------------------
    try:
        full = dict(h)
        allkeys = set(full)
        ref = dict(zip(keys, dask.get(full, keys)))
    except Exception as ex:  # noqa: BLE001
        ctx.exception(ex, prefix="materialise-unfused:" + feat)
        return

    def values(dsk, ks, what):
        """compute ks from a materialised graph; returns first mismatch label or None"""
        try:
            got = dask.get(dsk, list(ks))
        except Exception as ex:  # noqa: BLE001
            ctx.exception(ex, prefix="%s:%s" % (what, feat), trace=st.trace, keys=[repr(k) for k in ks][:8])
            return False
        for k, v in zip(ks, got):
            if not _same_block(v, ref[k]):
                ctx.violation("%s:%s:values" % (what, feat),
                              "key %r: %r, the unfused full graph gives %r" % (k, np.asarray(v).tolist(), np.asarray(ref[k]).tolist()),
                              trace=st.trace, requested=[repr(k) for k in ks][:12])
                return False
        return True

    # ---- facet 3: fusion ------------------------------------------------------------------------------------------------
    o = od = None
    with dask.config.set(cfg):
        try:
            o = optimize_blockwise(h, keys=keys)
        except Exception as ex:  # noqa: BLE001
            ctx.exception(ex, prefix="optimize_blockwise:" + feat, trace=st.trace)
    absorbed = []
    if o is not None:
        ctx.count("optimize_blockwise_calls")
        absorbed = [n for n in h.layers if n not in o.layers]
        ctx.count("layers_absorbed", len(absorbed))
        try:
            od = dict(o)
        except Exception as ex:  # noqa: BLE001
            ctx.exception(ex, prefix="optimize_blockwise:materialise:" + feat, trace=st.trace)
            od = None
        if od is not None:
            ctx.count("fused_values_checked", len(keys))
            values(od, keys, "optimize_blockwise")
        for src, name in ((o, "fuse_roots-after-optimize_blockwise"), (h, "fuse_roots")):
            try:
                r = fuse_roots(src, keys)
                rd = dict(r)
            except Exception as ex:  # noqa: BLE001
                ctx.exception(ex, prefix=name + ":" + feat, trace=st.trace)
                continue
            merged = [n for n in src.layers if n not in r.layers]
            ctx.count("fuse_roots_calls")
            if merged:
                ctx.count("fuse_roots_merged_layers", len(merged))
            values(rd, keys, name)
            # annotations: fuse_roots only merges layers whose annotations are equal; the merged layer has to keep them
            if merged:
                _check_fuse_roots_ann(ctx, src, r, merged, st)
    ctx.nontrivial = len(keys) >= 2 or bool(absorbed)

    # ---- facet 4: annotations of fused layers ---------------------------------------------------------------------------
    if o is not None and case.get("anns"):
        _check_annotations(ctx, h, o, absorbed, st, case)

    if case.get("lat"):  # annotation-lattice cases: one fixed chain, the cull facets were observed on it once already
        ctx.sample = {"trace": st.trace, "annotations": case.get("anns"),
                      "fused": [l.annotations for l in (o.layers.values() if o is not None else [])]}
        if case["anns"] != [None] * len(case["anns"]):
            return

    # ---- facet 1: HighLevelGraph.cull ----------------------------------------------------------------------------------
    subsets, complete = _subsets(keys, rng)
    if complete:
        ctx.count("complete_subset_spaces")
    graphs = [("hlg-cull", h)]
    if o is not None and absorbed:
        graphs.append(("hlg-cull-after-optimize_blockwise", o))
    for what, g in graphs:
        subs = subsets
        if g is not h and len(subsets) > 8:  # the complete subset space is walked on the unfused graph only
            subs = [subsets[i] for i in sorted(rng.sample(range(len(subsets)), 8))]
        for S in subs:
            try:
                c = g.cull(set(S))
                cd = dict(c)
            except Exception as ex:  # noqa: BLE001
                ctx.exception(ex, prefix="%s:%s" % (what, feat), trace=st.trace, keys=[repr(k) for k in S][:8])
                continue
            ctx.count("hlg_cull_checked")
            if len(cd) < len(full):
                ctx.count("hlg_cull_removed_tasks")
            values(cd, S, what)
            try:
                c.validate()
                ctx.count("validate_ok")
            except Exception:  # noqa: BLE001  side statistic only
                ctx.count("validate_fail")
            if len(S) >= 2 and rng.random() < 0.35:
                S2 = rng.sample(S, rng.randint(1, len(S) - 1))
                try:
                    c2 = c.cull(set(S2))
                    c2d = dict(c2)
                except Exception as ex:  # noqa: BLE001
                    ctx.exception(ex, prefix="%s-twice:%s" % (what, feat), trace=st.trace)
                    continue
                ctx.count("hlg_cull_twice_checked")
                values(c2d, S2, what + "-twice")
                extra = set(c2d) - set(cd)
                if extra:
                    ctx.count("second_cull_added_tasks")

    # ---- facet 2: Blockwise.cull dependency map ----------------------------------------------------------------------------
    layers = [("", l) for l in h.layers.values() if isinstance(l, Blockwise)]
    if o is not None:
        layers += [("fused", o.layers[n]) for n in o.layers if isinstance(o.layers[n], Blockwise) and o.layers[n] is not h.layers.get(n)]
    for origin, L in layers:
        _check_layer_cull(ctx, L, allkeys | (set(od) if (o is not None and od) else set()), rng, st, origin)

    ctx.sample = {"trace": st.trace, "blocks": len(keys), "blockwise_layers": nbw, "absorbed": len(absorbed),
                  "annotations": case.get("anns")}


def _check_layer_cull(ctx, L, allkeys, rng, st, origin, depth=0):
    outkeys = sorted(L.get_output_keys(), key=repr)
    subsets, _ = _subsets(outkeys, rng, limit_all=4 if depth == 0 else 3, nrand=5)
    lf = _layer_feat(L)
    for K in subsets:
        ask = set(K)
        if rng.random() < 0.3:  # HighLevelGraph.cull passes the keys wanted from all layers
            ask |= {("c10-unrelated", 0), "c10-unrelated-str"}
        try:
            cl, deps = L.cull(ask, allkeys)
            mat = dict(cl)
        except Exception as ex:  # noqa: BLE001
            ctx.exception(ex, prefix="blockwise-cull:" + lf, trace=st.trace, layer=repr(L)[:300])
            return
        ctx.count("layer_cull_checked")
        ctx.distinct("layer_features", _layer_feats(L))
        if not set(K) <= set(mat):
            ctx.violation("blockwise-cull:%s:requested-key-missing-from-culled-layer" % lf,
                          "asked %r, culled layer has %r" % (sorted(K, key=repr), sorted(mat, key=repr)), layer=repr(L)[:300], trace=st.trace)
            return
        if set(deps) != set(mat):
            ctx.violation("blockwise-cull:%s:dependency-map-keys-differ-from-materialised-tasks" % lf,
                          "asked %r: deps has %r, materialised culled layer has %r" % (
                              sorted(K, key=repr), sorted(deps, key=repr), sorted(mat, key=repr)), layer=repr(L)[:300], trace=st.trace)
            return
        for k in mat:
            md = set(mat[k].dependencies)
            if set(deps[k]) != md:
                sym = "culled-deps-missing-a-task-dependency" if md - set(deps[k]) else "culled-deps-list-keys-the-task-does-not-use"
                ctx.violation("blockwise-cull:%s:%s" % (lf, sym),
                              "key %r: cull says %r, materialised task depends on %r" % (k, sorted(deps[k], key=repr), sorted(md, key=repr)),
                              layer=repr(L)[:300], numblocks=repr(dict(L.numblocks)), trace=st.trace)
                return
            ctx.count("task_deps_compared")
        if depth == 0 and cl is not L and len(K) >= 2 and rng.random() < 0.5:
            # cull the culled layer again (to a subset): must not keep the blocks of the previous cull
            K2 = rng.sample(sorted(K, key=repr), rng.randint(1, len(K) - 1))
            try:
                cl2, deps2 = cl.cull(set(K2), allkeys)
                mat2 = dict(cl2)
            except Exception as ex:  # noqa: BLE001
                ctx.exception(ex, prefix="blockwise-cull-twice:" + lf, trace=st.trace)
                return
            ctx.count("layer_cull_twice_checked")
            if set(deps2) != set(mat2) or not set(K2) <= set(mat2):
                ctx.violation("blockwise-cull-twice:%s:dependency-map-keys-differ-from-materialised-tasks" % lf,
                              "first %r then %r: deps has %r, materialised layer has %r" % (
                                  sorted(K, key=repr), sorted(K2, key=repr), sorted(deps2, key=repr), sorted(mat2, key=repr)),
                              layer=repr(L)[:300], trace=st.trace)
                return
            for k in mat2:
                if set(deps2[k]) != set(mat2[k].dependencies):
                    ctx.violation("blockwise-cull-twice:%s:dependencies-differ" % lf,
                                  "key %r: cull says %r, task depends on %r" % (k, deps2[k], mat2[k].dependencies), trace=st.trace)
                    return


def _groups(h, o, absorbed):
    """for each layer of the optimised graph: the original layers that were fused into it (itself included)"""
    dependents = {}
    for n, ds in h.dependencies.items():
        for d in ds:
            dependents.setdefault(d, set()).add(n)
    groups = {n: [n] for n in o.layers if n in h.layers}
    ambiguous = 0
    absorbed_set = set(absorbed)
    for n in absorbed:
        tops, seen, work = set(), set(), [n]
        while work:
            cur = work.pop()
            for d in dependents.get(cur, ()):
                if d in absorbed_set:
                    if d not in seen:
                        seen.add(d)
                        work.append(d)
                else:
                    tops.add(d)
        if len(tops) == 1 and next(iter(tops)) in groups:
            groups[next(iter(tops))].append(n)
        else:
            ambiguous += 1
            for t in tops:  # a group with an unresolved member is not judged
                groups.pop(t, None)
    return groups, ambiguous


def _check_annotations(ctx, h, o, absorbed, st, case):
    from dask.blockwise import Blockwise

    groups, amb = _groups(h, o, absorbed)
    if amb:
        ctx.count("ann_group_ambiguous", amb)
    anns_present = [l.annotations for l in h.layers.values() if isinstance(l, Blockwise)]
    if len({repr(sorted((a or {}).items(), key=repr)) for a in anns_present}) > 1 and not absorbed:
        ctx.count("ann_not_fused")
    for name, members in groups.items():
        if len(members) < 2:
            continue
        layer = o.layers[name]
        if not isinstance(layer, Blockwise):
            continue
        manns = [dict(h.layers[m].annotations) if h.layers[m].annotations else None for m in members]
        ctx.count("ann_fused_groups")
        if any(manns):
            ctx.count("ann_fused_groups_with_annotations")
        if len({repr(a) for a in manns}) > 1:
            ctx.count("ann_fused_groups_with_differing_annotations")
        ctx.distinct("annotation_combinations", sorted(repr(a) for a in manns))
        m = _ann_mismatch(layer.annotations, manns)
        if m:
            ctx.violation("fused-annotations:optimize_blockwise:%s" % m[0], m[1], trace=st.trace)
            continue
        # non-lattice keys: equal in all members that fused (else dask must not have fused them)
        custom = [{k: v for k, v in (a or {}).items() if k not in FUSABLE} for a in manns]
        if any(custom):
            ctx.count("ann_custom_key_groups")
            if any(c != custom[0] for c in custom):
                ctx.violation("fused-annotations:optimize_blockwise:layers-with-different-custom-annotations-fused",
                              "members %r fused into %r" % (manns, layer.annotations), trace=st.trace)
            elif {k: v for k, v in (layer.annotations or {}).items() if k not in FUSABLE} != custom[0]:
                ctx.violation("fused-annotations:optimize_blockwise:custom-annotation-lost",
                              "members %r fused into %r" % (manns, layer.annotations), trace=st.trace)


def _check_fuse_roots_ann(ctx, src, r, merged, st):
    dependents = {}
    for n, ds in src.dependencies.items():
        for d in ds:
            dependents.setdefault(d, set()).add(n)
    tops = {}
    for n in merged:
        ds = dependents.get(n, ())
        if len(ds) == 1:
            tops.setdefault(next(iter(ds)), []).append(n)
    for top, roots in tops.items():
        if top not in r.layers:
            continue
        manns = [dict(src.layers[m].annotations) if src.layers[m].annotations else None for m in [top] + roots]
        ctx.count("fuse_roots_ann_groups")
        if not any(manns):
            continue
        ctx.count("fuse_roots_ann_groups_with_annotations")
        m = _ann_mismatch(r.layers[top].annotations, manns)
        if m:
            ctx.violation("fused-annotations:fuse_roots:%s" % m[0], m[1], trace=st.trace)
