"""C32 — approximate percentiles stay within the data and are monotone; nanpercentile equals NumPy.

Monitor, part A (``da.percentile`` on a NaN-free numeric 1-d array, default internal method, the five
interpolation methods): the harness rebuilds data, chunking and a sorted q vector from the case,
computes the real ``da.percentile(x, q, method=m)`` and checks what the statement promises:
  * every returned value lies in [min(data), max(data)]          (``:below-min`` / ``:above-max`` / ``:nan-result``)
  * the values are non-decreasing in q                            (``:not-monotone``)
  * q == 0 gives the minimum and q == 100 the maximum             (``:q0-not-min`` / ``:q100-not-max``)
all "up to floating-point rounding": 8 eps of the result dtype times max |finite data| times the number of
merged terms ((len(q)+2) * number of chunks; calibration: linear interpolation in the rounded cumulative counts
gave 58.99999999999982 for a maximum of 59.0 with 7 chunks and fractional q).
Nothing else is demanded (the statement does not say the approximation equals np.percentile).
A scalar q (0-d result) is generated as well.

Part B (``da.nanpercentile(x, q, axis=k)`` on 1-3 d data with NaN): NumPy differential against
``np.nanpercentile(x, q, axis=k, ...)`` for random chunkings (also of the reduced axis), shape, dtype
and values within 32 eps * max |finite data| (dask interpolates with a differently associated formula
on its fast path: last axis, method linear).

Domain: int8/int64/uint8/float32/float64; +-inf only in cases flagged ``inf`` (labelled facet
``&inf``); q in [0, 100]; internal_method 'tdigest' needs the uninstalled ``crick`` (see Parameter audit).

Labels ``percentile:method=<m>&<multi-chunk|single-chunk>:<symptom>``; a wrong end point is reported once per case and
is then left out of the monotonicity check, so ``not-monotone`` means a decrease among the remaining values.  The inf
facet is ``percentile:method=<m>&inf:<symptom>``: it is used when the data contain +-inf AND the symptom disappears once
the infinities are replaced by finite values beyond the finite range (causal minimisation by re-running the real API).
``nanpercentile:<fast-path|numpy-path>[&inf][&all-nan-slice]:values`` (features kept only if the mismatch needs them,
decided the same way) / ``nanpercentile:<path>[&float32]:dtype|shape``.

Calibration (unchanged tree)
* int8 'wide' data stay within [-60, 60]: np.percentile itself overflows in ``b - a`` for int8 spans > 127
  (np.percentile(np.int8([-100, 95]), 50) == 125.5), which showed up as ``above-max``.
* rounding allowance scaled by the number of merged terms (see above).
* a wrong end point is excluded from the monotonicity facet (one mechanism, one label per case).
* lazy dtype of da.percentile / nanpercentile is not compared (NumPy's dtype is value dependent with NaN).
* genuine findings: PENDING / findings_proposed/C32.md.

Parameter audit (cases flagged ``x``, an own stream after the original one)
* percentile: ``internal_method`` "dask" / "default" / "tdigest" (tdigest with a non-linear method is documented to fall back to
  the dask algorithm and is generated; tdigest + linear needs ``crick``, which is NOT installed: a few such cases are generated
  and counted environment-limited when dask says so), the deprecated spellings ``interpolation=<m>`` and
  ``percentile(a, q, "dask"[, interpolation=<m>])`` (both announced by a FutureWarning, i.e. still supported), q as ndarray /
  tuple / NumPy scalar / empty list / with repeated values, blocks of > 255 elements (also not the last one), >= 12 blocks,
  EMPTY blocks (first / interior / last), int16 / int32 / uint16 / uint32 / uint64, the array reached through concatenate /
  a reversing slice / rechunk instead of from_array.  Same oracle as part A, plus: a non-canonical spelling must give the
  identical result to ``percentile(a, q, method=<m>)`` (label ``percentile:spelling=<facet>:differs-from-method-keyword``;
  the bounds oracle alone cannot see a dropped ``interpolation=`` because every method stays within [min, max]).
  Exceptions of the spelling facets are labelled ``percentile:legacy-positional-internal-method:<exc>`` /
  ``percentile:internal_method=tdigest&method!=linear:<exc>`` / ``percentile:empty-q:<exc>`` (argument shuffling, one mechanism each).
* nanpercentile: all 13 NumPy methods, a tuple of axes (also negative), axis=None on a single block, ``weights=`` (method
  inverted_cdf; of the array's shape or 1-d along the axis, NumPy or dask array; np.nanpercentile only takes full-shape weights,
  so 1-d weights are compared with their broadcast), ``interpolation=``, q as ndarray / tuple / NumPy scalar, 4-d arrays with
  pairwise different lengths, reduced axes of 256..1000 (fast path with big blocks) and > 1000 elements (fast path bails out),
  int8 / int32.  Path features ``&weights=full|1d``, ``&axis=tuple``, ``&axis=None`` are part of the label (branches of their own).
* not generated: datetime64 / string data (``_percentile`` has branches for them, but the statement speaks of NUMERIC arrays and
  min/max/"non-decreasing" need an order the oracle would have to define); median / nanmedian / quantile / nanquantile are C22's.

Sibling facet (vf/mon/siblings.py): every case is also built a second time with ONE result-relevant parameter changed
(another q / method (percentile), another q / method / axis / keepdims (nanpercentile)).
The two lazily built collections must not share output keys unless their stand-alone values are equal (label
``<op>:<param>-not-in-name:siblings-share-keys``); for a seeded ~15 % of the cases both are also computed in one graph and
compared with their stand-alone values (``<op>:<param>:differs-when-computed-with-sibling``).  Counters siblings_built /
siblings_computed_together / siblings_with_different_values have floors.
"""
from __future__ import annotations

import itertools
import random
import warnings

import numpy as np

from ..gen import arrays as A
from ..mon import siblings as S
from ..mon.compare import compare_arrays, lazy_meta_mismatch

PROP = "C32"
RULE = ("part A cases = (data vector, chunking, method, sorted q vector or scalar q). Complete part: every chunking of "
        "arrays of length 1..8 (255 chunkings) x 2 (thorough: 4) data vectors over the alphabet {0,1,2,5} with duplicates x 5 "
        "methods with q = (0,10,25,50,75,90,100); thorough adds every array over {0,1,3} of length <= 5 x every chunking x 5 methods. "
        "Random part: lengths 1..60, int8/int64/uint8/float32/float64, small alphabets / wide values / +-inf facet, random "
        "chunkings, random sorted q vectors (0 and 100 included in most) and scalar q. part B cases = (shape 1-3 d, "
        "float/int data with NaN (all-NaN slices, inf facet), chunking, axis, q scalar|vector, method, keepdims). "
        "Parameter-audit stream (1000 / 27000 cases): percentile with internal_method dask|default|tdigest-fallback, the deprecated "
        "interpolation= / positional spellings, q as ndarray|tuple|NumPy scalar|empty|repeated, blocks > 255 elements, >= 12 blocks, "
        "empty blocks, five further integer dtypes, concatenate|reversed|rechunk routes; nanpercentile with all 13 methods, tuple / "
        "None axis, weights, interpolation=, q forms, 4-d, reduced axes of 256..1300 elements. "
        "non-trivial = percentile axis (A) or any axis (B) split into >= 2 chunks; distinct = distinct case descriptions.")
ASSUMPTIONS = ["NumPy 2.x min/max and nanpercentile are the reference", "sync scheduler"]
BUDGET = {"quick": 40, "thorough": 500}
FLOORS = {  # ~45 % of the counts measured on the unchanged tree (quick: 5150 cases / 4451 distinct; thorough: 98425 / 79577)
    "quick": {"evaluations": 2300, "distinct_nontrivial": 2000,
              "counters": {"percentile_results": 1800, "bounds_checked": 11000, "monotone_checked": 9000, "q0_checked": 1700,
                           "q100_checked": 1700, "nanpercentile_compared": 450, "nanpercentile_fast_path": 125},
              "sets": {"method_chunked": 15, "nanpercentile_path": 10}, "max_skipped_fraction": 0.2},
    "thorough": {"evaluations": 44000, "distinct_nontrivial": 35000,
                 "counters": {"percentile_results": 31000, "bounds_checked": 170000, "monotone_checked": 140000, "q0_checked": 28000,
                              "q100_checked": 28000, "nanpercentile_compared": 12500, "nanpercentile_fast_path": 3600},
                 "sets": {"method_chunked": 15, "nanpercentile_path": 10}, "max_skipped_fraction": 0.2},
}
# sibling facet (vf/mon/siblings.py): ~45 % of the smallest count of the five quick seeds on the unchanged tree; thorough =
# quick floor x (thorough / quick stream size) x 0.6.  A run in which the facet never executed is INCONCLUSIVE.
FLOORS["quick"]["counters"].update({"siblings_built": 2300, "siblings_computed_together": 340, "siblings_with_different_values": 255})
FLOORS["thorough"]["counters"].update({"siblings_built": 26000, "siblings_computed_together": 3900, "siblings_with_different_values": 2900})
# parameter-audit families (own stream of 1000 / 27000 cases): ~45 % of the smallest count of the five quick seeds; thorough =
# quick floor x 27 x 0.8
_XF = {"nanpercentile_4d": 48, "nanpercentile_axis_none": 18, "nanpercentile_axis_tuple": 53, "nanpercentile_axis_tuple_split": 48,
       "nanpercentile_further_dtypes": 49, "nanpercentile_further_methods": 134, "nanpercentile_interpolation_kw": 17,
       "nanpercentile_q_not_list_or_python_scalar": 100, "nanpercentile_reduced_axis_256_1000": 10,
       "nanpercentile_reduced_axis_gt_1000": 4, "nanpercentile_weights": 38, "percentile_block_gt_255": 47,
       "percentile_block_gt_255_not_last": 38, "percentile_empty_block": 67, "percentile_empty_q": 23,
       "percentile_further_dtypes": 100, "percentile_ge_12_blocks": 43, "percentile_internal_method_kw": 64,
       "percentile_interpolation_kw": 36, "percentile_legacy_positional": 80, "percentile_not_from_array": 100,
       "percentile_q_not_list_or_python_scalar": 170, "percentile_repeated_q": 57, "percentile_tdigest_fallback": 33,
       "percentile_spelling_compared": 170}
FLOORS["quick"]["counters"].update(_XF)
FLOORS["thorough"]["counters"].update({k: int(v * 27 * 0.8) for k, v in _XF.items()})
for _t in ("quick", "thorough"):
    FLOORS[_t]["sets"].update({"nanpercentile_methods": 12, "nanpercentile_weight_kinds": 3, "percentile_spelling": 24})
EXHAUSTIVE_SPACE = {
    "quick": "all 255 chunkings of arrays of length 1..8 x 2 data vectors with duplicates x 5 methods, q=(0,10,25,50,75,90,100)",
    "thorough": "all 255 chunkings of length 1..8 x 4 data vectors x 5 methods + every array over {0,1,3} of length <= 5 x every chunking x 5 methods",
}
CLAIM = ("Every da.percentile result observed on NaN-free 1-d data was checked to lie within [min, max], to be non-decreasing "
         "in q and to hit min / max at q = 0 / 100 (up to rounding); every da.nanpercentile result along an axis was compared "
         "with np.nanpercentile. Held = no counterexample and no dask exception inside the domain on the executions observed.")
LEVEL_NOTE = "NumPy is the reference for min/max and nanpercentile; the approximate percentile is only held to the stated bounds"
TECHNIQUE = "runtime monitoring: bound/monotonicity oracle on da.percentile, NumPy differential on da.nanpercentile, complete small chunking space"

PENDING = {  # genuine on the unchanged tree; witnesses, mechanisms and the one proposed fix in findings_proposed/C32.md
    # 1. searchsorted(...)-1 == -1 wraps around to the maximum (fix proposed: clamp `right` at 0)
    "percentile:method=lower&multi-chunk:q0-not-min": "small q (incl. 0) returns the maximum: index -1 wrap-around in merge_percentiles",
    "percentile:method=lower&multi-chunk:not-monotone": "same wrap-around for 0 < q below the first cumulative count",
    "percentile:method=midpoint&multi-chunk:q0-not-min": "same wrap-around ((min+max)/2), plus the tie rule of 2.",
    "percentile:method=midpoint&multi-chunk:not-monotone": "same wrap-around",
    # 2. ties at cumulative count 0 resolve to the largest chunk minimum (DESIGN 6 #10, no fix)
    "percentile:method=linear&multi-chunk:q0-not-min": "q=0 gives the largest chunk minimum (np.interp on duplicate x)",
    "percentile:method=higher&multi-chunk:q0-not-min": "q=0 gives the largest chunk minimum (upper = right)",
    # 3. rounding of cumsum(diff(q)*N) with fractional q moves q=100 one entry down (no fix)
    "percentile:method=lower&multi-chunk:q100-not-max": "q=100 returns an interior value when a fractional q makes the last cumulative count exceed 100*N",
    "percentile:method=lower&single-chunk:q100-not-max": "same, already with one chunk",
    "percentile:method=midpoint&multi-chunk:q100-not-max": "same",
    "percentile:method=midpoint&single-chunk:q100-not-max": "same, already with one chunk",
    # 4. inf facet (inherited from np.percentile's inf - inf; no fix)
    "percentile:method=linear&inf:nan-result": "NaN for data containing inf (np.percentile itself)",
    "percentile:method=midpoint&inf:nan-result": "NaN for data containing inf (np.percentile itself)",
    "percentile:method=linear&inf:q0-not-min": "NaN chunk percentiles poison the merge: q=0 is not -inf",
    "percentile:method=midpoint&inf:q0-not-min": "same",
    # 5. parameter audit: the deprecated positional spelling (fix: fixes_ready/C32_01_percentile_legacy_internal_method_spelling.patch)
    "percentile:legacy-positional-internal-method:ValueError@array/percentile.py:_percentile":
        "percentile(a, q, 'dask') warns that method= was renamed, then still hands 'dask' to np.percentile as the interpolation",
    # nanpercentile
    "nanpercentile:fast-path&float32:dtype": "_custom_nanquantile returns float64 for float32 input (fix in findings_proposed/C22.md, finding 5)",
    "nanpercentile:fast-path&inf:values": "_custom_nanquantile gives +-inf where NumPy computes inf-inf = NaN (no fix)",
}

METHODS = ["linear", "lower", "higher", "midpoint", "nearest"]
QFIX = [0, 10, 25, 50, 75, 90, 100]
VECS = {  # data vectors of the complete part are prefixes of these (length 8)
    "mixed": [2, 0, 5, 2, 1, 0, 5, 1],
    "asc": [0, 0, 1, 1, 2, 2, 5, 5],
    "desc": [5, 2, 2, 1, 1, 0, 0, 0],
    "const": [2, 2, 2, 2, 2, 2, 2, 2],
}
ADTYPES = ["int8", "int64", "uint8", "float32", "float64"]


def cases(tier, seed):
    rng = random.Random(seed * 6151 + 32)
    # ---- complete part --------------------------------------------------------------------------
    for n in range(1, 9):
        for chunks in A.compositions(n):
            for vec in (VECS if tier == "thorough" else ("mixed", "desc")):
                for m in METHODS:
                    yield {"space": "exhaustive", "part": "A", "vec": vec, "n": n, "chunks": list(chunks), "method": m,
                           "dtype": "int64", "q": QFIX}
    if tier == "thorough":
        for n in range(1, 6):
            for vals in itertools.product((0, 1, 3), repeat=n):
                for chunks in A.compositions(n):
                    for m in METHODS:
                        yield {"space": "exhaustive", "part": "A", "vals": list(vals), "n": n, "chunks": list(chunks),
                               "method": m, "dtype": "float64", "q": QFIX}
    # ---- random part ---------------------------------------------------------------------------
    k = 2600 if tier == "quick" else 70000
    for _ in range(k):
        if rng.random() < 0.6:
            n = rng.choice((1, 2, 3, 4, 5, 6, 8, 10, 13, 20, 33, 60))
            d = {"part": "A", "n": n, "seed": rng.randrange(2 ** 31), "dtype": rng.choice(ADTYPES),
                 "flavour": rng.choice(("alphabet", "alphabet", "wide", "sorted", "inf")),
                 "chunks": list(A.rand_comp(rng, n)), "method": rng.choice(METHODS)}
            if d["flavour"] == "inf" and not d["dtype"].startswith("float"):
                d["flavour"] = "alphabet"
            u = rng.random()
            if u < 0.12:
                d["q"] = rng.choice((0, 100, 50, 37.5, 0.0, 100.0))
            else:
                qs = [rng.choice((rng.randint(0, 100), round(rng.uniform(0, 100), 2))) for _ in range(rng.randint(0, 6))]
                if u < 0.85:
                    qs += [0, 100]
                elif u < 0.92:
                    qs += [0]
                else:
                    qs += [100]
                d["q"] = sorted(qs)
            yield d
        else:
            shape = list(A.rand_shape(rng, maxnd=3, maxlen=6, minnd=1, allow_zero=False))
            if rng.random() < 0.2:
                shape[rng.randrange(len(shape))] = rng.randint(7, 12)
            nd = len(shape)
            d = {"part": "B", "shape": shape, "seed": rng.randrange(2 ** 31),
                 "dtype": rng.choice(("float64", "float64", "float32", "int64", "uint8")),
                 "flavour": rng.choice(("nan", "nan", "allnan", "clean", "inf", "normal")),
                 "chunks": [list(c) for c in A.rand_chunks(rng, shape)],
                 "axis": rng.choice((nd - 1, -1, rng.randrange(-nd, nd), rng.randrange(-nd, nd))),
                 "method": rng.choice(["linear"] * 5 + METHODS), "keepdims": rng.random() < 0.3}
            if rng.random() < 0.4:
                d["q"] = rng.choice((0, 100, 50, 25, 33.3, 75.0))
            else:
                d["q"] = [rng.choice((0, 10, 25, 50, 50.0, 62.5, 90, 100)) for _ in range(rng.randint(1, 4))]
            yield d
    # ---- parameter-audit part (own stream; the streams above are unchanged) ------------------------
    xr = random.Random(seed * 6151 + 3232)
    for _ in range(1000 if tier == "quick" else 27000):
        yield _extra_a(xr) if xr.random() < 0.55 else _extra_b(xr)


XDTYPES = ADTYPES + ["int16", "int32", "uint16", "uint32", "uint64", "int64", "float64"]
ALLM = METHODS + ["inverted_cdf", "averaged_inverted_cdf", "closest_observation", "interpolated_inverted_cdf", "hazen",
                  "weibull", "median_unbiased", "normal_unbiased"]


def _extra_a(rng):
    """percentile with non-default spellings / internal methods / q forms / sizes / layouts (one case description)."""
    d = {"part": "A", "x": 1, "seed": rng.randrange(2 ** 31), "dtype": rng.choice(XDTYPES),
         "flavour": rng.choice(("alphabet", "wide", "wide", "sorted")), "method": rng.choice(METHODS)}
    u = rng.random()
    if u < 0.3:        # size classes: a block of > 255 elements (also not the last one), >= 12 blocks
        n = rng.choice((300, 520, 700, 1100))
        sub = rng.choice(("big", "many", "mixed"))
        if sub == "big":
            a = rng.randint(256, n - 1)
            ch = [a, n - a] if rng.random() < 0.5 else [n - a, a]
            if n - a > 300 and rng.random() < 0.5:
                ch = [a, 7, n - a - 7]
        elif sub == "many":
            cuts = sorted(rng.sample(range(1, n), rng.randint(11, 40)))
            ch = [y - x_ for x_, y in zip([0] + cuts, cuts + [n])]
        else:
            big = rng.randint(256, n - 30)
            cuts = sorted(rng.sample(range(1, n - big), rng.randint(2, 12)))
            small = [y - x_ for x_, y in zip([0] + cuts, cuts + [n - big])]
            k = rng.randint(0, len(small) - 1)
            ch = small[:k] + [big] + small[k:]
    else:
        n = rng.choice((2, 3, 5, 8, 13, 20, 33, 60))
        ch = list(A.rand_comp(rng, n))
    if rng.random() < 0.3:   # empty blocks (first / interior / last)
        for _ in range(rng.randint(1, 3)):
            ch.insert(rng.randint(0, len(ch)), 0)
    d["n"], d["chunks"] = n, ch
    im = rng.choice((None, None, "dask", "default", "tdigest"))
    kw = rng.choice(("method", "method", "method", "interpolation", "legacy", "legacy+interpolation"))
    if kw == "legacy":       # percentile(a, q, "dask"): the pre-2022 spelling of internal_method; interpolation is then linear
        d["method"] = "linear"
    if kw.startswith("legacy") and im is None:
        im = "dask"
    if im == "tdigest" and d["method"] == "linear" and rng.random() < 0.85:
        im = "dask"          # tdigest + linear needs crick (not installed): keep only a few of these
    d["im"], d["kw"] = im, kw
    d["route"] = "from_array" if 0 in ch else rng.choice(("from_array", "from_array", "concat", "reversed", "rechunk"))
    v = rng.random()
    if v < 0.2:
        d["q"] = rng.choice((0, 100, 50, 37.5, 25))
        d["qform"] = rng.choice(("py", "npfloat", "npint" if isinstance(d["q"], int) else "npfloat"))
    else:
        qs = [rng.choice((rng.randint(0, 100), round(rng.uniform(0, 100), 2))) for _ in range(rng.randint(0, 5))]
        if v < 0.3:
            qs = []                      # empty request
        elif v < 0.5:
            qs = qs + qs[:2] + [0, 0, 100, 100]       # repeated q values
        else:
            qs += [0, 100]
        d["q"] = sorted(qs)
        d["qform"] = rng.choice(("list", "nparray", "nparray", "tuple"))
    return d


def _extra_b(rng):
    """nanpercentile: all 13 methods, tuple / None axis, weights, q forms, 4-d, long reduced axes, more dtypes."""
    u = rng.random()
    if u < 0.15:
        long = rng.choice((256, 300, 1000, 1001, 1300))
        shape = [rng.randint(1, 3), long] if rng.random() < 0.7 else [long, rng.randint(1, 3)]
    else:
        nd = rng.choice((1, 2, 3, 3, 4, 4))
        shape = rng.sample(range(1, 8), nd)         # pairwise different lengths
    nd = len(shape)
    d = {"part": "B", "x": 1, "shape": shape, "seed": rng.randrange(2 ** 31),
         "dtype": rng.choice(("float64", "float64", "float32", "int64", "uint8", "int8", "int32")),
         "flavour": rng.choice(("nan", "nan", "allnan", "clean", "normal")),
         "chunks": [list(c) if n <= 60 else _long_chunks(rng, n) for c, n in zip(A.rand_chunks(rng, [min(s, 60) for s in shape]), shape)],
         "method": rng.choice(ALLM), "keepdims": rng.random() < 0.3,
         "kw": "interpolation" if rng.random() < 0.1 else "method", "weights": None}
    v = rng.random()
    if v < 0.35 and nd >= 2:
        d["axis"] = sorted(rng.sample(range(nd), rng.randint(2, nd)))
        if rng.random() < 0.4:
            d["axis"] = [a - nd if rng.random() < 0.5 else a for a in d["axis"]]
    elif v < 0.43:
        d["axis"] = None                    # documented only for a single block
        d["chunks"] = [[s] for s in shape]
    elif v < 0.7:
        d["axis"] = nd - 1
    else:
        d["axis"] = rng.randrange(-nd, nd)
    if rng.random() < 0.25 and d["kw"] == "method":
        d["method"] = "inverted_cdf"
        d["weights"] = rng.choice(("full-np", "full-dask", "1d-np", "1d-dask") if isinstance(d["axis"], int) else ("full-np", "full-dask"))
    w = rng.random()
    if w < 0.4:
        d["q"] = rng.choice((0, 100, 50, 25, 33.3, 75.0))
        d["qform"] = rng.choice(("py", "py", "npfloat"))
    else:
        d["q"] = [rng.choice((0, 10, 25, 50, 50.0, 62.5, 90, 100)) for _ in range(rng.randint(1, 4))]
        d["qform"] = rng.choice(("list", "nparray", "tuple"))
    return d


def _long_chunks(rng, n):
    k = rng.choice((1, 2, 3))
    if k == 1:
        return [n]
    cuts = sorted(rng.sample(range(1, n), k - 1))
    return [y - x_ for x_, y in zip([0] + cuts, cuts + [n])]


# --------------------------------------------------------------------------- data
def _data_a(case):
    n, dtype = case["n"], case["dtype"]
    if "vec" in case:
        return np.array(VECS[case["vec"]][:n], dtype=dtype)
    if "vals" in case:
        return np.array(case["vals"], dtype=dtype)
    r = np.random.default_rng(case["seed"])
    flav = case["flavour"]
    unsigned = dtype.startswith("uint")
    if flav == "wide":
        if dtype.startswith("float"):
            a = (r.normal(size=n) * 10.0 ** int(r.integers(-2, 4))).astype(dtype)
        elif dtype == "int64":
            a = r.integers(-10 ** 6, 10 ** 6, n).astype(dtype)
        elif dtype in ("int16", "uint16"):
            a = r.integers(0 if unsigned else -8000, 8001, n).astype(dtype)      # spans below half the range (see int8)
        elif dtype in ("int32", "uint32", "uint64"):
            a = r.integers(0 if unsigned else -10 ** 6, 10 ** 6, n).astype(dtype)
            if dtype == "uint64" and r.random() < 0.5:
                a = a + np.uint64(2 ** 40)
        else:
            # int8 stays within [-60, 60]: np.percentile itself overflows in `b - a` for int8 spans > 127 (Calibration)
            a = r.integers(0 if unsigned else -60, 101 if unsigned else 61, n).astype(dtype)
    else:
        alpha = r.integers(0 if unsigned else -4, 6, r.integers(1, 5))
        a = alpha[r.integers(0, len(alpha), n)]
        if dtype.startswith("float") and r.random() < 0.5:
            a = a / 2
        a = a.astype(dtype)
    if flav == "sorted":
        a = np.sort(a)
        if r.random() < 0.5:
            a = a[::-1].copy()
    if flav == "inf":
        a[r.integers(0, n)] = np.inf if r.random() < 0.6 else -np.inf
        if n > 1 and r.random() < 0.4:
            a[r.integers(0, n)] = -np.inf
    return a


def _data_b(case):
    shape, dtype, flav = tuple(case["shape"]), case["dtype"], case["flavour"]
    r = np.random.default_rng(case["seed"])
    n = int(np.prod(shape))
    if flav == "normal" and dtype.startswith("float"):
        a = (r.normal(size=n) * 3).astype(dtype)
    else:
        a = A.rand_data(case["seed"], shape, dtype, special=False).reshape(-1).copy()
    if dtype.startswith("float"):
        if flav in ("nan", "allnan", "normal", "inf"):
            a[r.random(n) < 0.25] = np.nan
        if flav == "inf":
            a[r.integers(0, n)] = np.inf
            if r.random() < 0.5:
                a[r.integers(0, n)] = -np.inf
    a = a.reshape(shape)
    if flav == "allnan" and dtype.startswith("float"):
        axl = case["axis"] if isinstance(case["axis"], list) else list(range(len(shape))) if case["axis"] is None else [case["axis"]]
        idx = [int(r.integers(0, s)) for s in shape]
        for ax in axl:
            idx[ax % len(shape)] = slice(None)
        a[tuple(idx)] = np.nan
    return a


# --------------------------------------------------------------------------- run
def run_case(case, ctx):
    with warnings.catch_warnings():
        warnings.simplefilter("ignore")
        with np.errstate(all="ignore"):
            if case["part"] == "A":
                _run_a(case, ctx)
            else:
                _run_b(case, ctx)


class _Raised(Exception):
    def __init__(self, exc):
        self.exc = exc


def _mk_dx(x, chunks, route="from_array"):
    """the same data cut into the same blocks, reached by different graph shapes"""
    import dask.array as da

    ch = tuple(chunks[0])
    if route == "concat" and len(ch) >= 2:
        k = len(ch) // 2
        s = int(sum(ch[:k]))
        return da.concatenate([da.from_array(x[:s], chunks=(ch[:k],)), da.from_array(x[s:], chunks=(ch[k:],))])
    if route == "reversed":
        return da.from_array(x[::-1].copy(), chunks=(ch[::-1],))[::-1]
    if route == "rechunk":
        return da.from_array(x, chunks=(len(x),)).rechunk((ch,))
    return da.from_array(x, chunks=(ch,))


def _qobj(q, form):
    if form == "nparray":
        return np.asarray(q, dtype="int64" if (q and all(isinstance(v, int) for v in q)) else "float64")
    if form == "tuple":
        return tuple(q)
    if form == "npfloat":
        return np.float64(q)
    if form == "npint":
        return np.int64(q)
    return q


def _call_a(dx, q, m, opts):
    """da.percentile with the case's spelling of (method, internal_method)"""
    import dask.array as da

    im, form = opts.get("im"), opts.get("kw", "method")
    if form == "interpolation":
        kw = {"interpolation": m}
    elif form == "legacy":                  # m == "linear"
        kw = {"method": im}
    elif form == "legacy+interpolation":
        kw = {"method": im, "interpolation": m}
    else:
        kw = {"method": m}
    if im is not None and not form.startswith("legacy"):
        kw["internal_method"] = im
    return da.percentile(dx, _qobj(q, opts.get("qform", "list")), **kw)


def _eval_a(x, chunks, q, m, opts=None):
    """Run the real da.percentile and apply the statement's checks.
    -> (lazy array, result as float64 vector, tolerance, [(symptom, message)])"""
    import dask.array as da

    opts = opts or {}
    scalar = not isinstance(q, list)
    qv = np.atleast_1d(np.asarray(q, dtype="float64"))
    try:
        dx = _mk_dx(x, chunks, opts.get("route", "from_array"))
        r = _call_a(dx, q, m, opts)
        if not isinstance(r, da.Array):
            return None, None, 0.0, [("result-not-a-dask-array", "got %r" % (type(r),))]
        rv = np.asarray(r.compute(scheduler="sync"))
    except NotImplementedError:
        raise
    except Exception as ex:  # noqa: BLE001
        raise _Raised(ex)
    out = []
    if rv.shape != (() if scalar else (len(qv),)):
        return r, None, 0.0, [("shape", "result shape %s for q %r" % (rv.shape, q))]
    lm = lazy_meta_mismatch(r, rv)
    if lm and lm[0] != "lazy-dtype":
        out.append((lm[0], lm[1]))
    p = np.atleast_1d(rv)
    eps = float(np.finfo(p.dtype).eps) if p.dtype.kind == "f" else float(np.finfo("float64").eps)
    pf = p.astype("float64")
    fin = np.abs(x[np.isfinite(x)].astype("float64")) if x.dtype.kind == "f" else np.abs(x.astype("float64"))
    scale = float(fin.max()) if fin.size else 1.0
    # "up to floating-point rounding": the merge sums len(q)+2 fractional counts per chunk and interpolates
    # in them, so the rounding allowance grows with the number of merged terms (as for an n-term sum)
    nterms = (len(qv) + 2) * len(chunks[0])
    tol = 8 * eps * max(scale, 1e-300) * nterms
    lo_f, hi_f = float(x.min()), float(x.max())
    if np.isnan(pf).any():
        out.append(("nan-result", "NaN in the result for NaN-free data"))
        return r, pf, tol, out
    if (pf < lo_f - tol).any():
        out.append(("below-min", "a percentile lies below min(data)=%r" % lo_f))
    if (pf > hi_f + tol).any():
        out.append(("above-max", "a percentile lies above max(data)=%r" % hi_f))
    wrong_end = set()
    for i, qq in enumerate(qv):
        if qq == 0 and not _close(pf[i], lo_f, tol):
            if not any(qv[j] == 0 for j in wrong_end):
                out.append(("q0-not-min", "q=0 gives %r, min(data)=%r" % (float(pf[i]), lo_f)))
            wrong_end.add(i)
        elif qq == 100 and not _close(pf[i], hi_f, tol):
            if not any(qv[j] == 100 for j in wrong_end):
                out.append(("q100-not-max", "q=100 gives %r, max(data)=%r" % (float(pf[i]), hi_f)))
            wrong_end.add(i)
    # monotonicity of everything that is not already reported as a wrong end point
    keep = [i for i in range(len(pf)) if i not in wrong_end]
    for a_, b_ in zip(keep, keep[1:]):
        if not (pf[b_] >= pf[a_] - tol):
            out.append(("not-monotone", "result decreases between q=%r and q=%r" % (float(qv[a_]), float(qv[b_]))))
            break
    return r, pf, tol, out


def _run_a(case, ctx):
    x = _data_a(case)
    chunks = (tuple(case["chunks"]),)
    m = case["method"]
    q = case["q"]
    scalar = not isinstance(q, list)
    qv = np.atleast_1d(np.asarray(q, dtype="float64"))
    has_inf = bool(x.dtype.kind == "f" and np.isinf(x).any())
    ctx.op("percentile:" + m)
    ctx.nontrivial = len(chunks[0]) >= 2
    opts = {k: case[k] for k in ("im", "kw", "qform", "route") if k in case} if case.get("x") else {}
    ctx.sig = ("A", x.tolist(), str(x.dtype), case["chunks"], m, q) if not opts else \
        ("A", case["seed"], case["n"], case["flavour"], str(x.dtype), case["chunks"], m, q, sorted(opts.items(), key=str))
    ctx.distinct("method_chunked", (m, ctx.nontrivial, scalar))
    feat = "method=%s&%s" % (m, "multi-chunk" if ctx.nontrivial else "single-chunk")
    needs_crick = opts.get("im") == "tdigest" and m == "linear"
    if opts:
        _count_a(ctx, case, opts, m, chunks, q)
    try:
        r, pf, tol, symptoms = _eval_a(x, chunks, q, m, opts)
    except NotImplementedError as ex:
        ctx.unsupported(str(ex))
        return
    except _Raised as ex:
        if needs_crick and "crick" in str(ex.exc):
            ctx.envlimited("internal_method='tdigest' with method='linear' needs crick, which is not installed")
            return
        # the spelling facets are code paths of their own (argument shuffling before any percentile is computed)
        if opts.get("kw") == "legacy":
            pre = "percentile:legacy-positional-internal-method"
        elif opts.get("im") == "tdigest":
            pre = "percentile:internal_method=tdigest&method!=linear"
        elif isinstance(q, list) and not q:
            pre = "percentile:empty-q"
        else:
            pre = "percentile:" + feat + ("&inf" if has_inf else "") + ("&empty-chunk" if 0 in chunks[0] else "")
        ctx.exception(ex.exc, prefix=pre)
        return
    ctx.count("percentile_results")
    if pf is not None:
        ctx.count("bounds_checked", len(pf))
        ctx.count("monotone_checked", max(len(pf) - 1, 0))
        ctx.count("q0_checked", int((qv == 0).sum()))
        ctx.count("q100_checked", int((qv == 100).sum()))
    if symptoms:
        without_inf = None
        if has_inf:
            # classifier (causal minimisation): the same input with +-inf replaced by finite values beyond the
            # finite range; a symptom that disappears is caused by the infinities -> facet label `&inf`
            fin = x[np.isfinite(x)]
            hi = (fin.max() if fin.size else 0) + 1
            lo = (fin.min() if fin.size else 0) - 1
            x2 = np.where(np.isposinf(x), hi, np.where(np.isneginf(x), lo, x)).astype(x.dtype)
            try:
                without_inf = {sy for sy, _ in _eval_a(x2, chunks, q, m, opts)[3]}
            except Exception:  # noqa: BLE001
                without_inf = set()
        detail = {"data": x.tolist(), "chunks": case["chunks"], "q": qv.tolist(),
                  "result": None if pf is None else pf.tolist()}
        for sy, msg in symptoms:
            if without_inf is not None and sy not in without_inf:
                ctx.violation("percentile:method=%s&inf:%s" % (m, sy), msg, **detail)
            else:
                ctx.violation("percentile:%s:%s" % (feat, sy), msg, **detail)
    ctx.sample = {"data": x.tolist()[:12], "chunks": case["chunks"], "method": m, "q": qv.tolist(),
                  "result": None if pf is None else pf.tolist(), "rounding_tolerance": tol}
    # ---- spelling facet: a renamed / defaulted spelling is the SAME call (FutureWarning "was renamed", "default" = "dask",
    # tdigest falls back to dask for non-linear methods): identical result to the plain method=<m> call
    if r is not None and pf is not None and (opts.get("kw", "method") != "method" or opts.get("im")):
        try:
            canon = _call_a(_mk_dx(x, chunks, opts.get("route", "from_array")), q, m, {"qform": opts.get("qform", "list")})
            cpf = np.atleast_1d(np.asarray(canon.compute(scheduler="sync"))).astype("float64")
        except Exception:  # noqa: BLE001  (the plain call failing is the business of the main oracle on another case)
            cpf = None
        if cpf is not None:
            ctx.count("percentile_spelling_compared")
            if not (cpf.shape == pf.shape and np.array_equal(cpf, pf, equal_nan=True)):
                facet = opts["kw"] if opts.get("kw", "method") != "method" else "internal_method=" + opts["im"]
                ctx.violation("percentile:spelling=%s:differs-from-method-keyword" % facet,
                              "this spelling gives %r, percentile(a, q, method=%r) gives %r" % (pf.tolist()[:8], m, cpf.tolist()[:8]),
                              chunks=case["chunks"][:20], q=qv.tolist(), spelling=opts)
    # ---- sibling facet: the same array with another q / method must not share keys with this result ----------------
    if r is not None:
        import dask.array as da

        param, q2, m2 = _sibling_qm(case, q, m)
        if opts.get("kw") == "legacy":
            m2 = m                                   # this spelling has no interpolation argument to vary
            if param == "method":
                param, q2 = "q", ([50] if isinstance(q, list) else (50 if q != 50 else 25))
        S.check(ctx, "percentile", param, r,
                (lambda: _call_a(_mk_dx(x, chunks, opts.get("route", "from_array")), q2, m2, opts)),
                describe={"q": q2, "method": m2})


def _count_a(ctx, case, opts, m, chunks, q):
    """counters of the parameter-audit families (floors: a refactor of the generator must not silently lose a class)"""
    ch = chunks[0]
    if opts.get("im") in ("dask", "default") and not opts.get("kw", "").startswith("legacy"):
        ctx.count("percentile_internal_method_kw")
    if opts.get("im") == "tdigest" and m != "linear":
        ctx.count("percentile_tdigest_fallback")
    if opts.get("kw") == "interpolation":
        ctx.count("percentile_interpolation_kw")
    if opts.get("kw", "").startswith("legacy"):
        ctx.count("percentile_legacy_positional")
    if opts.get("qform") in ("nparray", "tuple", "npfloat", "npint"):
        ctx.count("percentile_q_not_list_or_python_scalar")
    if isinstance(q, list) and not q:
        ctx.count("percentile_empty_q")
    if isinstance(q, list) and len(set(q)) < len(q):
        ctx.count("percentile_repeated_q")
    if max(ch) > 255:
        ctx.count("percentile_block_gt_255")
        if ch[-1] <= 255 or sum(1 for c in ch if c > 255) >= 2:
            ctx.count("percentile_block_gt_255_not_last")
    if len(ch) >= 12:
        ctx.count("percentile_ge_12_blocks")
    if 0 in ch:
        ctx.count("percentile_empty_block")
    if opts.get("route") not in (None, "from_array"):
        ctx.count("percentile_not_from_array")
    if case["dtype"] in ("int16", "int32", "uint16", "uint32", "uint64"):
        ctx.count("percentile_further_dtypes")
    ctx.distinct("percentile_spelling", (opts.get("kw"), opts.get("im"), m))


def _sibling_qm(case, q, m):
    """(parameter, q, method) with ONE of q / method changed"""
    srng = S.rng_for(case)
    if srng.random() < 0.35:
        return "method", q, srng.choice([v for v in METHODS if v != m])
    pool = (0, 10, 25, 37.5, 50, 62.5, 75, 90, 100)
    if isinstance(q, list):
        q2 = list(q)
        if q2:
            i = srng.randrange(len(q2))
            q2[i] = srng.choice([v for v in pool if v != q2[i]])
            q2 = sorted(q2)
        else:
            q2 = [50]
    else:
        q2 = srng.choice([v for v in pool if v != q])
    return "q", q2, m


def _close(a, b, tol):
    if np.isinf(a) or np.isinf(b):
        return a == b
    return abs(a - b) <= tol


def _weights_b(x, chunks, axis, kind, seed):
    """(weights for NumPy, weights for dask).  np.nanpercentile only takes weights of the shape of the array, so the
    reference of 1-d weights (along the reduced axis) is their broadcast."""
    import dask.array as da

    r = np.random.default_rng(seed + 11)
    if kind.startswith("full"):
        w = r.integers(1, 5, x.shape).astype("float64")
        return w, (da.from_array(w, chunks=chunks) if kind.endswith("dask") else w)
    ax = axis % x.ndim
    w1 = r.integers(1, 5, x.shape[ax]).astype("float64")
    sh = [1] * x.ndim
    sh[ax] = x.shape[ax]
    wf = np.broadcast_to(w1.reshape(sh), x.shape).copy()
    return wf, (da.from_array(w1, chunks=(chunks[ax],)) if kind.endswith("dask") else w1)


def _call_b(dx, q, axis, m, kd, opts, wd=None):
    import dask.array as da

    kw = {"keepdims": kd}
    if axis is not None or not opts:
        kw["axis"] = tuple(axis) if isinstance(axis, list) else axis
    kw["interpolation" if opts.get("kw") == "interpolation" else "method"] = m
    if wd is not None:
        kw["weights"] = wd
    return da.nanpercentile(dx, _qobj(q, opts.get("qform", "list")), **kw)


def _eval_b(x, chunks, q, axis, m, kd, opts=None, seed=0):
    """-> (lazy array, computed value, None | (symptom, message)); numpy refusing -> _Reject"""
    import dask.array as da

    opts = opts or {}
    wn = wd = None
    if opts.get("weights"):
        wn, wd = _weights_b(x, chunks, axis, opts["weights"], seed)
    nkw = {} if wn is None else {"weights": wn}
    e = np.asarray(np.nanpercentile(x, _qobj(q, opts.get("qform", "list")), axis=tuple(axis) if isinstance(axis, list) else axis,
                                    method=m, keepdims=kd, **nkw))
    dx = da.from_array(x, chunks=chunks)
    try:
        r = _call_b(dx, q, axis, m, kd, opts, wd)
        rv = np.asarray(r.compute(scheduler="sync"))
    except NotImplementedError:
        raise
    except Exception as ex:  # noqa: BLE001
        raise _Raised(ex)
    fin = np.abs(x[np.isfinite(x)].astype("float64")) if x.dtype.kind == "f" else np.abs(x.astype("float64"))
    scale = float(fin.max()) if fin.size else 1.0
    # working precision = the less precise of input and result dtype (NumPy forms b - a in the input precision)
    factor = 8.0
    if x.dtype == np.dtype("float32") and e.dtype == np.dtype("float64"):
        factor *= float(np.finfo("float32").eps) / float(np.finfo("float64").eps)
    # Calibration (lead): for a float32 input and a LIST q NumPy's own result dtype depends on the data
    # (float64 when a lane holds NaN, float32 otherwise: np.nanpercentile applies np.percentile lane by lane),
    # so the dtype facet is only demanded where NumPy's rule is content independent.
    dtype_defined = not (isinstance(q, list) and x.dtype == np.dtype("float32"))     # (q stays a list in the case; any vector form)
    mm = compare_arrays(rv, e, exact=False, n=4, scale=scale, factor=factor, check_dtype=dtype_defined)
    if mm is None and not dtype_defined and rv.dtype not in (np.dtype("float32"), np.dtype("float64")):
        mm = ("dtype", "dtype %s is neither float32 nor float64" % rv.dtype)
    if mm is None:
        lm = lazy_meta_mismatch(r, rv)
        if lm and lm[0] != "lazy-dtype":
            mm = lm
    return r, rv, mm


def _run_b(case, ctx):
    x = _data_b(case)
    chunks = A.chunks_of_desc(case["chunks"])
    axis, q, m, kd = case["axis"], case["q"], case["method"], case["keepdims"]
    opts = {k: case[k] for k in ("kw", "qform", "weights") if case.get(k) is not None} if case.get("x") else {}
    axes = tuple(range(x.ndim)) if axis is None else tuple(sorted(a % x.ndim for a in (axis if isinstance(axis, list) else [axis])))
    ax = axes[0]
    fast = (x.ndim > 1 and axes == (x.ndim - 1,) and m == "linear" and x.shape[-1] <= 1000 and not opts.get("weights"))
    path = "fast-path" if fast else "numpy-path"
    # further code paths of the audit families (each is a branch of its own in nanquantile / _custom_nanquantile)
    if opts.get("weights"):
        path += "&weights=" + opts["weights"].split("-")[0]
    if isinstance(axis, list):
        path += "&axis=tuple"
    elif axis is None:
        path += "&axis=None"
    has_inf = bool(x.dtype.kind == "f" and np.isinf(x).any())
    allnan = np.isnan(x).all(axis=axes, keepdims=True) if x.dtype.kind == "f" else None
    if opts:
        _count_b(ctx, case, x, chunks, axes, m, opts)
    ctx.op("nanpercentile:" + m)
    ctx.nontrivial = A.has_split(chunks)
    ctx.sig = ("B", case["shape"], case["dtype"], case["flavour"], case["seed"], case["chunks"], axis, q, m, kd)
    ctx.distinct("nanpercentile_path", (fast, len(chunks[ax]) > 1, isinstance(q, list), kd))
    try:
        r, rv, mm = _eval_b(x, chunks, q, axis, m, kd, opts, case["seed"])
    except NotImplementedError as ex:
        ctx.unsupported(str(ex))
        return
    except _Raised as ex:
        ctx.exception(ex.exc, prefix="nanpercentile:" + path)
        return
    except Exception as ex:  # noqa: BLE001  (NumPy refused)
        ctx.reject("numpy: %s: %s" % (type(ex).__name__, ex))
        return
    ctx.count("nanpercentile_compared")
    if fast:
        ctx.count("nanpercentile_fast_path")
    if mm:
        f = [path]
        if mm[0] == "values":
            # classifier (causal minimisation): keep `inf` / `all-nan-slice` only if the symptom needs them
            def still(x2):
                try:
                    m2 = _eval_b(x2, chunks, q, axis, m, kd, opts, case["seed"])[2]
                except Exception:  # noqa: BLE001
                    return True
                return m2 is not None and m2[0] == mm[0]

            if has_inf and not still(np.where(np.isinf(x), x.dtype.type(1), x)):
                f.append("inf")
            if allnan is not None and allnan.any():
                x3 = x.copy()
                first = np.zeros(x.shape, dtype=bool)
                sl = [slice(None)] * x.ndim
                for a_ in axes:
                    sl[a_] = slice(0, 1)
                first[tuple(sl)] = True
                x3[np.broadcast_to(allnan, x.shape) & first] = 0
                if not still(x3):
                    f.append("all-nan-slice")
        elif x.dtype == np.dtype("float32"):
            f.append("float32")
        ctx.violation("nanpercentile:%s:%s" % ("&".join(f), mm[0]), mm[1], q=q, axis=axis, chunks=case["chunks"])
    ctx.sample = {"shape": case["shape"], "chunks": case["chunks"], "axis": axis, "q": q, "method": m,
                  "result_shape": list(rv.shape), "dtype": str(rv.dtype)}
    # ---- sibling facet: the same array with another q / method / axis / keepdims must not share keys ---------------
    import dask.array as da

    srng = S.rng_for(case, salt="b")
    u = srng.random()
    q2, m2, axis2, kd2 = q, m, axis, kd
    if u < 0.2 and x.ndim >= 2 and isinstance(axis, int) and not (opts.get("weights") or "").startswith("1d"):
        param, axis2 = "axis", srng.choice([a for a in range(x.ndim) if a != ax])
    elif u < 0.35:
        param, kd2 = "keepdims", not kd
    else:
        param, q2, m2 = _sibling_qm(case, q, m)
        if opts.get("weights"):
            m2 = m                      # weights are only defined for inverted_cdf
            if param == "method":
                param, q2 = "q", ([50] if isinstance(q, list) else (50 if q != 50 else 25))
        elif opts and param == "method":
            m2 = srng.choice([v for v in ALLM if v != m])
        if param == "q" and isinstance(q2, list):
            q2 = list(q)            # nanpercentile takes q in the given order
            i = srng.randrange(len(q2))
            q2[i] = srng.choice([v for v in (0, 10, 25, 50, 62.5, 90, 100) if v != q2[i]])
    wd = _weights_b(x, chunks, axis, opts["weights"], case["seed"])[1] if opts.get("weights") else None
    S.check(ctx, "nanpercentile", param, r,
            (lambda: _call_b(da.from_array(x, chunks=chunks), q2, axis2, m2, kd2, opts, wd)), va=rv,
            describe={"q": q2, "method": m2, "axis": axis2, "keepdims": kd2})


def _count_b(ctx, case, x, chunks, axes, m, opts):
    if m not in METHODS:
        ctx.count("nanpercentile_further_methods")
    ctx.distinct("nanpercentile_methods", m)
    if isinstance(case["axis"], list):
        ctx.count("nanpercentile_axis_tuple")
        if any(len(chunks[a]) > 1 for a in axes):
            ctx.count("nanpercentile_axis_tuple_split")
    if case["axis"] is None:
        ctx.count("nanpercentile_axis_none")
    if opts.get("weights"):
        ctx.count("nanpercentile_weights")
        ctx.distinct("nanpercentile_weight_kinds", opts["weights"])
    if opts.get("kw") == "interpolation":
        ctx.count("nanpercentile_interpolation_kw")
    if opts.get("qform") in ("nparray", "tuple", "npfloat"):
        ctx.count("nanpercentile_q_not_list_or_python_scalar")
    if x.ndim == 4:
        ctx.count("nanpercentile_4d")
    if max(x.shape) > 1000 and any(x.shape[a] > 1000 for a in axes):
        ctx.count("nanpercentile_reduced_axis_gt_1000")
    elif any(x.shape[a] > 255 for a in axes):
        ctx.count("nanpercentile_reduced_axis_256_1000")
    if case["dtype"] in ("int8", "int32"):
        ctx.count("nanpercentile_further_dtypes")
