"""C32 — approximate percentiles stay within the data and are monotone; nanpercentile equals NumPy.

Monitor, part A (``da.percentile`` on a NaN-free numeric 1-d array, default internal method, the five
interpolation methods): the harness rebuilds data, chunking and a sorted q vector from the case,
computes the real ``da.percentile(x, q, method=m)`` and checks what the statement promises:
  * every returned value lies in [min(data), max(data)]          (``:below-min`` / ``:above-max`` / ``:nan-result``)
  * the values are non-decreasing in q                            (``:not-monotone``)
  * q == 0 gives the minimum and q == 100 the maximum             (``:q0-not-min`` / ``:q100-not-max``)
all "up to floating-point rounding": 8 eps of the result dtype times max |finite data|.
Nothing else is demanded (the statement does not say the approximation equals np.percentile).
A scalar q (0-d result) is generated as well.

Part B (``da.nanpercentile(x, q, axis=k)`` on 1-3 d data with NaN): NumPy differential against
``np.nanpercentile(x, q, axis=k, ...)`` for random chunkings (also of the reduced axis), shape, dtype
and values within 32 eps * max |finite data| (dask interpolates with a differently associated formula
on its fast path: last axis, method linear).

Domain: int8/int64/uint8/float32/float64; +-inf only in cases flagged ``inf`` (labelled facet
``&inf``); q in [0, 100]; internal_method 'tdigest' needs the uninstalled ``crick`` (not generated).

Labels ``percentile:method=<m>&<multi-chunk|single-chunk>[&inf]:<symptom>`` and
``nanpercentile:<fast-path|numpy-path>[&inf][&all-nan-slice]:<symptom>``.

Calibration (unchanged tree): see PENDING / findings_proposed/C32.md.
"""
from __future__ import annotations

import itertools
import random
import warnings

import numpy as np

from ..gen import arrays as A
from ..mon.compare import compare_arrays, lazy_meta_mismatch

PROP = "C32"
RULE = ("part A cases = (data vector, chunking, method, sorted q vector or scalar q). Complete part: every chunking of "
        "arrays of length 1..8 (255 chunkings) x 4 data vectors over the alphabet {0,1,2,5} with duplicates x 5 methods with "
        "q = (0,10,25,50,75,90,100); thorough adds every array over {0,1,3} of length <= 5 x every chunking x 5 methods. "
        "Random part: lengths 1..60, int8/int64/uint8/float32/float64, small alphabets / wide values / +-inf facet, random "
        "chunkings, random sorted q vectors (0 and 100 included in most) and scalar q. part B cases = (shape 1-3 d, "
        "float/int data with NaN (all-NaN slices, inf facet), chunking, axis, q scalar|vector, method, keepdims). "
        "non-trivial = percentile axis (A) or any axis (B) split into >= 2 chunks; distinct = distinct case descriptions.")
ASSUMPTIONS = ["NumPy 2.x min/max and nanpercentile are the reference", "sync scheduler"]
BUDGET = {"quick": 45, "thorough": 500}
FLOORS = {"quick": {"evaluations": 100, "distinct_nontrivial": 50}, "thorough": {"evaluations": 100, "distinct_nontrivial": 50}}
EXHAUSTIVE_SPACE = {
    "quick": "all 255 chunkings of arrays of length 1..8 x 4 data vectors with duplicates x 5 methods, q=(0,10,25,50,75,90,100)",
    "thorough": "quick space + every array over {0,1,3} of length <= 5 x every chunking x 5 methods",
}
CLAIM = ("Every da.percentile result observed on NaN-free 1-d data was checked to lie within [min, max], to be non-decreasing "
         "in q and to hit min / max at q = 0 / 100 (up to rounding); every da.nanpercentile result along an axis was compared "
         "with np.nanpercentile. Held = no counterexample and no dask exception inside the domain on the executions observed.")
LEVEL_NOTE = "NumPy is the reference for min/max and nanpercentile; the approximate percentile is only held to the stated bounds"
TECHNIQUE = "runtime monitoring: bound/monotonicity oracle on da.percentile, NumPy differential on da.nanpercentile, complete small chunking space"

PENDING = {}

METHODS = ["linear", "lower", "higher", "midpoint", "nearest"]
QFIX = [0, 10, 25, 50, 75, 90, 100]
VECS = {  # data vectors of the complete part are prefixes of these (length 8)
    "mixed": [2, 0, 5, 2, 1, 0, 5, 1],
    "asc": [0, 0, 1, 1, 2, 2, 5, 5],
    "desc": [5, 2, 2, 1, 1, 0, 0, 0],
    "const": [2, 2, 2, 2, 2, 2, 2, 2],
}
ADTYPES = ["int8", "int64", "uint8", "float32", "float64"]


def cases(tier, seed):
    rng = random.Random(seed * 6151 + 32)
    # ---- complete part --------------------------------------------------------------------------
    for n in range(1, 9):
        for chunks in A.compositions(n):
            for vec in VECS:
                for m in METHODS:
                    yield {"space": "exhaustive", "part": "A", "vec": vec, "n": n, "chunks": list(chunks), "method": m,
                           "dtype": "int64", "q": QFIX}
    if tier == "thorough":
        for n in range(1, 6):
            for vals in itertools.product((0, 1, 3), repeat=n):
                for chunks in A.compositions(n):
                    for m in METHODS:
                        yield {"space": "exhaustive", "part": "A", "vals": list(vals), "n": n, "chunks": list(chunks),
                               "method": m, "dtype": "float64", "q": QFIX}
    # ---- random part ---------------------------------------------------------------------------
    k = 3600 if tier == "quick" else 70000
    for _ in range(k):
        if rng.random() < 0.6:
            n = rng.choice((1, 2, 3, 4, 5, 6, 8, 10, 13, 20, 33, 60))
            d = {"part": "A", "n": n, "seed": rng.randrange(2 ** 31), "dtype": rng.choice(ADTYPES),
                 "flavour": rng.choice(("alphabet", "alphabet", "wide", "sorted", "inf")),
                 "chunks": list(A.rand_comp(rng, n)), "method": rng.choice(METHODS)}
            if d["flavour"] == "inf" and not d["dtype"].startswith("float"):
                d["flavour"] = "alphabet"
            u = rng.random()
            if u < 0.12:
                d["q"] = rng.choice((0, 100, 50, 37.5, 0.0, 100.0))
            else:
                qs = [rng.choice((rng.randint(0, 100), round(rng.uniform(0, 100), 2))) for _ in range(rng.randint(0, 6))]
                if u < 0.85:
                    qs += [0, 100]
                elif u < 0.92:
                    qs += [0]
                else:
                    qs += [100]
                d["q"] = sorted(qs)
            yield d
        else:
            shape = list(A.rand_shape(rng, maxnd=3, maxlen=6, minnd=1, allow_zero=False))
            if rng.random() < 0.2:
                shape[rng.randrange(len(shape))] = rng.randint(7, 12)
            nd = len(shape)
            d = {"part": "B", "shape": shape, "seed": rng.randrange(2 ** 31),
                 "dtype": rng.choice(("float64", "float64", "float32", "int64", "uint8")),
                 "flavour": rng.choice(("nan", "nan", "allnan", "clean", "inf", "normal")),
                 "chunks": [list(c) for c in A.rand_chunks(rng, shape)],
                 "axis": rng.choice((nd - 1, -1, rng.randrange(-nd, nd), rng.randrange(-nd, nd))),
                 "method": rng.choice(["linear"] * 5 + METHODS), "keepdims": rng.random() < 0.3}
            if rng.random() < 0.4:
                d["q"] = rng.choice((0, 100, 50, 25, 33.3, 75.0))
            else:
                d["q"] = [rng.choice((0, 10, 25, 50, 50.0, 62.5, 90, 100)) for _ in range(rng.randint(1, 4))]
            yield d


# --------------------------------------------------------------------------- data
def _data_a(case):
    n, dtype = case["n"], case["dtype"]
    if "vec" in case:
        return np.array(VECS[case["vec"]][:n], dtype=dtype)
    if "vals" in case:
        return np.array(case["vals"], dtype=dtype)
    r = np.random.default_rng(case["seed"])
    flav = case["flavour"]
    unsigned = dtype.startswith("uint")
    if flav == "wide":
        if dtype.startswith("float"):
            a = (r.normal(size=n) * 10 ** r.integers(-2, 4)).astype(dtype)
        elif dtype == "int64":
            a = r.integers(-10 ** 6, 10 ** 6, n).astype(dtype)
        else:
            a = r.integers(0 if unsigned else -100, 101, n).astype(dtype)
    else:
        alpha = r.integers(0 if unsigned else -4, 6, r.integers(1, 5))
        a = alpha[r.integers(0, len(alpha), n)]
        if dtype.startswith("float") and r.random() < 0.5:
            a = a / 2
        a = a.astype(dtype)
    if flav == "sorted":
        a = np.sort(a)
        if r.random() < 0.5:
            a = a[::-1].copy()
    if flav == "inf":
        a[r.integers(0, n)] = np.inf if r.random() < 0.6 else -np.inf
        if n > 1 and r.random() < 0.4:
            a[r.integers(0, n)] = -np.inf
    return a


def _data_b(case):
    shape, dtype, flav = tuple(case["shape"]), case["dtype"], case["flavour"]
    r = np.random.default_rng(case["seed"])
    n = int(np.prod(shape))
    if flav == "normal" and dtype.startswith("float"):
        a = (r.normal(size=n) * 3).astype(dtype)
    else:
        a = A.rand_data(case["seed"], shape, dtype, special=False).reshape(-1).copy()
    if dtype.startswith("float"):
        if flav in ("nan", "allnan", "normal", "inf"):
            a[r.random(n) < 0.25] = np.nan
        if flav == "inf":
            a[r.integers(0, n)] = np.inf
            if r.random() < 0.5:
                a[r.integers(0, n)] = -np.inf
    a = a.reshape(shape)
    if flav == "allnan" and dtype.startswith("float"):
        ax = case["axis"] % len(shape)
        idx = [int(r.integers(0, s)) for s in shape]
        idx[ax] = slice(None)
        a[tuple(idx)] = np.nan
    return a


# --------------------------------------------------------------------------- run
def run_case(case, ctx):
    with warnings.catch_warnings():
        warnings.simplefilter("ignore")
        with np.errstate(all="ignore"):
            if case["part"] == "A":
                _run_a(case, ctx)
            else:
                _run_b(case, ctx)


def _run_a(case, ctx):
    import dask.array as da

    x = _data_a(case)
    chunks = (tuple(case["chunks"]),)
    m = case["method"]
    q = case["q"]
    scalar = not isinstance(q, list)
    qv = np.atleast_1d(np.asarray(q, dtype="float64"))
    has_inf = bool(x.dtype.kind == "f" and np.isinf(x).any())
    ctx.op("percentile:" + m)
    ctx.nontrivial = len(chunks[0]) >= 2
    ctx.sig = ("A", x.tolist(), str(x.dtype), case["chunks"], m, q)
    ctx.distinct("method_chunked", (m, ctx.nontrivial, scalar))
    feat = "method=%s&%s%s" % (m, "multi-chunk" if ctx.nontrivial else "single-chunk", "&inf" if has_inf else "")
    dx = da.from_array(x, chunks=chunks)
    try:
        r = da.percentile(dx, q, method=m)
        if not isinstance(r, da.Array):
            ctx.violation("percentile:%s:result-not-a-dask-array" % feat, "got %r" % (type(r),))
            return
        rv = np.asarray(r.compute(scheduler="sync"))
    except NotImplementedError as ex:
        ctx.unsupported(str(ex))
        return
    except Exception as ex:  # noqa: BLE001
        ctx.exception(ex, prefix="percentile:" + feat)
        return
    ctx.count("percentile_results")
    if rv.shape != (() if scalar else (len(qv),)):
        ctx.violation("percentile:%s:shape" % feat, "result shape %s for q %r" % (rv.shape, q))
        return
    lm = lazy_meta_mismatch(r, rv)
    if lm and lm[0] != "lazy-dtype":
        ctx.violation("percentile:%s:%s" % (feat, lm[0]), lm[1])
    p = np.atleast_1d(rv).astype("float64") if rv.dtype.kind in "iub" else np.atleast_1d(rv)
    lo, hi = x.min(), x.max()
    fin = np.abs(x[np.isfinite(x)].astype("float64")) if x.dtype.kind == "f" else np.abs(x.astype("float64"))
    scale = float(fin.max()) if fin.size else 1.0
    eps = float(np.finfo(p.dtype).eps) if p.dtype.kind == "f" else float(np.finfo("float64").eps)
    tol = 8 * eps * max(scale, 1e-300)
    lo_f, hi_f = float(lo), float(hi)
    pf = p.astype("float64")
    detail = {"data": x.tolist(), "chunks": case["chunks"], "q": qv.tolist(), "result": pf.tolist()}
    ctx.count("bounds_checked", len(pf))
    if np.isnan(pf).any():
        ctx.violation("percentile:%s:nan-result" % feat, "NaN in the result for NaN-free data", **detail)
    else:
        if (pf < lo_f - tol).any():
            ctx.violation("percentile:%s:below-min" % feat, "a percentile lies below min(data)=%r" % lo_f, **detail)
        if (pf > hi_f + tol).any():
            ctx.violation("percentile:%s:above-max" % feat, "a percentile lies above max(data)=%r" % hi_f, **detail)
        ctx.count("monotone_checked", max(len(pf) - 1, 0))
        # inf - inf = nan for equal infinities: equal values are non-decreasing
        dec = [i for i in range(len(pf) - 1) if not (pf[i + 1] >= pf[i] - tol)]
        if dec:
            ctx.violation("percentile:%s:not-monotone" % feat, "result decreases between q=%r and q=%r"
                          % (qv[dec[0]], qv[dec[0] + 1]), **detail)
        for i, qq in enumerate(qv):
            if qq == 0:
                ctx.count("q0_checked")
                if not _close(pf[i], lo_f, tol):
                    ctx.violation("percentile:%s:q0-not-min" % feat, "q=0 gives %r, min(data)=%r" % (pf[i], lo_f), **detail)
                    break
        for i, qq in enumerate(qv):
            if qq == 100:
                ctx.count("q100_checked")
                if not _close(pf[i], hi_f, tol):
                    ctx.violation("percentile:%s:q100-not-max" % feat, "q=100 gives %r, max(data)=%r" % (pf[i], hi_f), **detail)
                    break
    ctx.sample = {"data": x.tolist()[:12], "chunks": case["chunks"], "method": m, "q": qv.tolist(), "result": pf.tolist(),
                  "rounding_tolerance": tol}


def _close(a, b, tol):
    if np.isinf(a) or np.isinf(b):
        return a == b
    return abs(a - b) <= tol


def _run_b(case, ctx):
    import dask.array as da

    x = _data_b(case)
    chunks = A.chunks_of_desc(case["chunks"])
    axis, q, m, kd = case["axis"], case["q"], case["method"], case["keepdims"]
    ax = axis % x.ndim
    fast = x.ndim > 1 and ax == x.ndim - 1 and m == "linear"
    f = ["fast-path" if fast else "numpy-path"]
    if x.dtype.kind == "f" and np.isinf(x).any():
        f.append("inf")
    if x.dtype.kind == "f" and np.isnan(x).all(axis=ax).any():
        f.append("all-nan-slice")
    feat = "&".join(f)
    ctx.op("nanpercentile:" + m)
    ctx.nontrivial = A.has_split(chunks)
    ctx.sig = ("B", case["shape"], case["dtype"], case["flavour"], case["seed"], case["chunks"], axis, q, m, kd)
    ctx.distinct("nanpercentile_path", (fast, len(chunks[ax]) > 1, isinstance(q, list), kd))
    try:
        e = np.asarray(np.nanpercentile(x, q, axis=axis, method=m, keepdims=kd))
    except Exception as ex:  # noqa: BLE001
        ctx.reject("numpy: %s: %s" % (type(ex).__name__, ex))
        return
    dx = da.from_array(x, chunks=chunks)
    try:
        r = da.nanpercentile(dx, q, axis=axis, method=m, keepdims=kd)
        rv = np.asarray(r.compute(scheduler="sync"))
    except NotImplementedError as ex:
        ctx.unsupported(str(ex))
        return
    except Exception as ex:  # noqa: BLE001
        ctx.exception(ex, prefix="nanpercentile:" + feat)
        return
    ctx.count("nanpercentile_compared")
    if fast:
        ctx.count("nanpercentile_fast_path")
    fin = np.abs(x[np.isfinite(x)].astype("float64")) if x.dtype.kind == "f" else np.abs(x.astype("float64"))
    scale = float(fin.max()) if fin.size else 1.0
    mm = compare_arrays(rv, e, exact=False, n=4, scale=scale)
    if mm:
        ctx.violation("nanpercentile:%s:%s" % (feat, mm[0]), mm[1], q=q, axis=axis, chunks=case["chunks"])
    lm = lazy_meta_mismatch(r, rv)
    if lm and lm[0] != "lazy-dtype":
        ctx.violation("nanpercentile:%s:%s" % (feat, lm[0]), lm[1])
    ctx.sample = {"shape": case["shape"], "chunks": case["chunks"], "axis": axis, "q": q, "method": m,
                  "result_shape": list(rv.shape), "dtype": str(rv.dtype)}
