"""C39 — joins and concatenation equal pandas.

Every case is ONE description (frame seeds, key distribution, key form, keywords,
partitioning of every input, dask-only execution keywords).  From it the same
program is run twice: on dask collections (real ``dask.dataframe`` API,
``scheduler="sync"``) and on the pandas frames (reference = pandas 3.0.5; for the
dask-only ``how="leftsemi"`` the reference is written here: rows of the left
frame whose key tuple occurs in the right frame, left columns only).

Facets
------
``merge``    dd.merge / DataFrame.merge / DataFrame.join; how in inner/left/right/outer/
             leftsemi; keys: ``on`` (1-2 columns), ``left_on/right_on``, both indexes,
             column-index mixtures, ``on`` naming the index, default keys (shared
             columns); key dtypes int/str/float/categorical (column forms)/datetime, bool and
             nullable Int64/UInt8/Float64/boolean (column forms), and mixed across the sides:
             int-vs-float, int32-vs-int64, Int64-vs-int64; two-key lists mixing an int-like
             key with a str/bool/Int64/boolean flag; duplicates (many-to-many), keys missing
             on either side, NA keys (NaN, None, pd.NA);
             suffixes, indicator, broadcast (None/True/False/float), shuffle_method
             (None/tasks/disk), ``npartitions=``; 1..6 partitions per side incl. empty
             partitions; known and unknown divisions; optionally a pandas right operand, and
             optionally a SECOND merge of the result on the same key (the planner may reuse
             the partitioning of the first join).
``asof``     dd.merge_asof: direction, tolerance, by, allow_exact_matches, on a sorted
             column or on sorted indexes with known divisions.
``concat0``  dd.concat axis=0: 2-3 DataFrames/Series with different column sets, join,
             interleave_partitions, ignore_unknown_divisions, known/unknown divisions.
``concat1``  dd.concat axis=1: known divisions (any partitioning), or unknown divisions
             with identical partitioning (documented assumption: aligned).

Comparison
----------
``vf.gen.frames.compare``: object kind, column names and order, dtypes (str/object
equivalence), length, then the rows **as a multiset** (both sides sorted by all
columns, NaN last).  The index takes part in the comparison only where it carries
meaning: joins of index with index, merge_asof on indexes, concat.  A column merge
yields a fresh RangeIndex in pandas and partition-local indexes in dask.
Row *order* is compared as a separately labelled facet (symptom ``order``) only
where both promise it: index-index joins with known divisions on both sides (the result
is sorted by the index whenever the pandas result is), merge_asof (one row per left row, in left order), concat axis=0 without
interleaving (partition order = input order), concat axis=1 with identical indexes.

Labels
------
``<facet>:<input-feature predicate>:<symptom>``; symptoms: ``columns``, ``rows`` (lost / duplicated /
NaN-filled rows under a named predicate; ``length`` / ``values`` under ``other``), ``index``,
``index-name``, ``name``, ``dtype``, ``order`` or ``ExcType@file:function`` of the innermost dask
frame of the root cause (``Expr.__getattr__`` wraps metadata errors in RuntimeError).  Predicates
are computed from the description and the lowered plan (see ``_merge_pred`` / ``_concat_pred``).

Calibration
-----------
False alarms corrected (the check, not dask, was wrong):

* index-index joins with known divisions: comparing the full row order with pandas alarmed on
  many-to-many duplicate index labels (exhaustive block, ``how=inner``: pandas itself does not return
  such a join sorted; its order comes from ``Index.join``).  The promise is "sorted by the index":
  the order facet now demands a monotonic result index whenever the pandas result index is monotonic,
  and only when no key is duplicated on BOTH sides: for a many-to-many key pandas' own row order is an
  artefact of its join kernel and differs between the whole frame and a partition of it (thorough run:
  ``on=<index name>``, how=inner, last partition came back as 16,16,..,19,19,..,16,16 from pandas itself).
  how=inner is left out of the order facet altogether: pandas 3.0.5 alone returns
  ``p.merge(R, on=<index name>, how="inner")`` of a sorted ``p`` as 52,52,55,55,82,58,79 (second thorough
  run), so "preserves the order of the left keys" does not hold for a partition although it held for the
  whole frame.  left / right / outer (documented: left order / right order / sorted keys) stay in.
* the shared classifier keys on the word "index" and called a wrong value in a key column an index
  difference for column merges (``check_index=False``); the symptom is now derived by comparing
  again without the index (and without names).
* dtypes are compared after the rows, on their own: a wrong row set also changes null-fill upcasts
  and had produced two labels for one defect.
* merge_asof with an EMPTY left frame (``from_pandas`` gives unknown divisions (None, None)): dask
  raises "merge_asof input must be sorted!" / IndexError in ``compute_current_divisions``.  The
  domain of merge_asof is "sorted with known divisions" (dask docs), so left frames have >= 1 row.
* NA (None) in a str / categorical INDEX: ``from_pandas`` documents NotImplementedError; NA keys are
  put into an index only for float keys and unsorted (unknown divisions).
* pandas right operand with NaN in its float index: dask calls ``from_pandas(sort=True)`` itself and
  builds divisions from NaN (TypeError at assembly): divisions truthfulness is C41's subject; the
  pandas-operand variant is generated without NA keys.
* index-index joins whose two index NAMES differ: the name pandas gives the result depends on the data
  (fast paths of ``Index.join`` for empty / equal / subset indexes keep one of the names, otherwise None);
  dask renames to the metadata name.  Only equal names (None/None, "key"/"key") are generated.
* categorical keys are generated for column forms only.  With a CategoricalIndex as join key the first runs
  showed three different symptoms (TypeError "dtype of categories must be the same" when the computed
  partitions are assembled and one is empty, result sorted by category codes where pandas sorts by value,
  index name); the statement does not name categorical indexes and from_pandas/divisions on a
  CategoricalIndex are C41's subject.  Noted in findings_proposed/C39.md (#8), not monitored.
* concat axis=1 with non-identical indexes holding duplicates: pandas raises InvalidIndexError;
  non-identical indexes are generated unique.
* the C41 divisions monitor was dropped from this module (it recomputed every partition; divisions are
  not part of the statement).

Key dtypes (second round): bool, nullable Int64/UInt8/Float64/boolean with pd.NA, int32-vs-int64,
Int64-vs-int64 and two-key lists with a bool/nullable flag were added after a seeded change in
``_split_partition`` (numeric cast before hashing narrowed to numpy int/uint/float) passed the check: the
generator only had int64/float64/str/datetime/categorical keys, for which both hashing sites agree.
A broadcast join needs how != inner AND a broadcast side with >= 2 partitions to split the other side
by hash at all; this is now reached on purpose (complete block B, ``_rand_merge_bcast``) and counted
(``broadcast-join&nullable-or-bool-key``, with a floor).  On the unchanged tree nothing new fired for these
dtypes (2 800 cases, seeds 0 and 1): pandas and dask agree, including pd.NA keys matching pd.NA keys.
Categorical keys are supported by dask for column keys and were already generated; bool / nullable keys
are likewise generated for column forms only (a bool or NA-bearing index is not a partitionable index),
and the mixed-dtype kinds are not combined with leftsemi (the harness reference keeps the left dtypes;
pandas defines no dtype for a semi join of int32 with int64 keys).

Genuine differences are listed in ``PENDING`` and written up in ``findings_proposed/C39.md``.
"""
from __future__ import annotations

import random
import warnings

PROP = "C39"

HOWS = ("inner", "left", "right", "outer", "leftsemi")
KEYFORMS = ("on", "on", "on2", "lr", "lr2", "ii", "ci", "ic", "oi", "none")
KDTYPES = ("int", "int", "str", "float", "cat", "dt", "intfloat", "floatint",
           "bool", "Int64", "UInt8", "Float64", "boolean", "int32int64", "Int64int")
# bool / nullable extension keys (pd.NA): generated for column forms only (a bool or NA-bearing index is not a
# partitionable index); the two *mixed* kinds give the two sides different dtypes that pandas joins by value
EXT_KINDS = ("bool", "Int64", "UInt8", "Float64", "boolean", "Int64int")
MIXED_KINDS = ("intfloat", "floatint", "int32int64", "Int64int")
NA_KINDS = ("str", "float", "intfloat", "cat", "Int64", "UInt8", "Float64", "boolean", "Int64int")
K2_KINDS = ("str", "str", "bool", "Int64", "boolean")
COLUMN_FORMS = ("on", "on2", "lr", "lr2", "none")
BROADCAST = (None, None, True, False, 0.5, 1.0, 2.0, 4.0)
SHUFFLE = (None, "tasks", "disk")
SUFFIXES = (("_x", "_y"), ("_x", "_y"), ("_l", "_r"), ("", "_r"), ("_l", ""))
INDICATOR = (False, False, True, "src")


# ---------------------------------------------------------------------------
# case stream


def _strategy_kw(strategy):
    if strategy == "broadcast":
        return {"broadcast": True, "shuffle": None}
    if strategy == "hash-tasks":
        return {"broadcast": False, "shuffle": "tasks"}
    if strategy == "hash-disk":
        return {"broadcast": False, "shuffle": "disk"}
    return {"broadcast": None, "shuffle": None}


def _np_desc(n):
    return {"how": "npartitions", "n": n}


def cases(tier, seed):
    rng = random.Random(seed * 1000003 + 39)
    from vf.gen.frames import rand_partition_desc

    # ---- complete sub-space: one fixed pair of frames (duplicates, keys missing on both sides),
    #      how x key form x strategy x partition counts x indicator -------------------------------
    pcounts = ((1, 3), (3, 1), (2, 3), (3, 2), (3, 3)) if tier == "quick" else ((1, 1), (1, 3), (3, 1), (2, 3), (3, 2), (3, 3), (2, 5))
    forms = ("on", "ii", "ci", "ic") if tier == "quick" else ("on", "on2", "lr", "ii", "ci", "ic")
    for how in HOWS:
        for form in forms:
            if how == "leftsemi" and form in ("ii", "ci"):
                continue            # documented NotImplementedError (right_index)
            for strategy in ("broadcast", "hash-tasks", "hash-disk"):
                for nl, nr in pcounts:
                    for ind in (False, True):
                        if how == "leftsemi" and ind:
                            continue
                        c = {"space": "exhaustive", "facet": "merge", "api": "method", "lseed": 3901, "rseed": 3902,
                             "nl": 14, "nr": 11, "kd": "int", "form": form, "universe": 6, "shift": 2, "nakeys": False,
                             "ksort": True, "how": how, "suffixes": ["_x", "_y"], "indicator": ind, "npart": None,
                             "lpart": _np_desc(nl), "rpart": _np_desc(nr), "lindex": "range", "rindex": "range"}
                        c.update(_strategy_kw(strategy))
                        yield c
    # ---- complete sub-space B: broadcast join with a multi-partition broadcast side on bool / nullable keys ------
    for kd, nak in (("bool", False), ("Int64", True), ("boolean", True), ("Float64", True), ("UInt8", False), ("Int64int", True)):
        for how in ("left", "right", "leftsemi"):
            if how == "leftsemi" and kd == "Int64int":
                continue
            for form, k2 in (("on", "str"), ("on2", "bool"), ("lr2", "Int64")):
                for nl, nr in (((3, 2), (4, 2), (4, 3)) if how != "right" else ((2, 3), (2, 4), (3, 4))):
                    yield {"space": "exhaustive", "facet": "merge", "api": "method", "lseed": 3911, "rseed": 3912,
                           "nl": 30, "nr": 24, "kd": kd, "k2": k2, "form": form, "universe": 8, "shift": 2, "nakeys": nak,
                           "ksort": True, "how": how, "suffixes": ["_x", "_y"], "indicator": False, "npart": None,
                           "lpart": _np_desc(nl), "rpart": _np_desc(nr), "lindex": "range", "rindex": "range",
                           "broadcast": True, "shuffle": None}
    # ---- seeded random cases, facets interleaved (a run cut short by the time budget still sees every facet) ----
    scale = 1 if tier == "quick" else 23
    quota = {"merge": 1700 * scale, "asof": 450 * scale, "concat0": 550 * scale, "concat1": 350 * scale}
    pattern = ("merge", "asof", "merge", "concat0", "merge", "concat1", "merge", "asof", "merge", "concat0", "merge")
    left = dict(quota)
    while any(left.values()):
        for facet in pattern:
            if not left[facet]:
                continue
            left[facet] -= 1
            if facet == "merge":
                yield _rand_merge(rng, rand_partition_desc)
            elif facet == "asof":
                yield _rand_asof(rng)
            elif facet == "concat0":
                yield _rand_concat0(rng, rand_partition_desc)
            else:
                yield _rand_concat1(rng)


def _rand_rows(rng):
    r = rng.random()
    if r < 0.03:
        return 0
    if r < 0.10:
        return rng.randint(1, 3)
    return rng.randint(4, 40)


def _rand_merge_bcast(rng):
    """broadcast join (how != inner) whose broadcast side has >= 2 partitions, on bool / nullable / mixed-width keys."""
    how = rng.choice(("left", "right", "leftsemi"))
    kd = rng.choice(EXT_KINDS + ("int32int64", "floatint", "cat"))
    if how == "leftsemi" and kd in MIXED_KINDS:
        kd = "Int64"
    form = rng.choice(("on", "on", "on2", "lr", "lr2"))
    if how == "right":
        a = rng.randint(2, 4)
        nlp, nrp = a, rng.randint(a + 1, 6)
    else:
        b = rng.randint(2, 4)
        nlp, nrp = rng.randint(b, 6), b
    nl, nr = rng.randint(14, 40), rng.randint(14, 40)
    return {"facet": "merge", "api": rng.choice(("method", "dd.merge")), "lseed": rng.randrange(2 ** 31),
            "rseed": rng.randrange(2 ** 31), "nl": nl, "nr": nr, "kd": kd, "k2": rng.choice(K2_KINDS), "form": form,
            "universe": rng.choice((2, 3, 5, 8, 20, 60)), "shift": rng.choice((0, 0, 1, 2)),
            "nakeys": kd in NA_KINDS and rng.random() < 0.6, "ksort": False, "how": how,
            "suffixes": list(rng.choice(SUFFIXES)), "indicator": rng.choice(INDICATOR) if how != "leftsemi" else False,
            "broadcast": rng.choice((True, True, 4.0)), "shuffle": rng.choice(SHUFFLE), "npart": None,
            "lpart": _np_desc(nlp), "rpart": _np_desc(nrp), "lindex": rng.choice(("range", "sorted", "unsorted")),
            "rindex": rng.choice(("range", "sorted", "unsorted"))}


def _rand_merge(rng, rand_partition_desc):
    if rng.random() < 0.1:
        return _rand_merge_bcast(rng)
    form = rng.choice(KEYFORMS)
    how = rng.choice(HOWS + ("inner", "left", "right", "outer"))
    kd = rng.choice(KDTYPES)
    api = rng.choice(("method", "method", "dd.merge", "join"))
    if how == "leftsemi":
        if form in ("ii", "ci", "oi"):
            form = rng.choice(("on", "on2", "lr", "ic"))
        if kd in MIXED_KINDS:
            kd = "int"          # the leftsemi reference keeps the left dtypes; pandas defines none for mixed key dtypes
    if api == "join":
        if form not in ("ii", "ci") or how == "leftsemi":
            api = "method"
    if kd == "cat" and form in ("ii", "ci", "ic", "oi"):
        kd = "str"              # categorical keys: column forms only (see Calibration)
    if kd in EXT_KINDS and form not in COLUMN_FORMS:
        kd = "int"              # bool / nullable keys: column forms only
    nl, nr = _rand_rows(rng), _rand_rows(rng)
    big = max(nl, nr, 2)
    universe = rng.choice((2, 3, 5, 8, big, 2 * big))
    nakeys = rng.random() < 0.3 and kd in NA_KINDS
    if form in ("ii", "ci", "ic", "oi") and kd in ("str", "cat"):
        nakeys = False          # from_pandas documents NotImplementedError for NA in a non-numeric index
    ksort = rng.random() < 0.7
    suffixes = list(rng.choice(SUFFIXES))
    if api == "join" and suffixes == ["_x", "_y"]:
        suffixes = list(rng.choice(SUFFIXES[2:]))
    ind = rng.choice(INDICATOR) if how != "leftsemi" and api != "join" else False
    c = {"facet": "merge", "api": api, "lseed": rng.randrange(2 ** 31), "rseed": rng.randrange(2 ** 31),
         "nl": nl, "nr": nr, "kd": kd, "k2": rng.choice(K2_KINDS), "form": form, "universe": universe,
         "shift": rng.choice((0, 0, 1, 2)), "nakeys": nakeys, "ksort": ksort, "how": how, "suffixes": suffixes, "indicator": ind,
         "broadcast": rng.choice(BROADCAST), "shuffle": rng.choice(SHUFFLE),
         "npart": rng.choice((None, None, None, 1, 2, 4, 7)),
         "lpart": rand_partition_desc(rng, nl, allow_unknown=True), "rpart": rand_partition_desc(rng, nr, allow_unknown=True),
         "lindex": rng.choice(("range", "range", "sorted", "dups", "unsorted")),
         "rindex": rng.choice(("range", "range", "sorted", "dups", "unsorted"))}
    if form == "ii":
        c["liname"], c["riname"] = rng.choice(((None, None), ("key", "key")))
    if rng.random() < 0.04 and not nakeys:
        c["rpandas"] = True       # right operand is a pandas frame (documented)
    elif form in ("on", "on2", "lr", "lr2") and rng.random() < 0.2:
        # second join on the same key: the planner may reuse the partitioning of the first one
        n3 = rng.randint(2, 30)
        c["chain"] = {"seed": rng.randrange(2 ** 31), "n": n3, "how": rng.choice(("inner", "left", "right", "outer")),
                      "part": rand_partition_desc(rng, n3, allow_unknown=True), "shuffle": rng.choice(SHUFFLE)}
    return c


def _rand_asof(rng):
    form = rng.choice(("on", "on", "index", "index", "lr", "on+rindex"))
    kd = rng.choice(("int", "int", "float", "dt"))
    tol = None
    if rng.random() < 0.45:
        tol = rng.choice((0, 1, 2, 3, 5)) if kd != "float" else rng.choice((0.5, 1.0, 2.5))
    by = rng.choice((None, None, "g", "g", ["g", "h"]))
    nl, nr = rng.randint(1, 30) if rng.random() < 0.1 else rng.randint(3, 30), rng.randint(1, 30)
    return {"facet": "asof", "lseed": rng.randrange(2 ** 31), "rseed": rng.randrange(2 ** 31), "nl": nl, "nr": nr,
            "kd": kd, "form": form, "by": by, "direction": rng.choice(("backward", "forward", "nearest")),
            "tolerance": tol, "allow_exact": rng.random() < 0.7, "dups": rng.random() < 0.5,
            "span": rng.choice((1, 2, 4)), "suffixes": list(rng.choice(SUFFIXES[:3])),
            "lpart": {"how": rng.choice(("npartitions", "chunksize")), "n": rng.randint(1, 6)},
            "rpart": {"how": rng.choice(("npartitions", "chunksize")), "n": rng.randint(1, 6)}}


COLSUBSETS = (("a", "b", "c", "d", "e"), ("a", "c", "d"), ("b", "e"), ("a", "b", "c"), ("c", "d", "t"), ("a", "k", "c"),
              ("d",), ("a", "n", "m"))
INDEX_FAMILIES = {"int": ("range", "sorted", "dups", "unsorted"), "datetime": ("datetime",), "strings": ("strings",),
                  "float": ("float",)}


def _rand_concat0(rng, rand_partition_desc):
    n = rng.choice((2, 2, 3))
    fam = rng.choice(("int", "int", "int", "datetime", "strings", "float"))
    stacked = rng.random() < 0.4
    frames_, parts = [], []
    allser = rng.random() < 0.12
    for i in range(n):
        nrows = _rand_rows(rng)
        cols = list(rng.choice(COLSUBSETS)) if rng.random() < 0.6 else list(COLSUBSETS[0])
        kind = "frame"
        if allser or rng.random() < 0.12:
            kind = "series"
            cols = [rng.choice(("a", "c", "d", "b"))] if not allser else ["c"]
        ik = rng.choice(INDEX_FAMILIES[fam])
        if stacked and fam == "int":
            ik = rng.choice(("range", "sorted", "dups"))
        frames_.append({"seed": rng.randrange(2 ** 31), "nrows": nrows, "index": ik, "cols": cols, "kind": kind,
                        "sname": rng.choice(("keep", "keep", "z", None)) if kind == "series" else None})
        parts.append(rand_partition_desc(rng, nrows, allow_unknown=not stacked and rng.random() < 0.6))
    return {"facet": "concat0", "frames": frames_, "parts": parts, "stacked": stacked, "fam": fam,
            "join": rng.choice(("outer", "outer", "inner")), "interleave": rng.random() < 0.4,
            "ignore_unknown": rng.random() < 0.3}


def _rand_concat1(rng):
    n = rng.choice((2, 2, 3))
    mode = rng.choice(("known", "known", "known", "unknown-aligned"))
    nrows = _rand_rows(rng)
    same_index = mode == "unknown-aligned" or rng.random() < 0.55
    ik = rng.choice(("sorted", "sorted", "dups", "range", "datetime", "strings", "float"))
    if not same_index:
        ik = rng.choice(("sorted", "sorted", "range"))      # pandas aligns only uniquely valued indexes
    frames_, parts = [], []
    cuts = sorted(rng.randint(0, nrows) for _ in range(rng.randint(0, 4)))
    for i in range(n):
        kind = "series" if rng.random() < 0.25 else "frame"
        cols = list(rng.choice(COLSUBSETS)) if kind == "frame" else [rng.choice(("a", "b", "c", "d"))]
        frames_.append({"cols": cols, "kind": kind, "rowsel": None if same_index else rng.randrange(2 ** 31)})
        if mode == "known":
            parts.append({"how": rng.choice(("npartitions", "npartitions", "chunksize")), "n": rng.randint(1, 6)})
        else:
            parts.append({"how": rng.choice(("slices", "delayed")), "cuts": cuts})
    return {"facet": "concat1", "seed": rng.randrange(2 ** 31), "nrows": nrows, "index": ik, "frames": frames_, "parts": parts,
            "mode": mode, "join": rng.choice(("outer", "outer", "inner")), "ignore_unknown": rng.random() < 0.5}


# ---------------------------------------------------------------------------
# data


def shard_setup(tier, seed):
    from vf.gen import frames

    frames.setup()
    warnings.simplefilter("ignore")


def _key_values(codes, kd, side, na_mask, universe, shift):
    """key codes -> key column of the wanted dtype (same code = same key on both sides)."""
    import numpy as np
    import pandas as pd

    n = len(codes)
    if kd in ("intfloat", "floatint"):
        kd = ("int", "float")[(kd == "intfloat") == (side == "r")]
    if kd == "int32int64":
        kd = "int32" if side == "l" else "int"
    if kd == "Int64int":
        kd = "Int64" if side == "l" else "int"
    if kd == "int":
        return (codes * 3 - 2).astype("int64")
    if kd == "int32":
        return (codes * 3 - 2).astype("int32")
    if kd == "bool":
        return codes % 2 == 1
    if kd in ("Int64", "UInt8", "Float64", "boolean"):
        vals = {"Int64": codes * 3 - 2, "UInt8": codes % 250, "Float64": (codes * 3 - 2) * 0.5, "boolean": codes % 2 == 1}[kd]
        v = pd.array(vals, dtype=kd)
        if n:
            v[na_mask] = pd.NA
        return v
    if kd == "float":
        v = (codes * 3 - 2).astype("float64")
        v[na_mask] = np.nan
        return v
    if kd == "str":
        v = np.array(["k%02d" % c for c in codes], dtype=object)
        v[na_mask] = None
        return pd.array(v, dtype="str") if n else pd.array([], dtype="str")
    if kd == "dt":
        return pd.to_datetime("2020-01-01") + pd.to_timedelta(codes, unit="D")
    if kd == "cat":
        cats = ["c%02d" % c for c in range(universe + shift + 1)]
        v = np.array(["c%02d" % c for c in codes], dtype=object)
        v[na_mask] = None
        return pd.Categorical(v, categories=cats)
    raise ValueError(kd)


def _merge_frames(case):
    """left and right pandas frames + the keyword dict shared by both sides."""
    import numpy as np
    import pandas as pd

    from vf.gen import frames

    form, kd = case["form"], case["kd"]
    out = {}
    two = form in ("on2", "lr2")
    for side, n, seed in (("l", case["nl"], case["lseed"]), ("r", case["nr"], case["rseed"])):
        r = np.random.default_rng(seed)
        u = case["universe"]
        codes = r.integers(0, u, n) + (case["shift"] if side == "r" else 0)
        na = (r.random(n) < 0.2) if case["nakeys"] else np.zeros(n, dtype=bool)
        if kd == "intfloat" and side == "l" or kd == "floatint" and side == "r" or kd == "Int64int" and side == "r":
            na = np.zeros(n, dtype=bool)
        data = {"k": _key_values(codes, kd, side, na, u, case["shift"])}
        if two:
            k2 = case.get("k2", "str")
            c2 = r.integers(0, 2, n)
            na2 = (r.random(n) < 0.15) if (case["nakeys"] and k2 != "bool") else np.zeros(n, dtype=bool)
            if k2 == "str":
                s2 = np.array(["p", "q"], dtype=object)[c2] if n else np.array([], dtype=object)
                s2[na2] = None
                data["s"] = pd.array(s2, dtype="str")
            else:
                data["s"] = _key_values(c2, k2, side, na2, 2, 0)
        data["v"] = np.round(r.normal(size=n), 2)
        if side == "l":
            data["x"] = np.arange(n, dtype="int64")
        else:
            data["y"] = pd.array(["r%d" % i for i in range(n)], dtype="str")
        df = pd.DataFrame(data)
        ikind = case["lindex"] if side == "l" else case["rindex"]
        df.index = frames.make_index(r, n, ikind)
        out[side] = df
    L, R = out["l"], out["r"]
    kw = {"how": case["how"]}
    use_l_index = form in ("ii", "ic", "oi")
    use_r_index = form in ("ii", "ci", "oi")
    iname = {"ii": None, "ci": "rkey", "ic": "lkey", "oi": "k"}.get(form)

    def to_index(df, name):
        df = df.set_index("k")
        df.index.name = name
        if case["ksort"]:
            df = df.iloc[np.argsort(_sortcodes(df.index), kind="stable")]
        return df

    if use_l_index:
        L = to_index(L, iname if form != "ii" else case.get("liname"))
    if use_r_index:
        R = to_index(R, iname if form != "ii" else case.get("riname"))
    if form == "on":
        kw["on"] = "k"
    elif form == "on2":
        kw["on"] = ["k", "s"]
    elif form == "lr":
        R = R.rename(columns={"k": "rk"})
        kw.update(left_on="k", right_on="rk")
    elif form == "lr2":
        R = R.rename(columns={"k": "rk", "s": "rs"})
        kw.update(left_on=["k", "s"], right_on=["rk", "rs"])
    elif form == "ii":
        kw.update(left_index=True, right_index=True)
    elif form == "ci":
        kw.update(left_on="k", right_index=True)
    elif form == "ic":
        kw.update(left_index=True, right_on="k")
    elif form == "oi":
        kw["on"] = "k"
    elif form == "none":
        L = L.drop(columns=["v"])
    kw["suffixes"] = tuple(case["suffixes"])
    if case["indicator"]:
        kw["indicator"] = case["indicator"]
    return L, R, kw


def _chain_frame(case):
    import numpy as np
    import pandas as pd

    ch = case["chain"]
    r = np.random.default_rng(ch["seed"])
    n = ch["n"]
    codes = r.integers(0, case["universe"], n) + r.integers(0, 2)
    kd = case["kd"]
    data = {"k": _key_values(codes, {"floatint": "int", "intfloat": "float", "int32int64": "int", "Int64int": "Int64"}.get(kd, kd), "l",
                             np.zeros(n, dtype=bool), case["universe"], case["shift"]),
            "z": np.arange(n, dtype="int64") * 10}
    return pd.DataFrame(data)


def _sortcodes(idx):
    """sortable codes of an index (NA last)."""
    import numpy as np
    import pandas as pd

    s = pd.Series(idx)
    if isinstance(s.dtype, pd.CategoricalDtype):
        s = s.astype(object)
    return s.rank(method="dense", na_option="bottom").to_numpy()


def _key_tuples(df, keys):
    import pandas as pd

    cols = []
    for k in keys:
        v = df.index if k == "@index" else df[k]
        v = pd.Series(v).astype(object).tolist()
        cols.append(["<NA>" if (x is None or x is pd.NaT or (isinstance(x, float) and x != x) or x is pd.NA) else x for x in v])
    return list(zip(*cols)) if cols else []


def _leftsemi_reference(L, R, kw):
    """rows of L whose key tuple occurs in R (NA keys match NA keys, as in every pandas merge); left columns only."""
    import numpy as np

    if kw.get("left_index"):
        lk = ["@index"]
    else:
        lk = kw.get("left_on", kw.get("on"))
        lk = lk if isinstance(lk, list) else [lk]
    rk = kw.get("right_on", kw.get("on"))
    rk = rk if isinstance(rk, list) else [rk]
    if lk == [None]:
        lk = rk = [c for c in L.columns if c in R.columns]
    have = set(_key_tuples(R, rk))
    mask = np.array([t in have for t in _key_tuples(L, lk)], dtype=bool)
    return L[mask] if len(L) else L


# ---------------------------------------------------------------------------
# comparison helpers


def _short(x):
    try:
        return x.head(14).to_string()[:900]
    except Exception:  # noqa: BLE001
        return repr(x)[:300]


def _root(ex):
    """innermost exception of the chain that was raised inside dask (``Expr.__getattr__`` wraps metadata errors)."""
    from vf.core.ctx import dask_frame

    best, e, seen = ex, ex, 0
    while e is not None and seen < 6:
        if dask_frame(e) is not None:
            best = e
        e = e.__cause__ or e.__context__
        seen += 1
    return best


def _plan_bj(coll):
    """class names of the lowered plan + (left count, right count, broadcast side) of its BroadcastJoin node."""
    try:
        nodes = list(coll.optimize(fuse=False).expr.walk())
    except Exception:  # noqa: BLE001  (observability only; compute decides)
        return [], None
    bj = None
    for x in nodes:
        if type(x).__name__ == "BroadcastJoin":
            try:
                bj = (x.left.npartitions, x.right.npartitions, x.broadcast_side)
            except Exception:  # noqa: BLE001
                bj = None
    return sorted({type(x).__name__ for x in nodes}), bj


def _plan(coll):
    try:
        return sorted({type(x).__name__ for x in coll.optimize(fuse=False).expr.walk()})
    except Exception:  # noqa: BLE001  (observability only; compute decides)
        return []


def _has_empty_partition(desc, n, ddf):
    if desc.get("how") in ("slices", "delayed"):
        cuts = sorted(min(max(0, c), n) for c in desc.get("cuts", []))
        b = [0] + cuts + [n]
        return any(y == x for x, y in zip(b[:-1], b[1:]))
    return n < getattr(ddf, "npartitions", 1)


def _judge(ctx, facet, pred, result, expected, check_index, ordered, rtol=1e-9, detail=None):
    """staged comparison; returns the list of symptoms reported."""
    from vf.gen import frames

    detail = dict(detail or {})
    symptoms = []

    def report(symptom, msg):
        p = pred(symptom, result=result, expected=expected)
        if p != "other" and symptom in ("length", "values"):
            symptom = "rows"            # one mechanism, one label: lost/duplicated/NaN-filled rows
        symptoms.append(symptom)
        ctx.violation("%s:%s:%s" % (facet, p, symptom), msg, got=_short(result), expected=_short(expected), **detail)

    # 1 -- kind, columns, length, rows as a multiset (dtypes apart)
    m = frames.compare(result, expected, ordered=False, rtol=rtol, check_index=check_index, check_dtype=False)
    if m is not None:
        sym = m[0]
        if sym in ("values", "index"):
            # which of the two: rows or their labels?  (the shared classifier keys on the word "index")
            sym = "values"
            if check_index and frames.compare(result, expected, ordered=False, rtol=rtol, check_index=False, check_dtype=False) is None:
                sym = "index"
                if frames.compare(result, expected, ordered=False, rtol=rtol, check_index=True, check_dtype=False, check_names=False) is None:
                    sym = "index-name"
        report(sym, m[1])
        if pred(sym, result=result, expected=expected) != "other" or sym in ("kind", "columns"):
            return symptoms
    # 2 -- dtypes
    md = frames.compare(result.iloc[:0], expected.iloc[:0], ordered=True, check_index=False, check_dtype=True) \
        if list(getattr(result, "columns", [])) == list(getattr(expected, "columns", [])) and type(result) is type(expected) else None
    if md is not None and md[0] == "dtype":
        report("dtype", md[1])
    if m is not None:
        return symptoms
    if ordered == "sorted-by-index":
        # index joins with known divisions: the promise is "sorted by the index" (pandas orders the rows of a
        # many-to-many index join by an algorithm of its own, which no partition-wise execution can reproduce)
        if expected.index.is_monotonic_increasing:
            ctx.count("cmp_ordered")
            if not result.index.is_monotonic_increasing:
                report("order", "pandas result is sorted by the index, the dask result is not: %s" % list(result.index[:30]))
    elif ordered:
        ctx.count("cmp_ordered")
        m = frames.compare(result, expected, ordered=True, rtol=rtol, check_index=check_index, check_dtype=False)
        if m is not None:
            report("order", m[1])
    return symptoms


# ---------------------------------------------------------------------------
# merge


def _merge_features(case, L, R, lddf, rddf, plan, kw):
    import pandas as pd

    f = {"form": case["form"], "how": case["how"], "kd": case["kd"], "api": case["api"]}
    f["plan"] = plan
    f["broadcast-join"] = "BroadcastJoin" in plan
    f["shuffle"] = "TaskShuffle" in plan and "tasks" or ("DiskShuffle" in plan and "disk") or None
    f["repartition"] = any(p.startswith("Repartition") for p in plan)
    f["nl"], f["nr"] = lddf.npartitions, getattr(rddf, "npartitions", 1)
    f["known-l"], f["known-r"] = bool(lddf.known_divisions), bool(getattr(rddf, "known_divisions", True))
    f["rows"] = (len(L), len(R))
    lk = _lkeys(kw, L, R)
    rk = _rkeys(kw, L, R)
    lt, rt = _key_tuples(L, lk), _key_tuples(R, rk)
    f["na-keys-l"] = any("<NA>" in t for t in lt)
    f["na-keys-r"] = any("<NA>" in t for t in rt)
    f["dup-keys-l"] = len(set(lt)) < len(lt)
    f["dup-keys-r"] = len(set(rt)) < len(rt)
    f["many-to-many"] = bool({t for t in lt if lt.count(t) > 1} & {t for t in rt if rt.count(t) > 1}) if len(lt) * len(rt) < 4000 else None
    f["keys-only-l"] = bool(set(lt) - set(rt))
    f["keys-only-r"] = bool(set(rt) - set(lt))
    f["indicator"] = bool(case["indicator"])
    f["suffixes"] = case["suffixes"]
    f["npart-arg"] = case["npart"]
    f["broadcast-arg"] = case["broadcast"]
    f["shuffle-arg"] = case["shuffle"]
    f["empty-partition-l"] = _has_empty_partition(case["lpart"], len(L), lddf)
    f["empty-partition-r"] = _has_empty_partition(case["rpart"], len(R), rddf) if hasattr(rddf, "npartitions") else False
    f["right-is-pandas"] = isinstance(rddf, pd.DataFrame)
    f["chain"] = case.get("chain", {}).get("how")
    kdt = [df[c].dtype for df, ks in ((L, lk), (R, rk)) for c in ks if c != "@index"]
    f["key-dtypes"] = [str(d) for d in kdt]
    f["nullable-or-bool-key"] = any(str(d) == "bool" or (pd.api.types.is_extension_array_dtype(d) and
                                                          (pd.api.types.is_numeric_dtype(d) or str(d) == "boolean")) for d in kdt)
    f["broadcast-join-partition-counts"] = case.get("_bj")
    return f


def _lkeys(kw, L, R):
    if kw.get("left_index"):
        return ["@index"]
    k = kw.get("left_on", kw.get("on"))
    if k is None:
        return [c for c in L.columns if c in R.columns]
    k = k if isinstance(k, list) else [k]
    return ["@index" if (x not in L.columns and x == L.index.name) else x for x in k]


def _rkeys(kw, L, R):
    if kw.get("right_index"):
        return ["@index"]
    k = kw.get("right_on", kw.get("on"))
    if k is None:
        return [c for c in L.columns if c in R.columns]
    k = k if isinstance(k, list) else [k]
    return ["@index" if (x not in R.columns and x == R.index.name) else x for x in k]


def _only_null_fill_upcasts(result, expected):
    """every dtype difference is <numpy int or uint><->float64 or bool<->object: the upcast pandas applies when a
    join leaves holes, decided on the whole frame by pandas and per partition by dask."""
    ints = ["%s%d" % (k, b) for k in ("int", "uint") for b in (8, 16, 32, 64)]
    pairs = {(i, "float64") for i in ints} | {("float64", i) for i in ints} | {("bool", "object"), ("object", "bool")}
    try:
        diffs = [(str(a), str(b)) for a, b in zip(result.dtypes, expected.dtypes) if str(a) != str(b)]
    except Exception:  # noqa: BLE001
        return False
    diffs = [d for d in diffs if not (set(d) <= {"object", "str", "string"})]
    return bool(diffs) and all(d in pairs for d in diffs)


def _merge_pred(case, f):
    how, form, kd = case["how"], case["form"], case["kd"]

    def pred(symptom, exc=None, result=None, expected=None):
        if symptom == "dtype" and result is not None and _only_null_fill_upcasts(result, expected):
            return "null-fill-upcast-decided-per-partition"
        if exc is not None and form in ("ci", "ic") and kd == "dt" and "Cannot cast DatetimeIndex" in str(exc):
            return "column-index&datetime-key&how-keeps-index-side-rows"
        if exc is not None and type(exc).__name__ == "AssertionError" and f.get("broadcast-join") and case["npart"] is not None \
                and case.get("_bj") and case["npart"] not in case["_bj"][:2]:
            # Merge._lower repartitions the non-broadcast side with Repartition(new_partitions=npartitions); on known
            # divisions with few distinct index values the lowered Repartition has fewer partitions than the abstract
            # one announces (DESIGN 6 #23, C41's subject); compute()'s final repartition then trips over the count
            return "broadcast-join&npartitions-arg&repartition-announces-more-partitions-than-it-makes"
        if exc is not None and case.get("chain") and f.get("broadcast-join") and "Missing dependency" in str(exc):
            # the second merge trusts Merge._npartitions / the claimed partitioning of the broadcast join
            return "broadcast-join-then-merge-on-same-key"
        nl, nr, npart = f.get("nl", 0), f.get("nr", 0), case["npart"]
        bside = "left" if nl < nr else "right"
        flipped = False
        if f.get("broadcast-join") and npart is not None and case.get("_bj"):
            # Merge._lower repartitions the non-broadcast side to ``npartitions`` (Repartition may give fewer than
            # asked); the side the BroadcastJoin node really uses is read from the lowered plan
            bside2 = case["_bj"][2]
            flipped, bside = bside2 != bside, bside2
        # (``on=<index name>`` reaches the split as a name and is resolved there; left_index/right_index arrive as None)
        other_on_index = form == "ii" or (form == "ic" and bside == "right") or (form == "ci" and bside == "left")
        if how == "leftsemi" and form == "ic":
            return "leftsemi&left_index"
        if f.get("right-is-pandas") and form == "ic":
            return "right-operand-is-pandas&left_index&right_on"
        if f.get("broadcast-join") and how != "inner" and other_on_index:
            return "broadcast-join&how!=inner&non-broadcast-side-joined-on-index"
        if flipped:
            return "broadcast-join&npartitions-arg-flips-broadcast-side"
        if how == "leftsemi" and f.get("broadcast-join") and bside == "left":
            return "leftsemi&broadcast-join&left-side-broadcast"
        if form in ("ci", "ic") and kd == "dt" and how in ("outer", "right" if form == "ci" else "left"):
            return "column-index&datetime-key&how-keeps-index-side-rows"
        if case.get("chain") and f.get("broadcast-join"):
            return "broadcast-join-then-merge-on-same-key"
        return "other"
    return pred


def _run_merge(case, ctx):
    import pandas as pd

    from vf.gen import frames

    dd = frames.setup()
    L, R, kw = _merge_frames(case)
    how, api, form = case["how"], case["api"], case["form"]
    ctx.op("merge:how=" + how)
    ctx.op("merge:form=" + form)
    ctx.op("merge:api=" + api)
    ctx.op("merge:kd=" + case["kd"])
    if form in ("on2", "lr2"):
        ctx.op("merge:k2=" + case.get("k2", "str"))
    # ---- reference --------------------------------------------------------------------------
    try:
        if how == "leftsemi":
            expected = _leftsemi_reference(L, R, kw)
        elif api == "join":
            expected = L.join(R, on=kw.get("left_on"), how=how, lsuffix=kw["suffixes"][0], rsuffix=kw["suffixes"][1])
        elif api == "dd.merge":
            expected = pd.merge(L, R, **kw)
        else:
            expected = L.merge(R, **kw)
        if case.get("chain"):
            R2 = _chain_frame(case)
            expected = expected.merge(R2, on="k", how=case["chain"]["how"])
    except Exception as ex:  # noqa: BLE001
        ctx.reject("pandas: %s: %s" % (type(ex).__name__, ex))
        return
    # ---- dask ----------------------------------------------------------------------------------
    try:
        lddf = frames.partition(L, case["lpart"])
        rddf = R if case.get("rpandas") else frames.partition(R, case["rpart"])
    except NotImplementedError as ex:
        ctx.unsupported("from_pandas: %s" % ex)
        return
    except Exception as ex:  # noqa: BLE001
        ctx.exception(ex, prefix="merge:partition")
        return
    dkw = dict(kw)
    extra = {}
    if case["shuffle"] is not None:
        extra["shuffle_method"] = case["shuffle"]
    if case["npart"] is not None:
        extra["npartitions"] = case["npart"]
    plan = []
    try:
        if api == "join":
            coll = lddf.join(rddf, on=kw.get("left_on"), how=how, lsuffix=kw["suffixes"][0], rsuffix=kw["suffixes"][1], **extra)
        else:
            if case["broadcast"] is not None:
                extra["broadcast"] = case["broadcast"]
            coll = dd.merge(lddf, rddf, **dkw, **extra) if api == "dd.merge" else lddf.merge(rddf, **dkw, **extra)
        if case.get("chain"):
            ch = case["chain"]
            coll = coll.merge(frames.partition(R2, ch["part"]), on="k", how=ch["how"],
                              **({"shuffle_method": ch["shuffle"]} if ch["shuffle"] else {}))
        plan, bj = _plan_bj(coll)
        case = dict(case, _bj=bj)
        result = coll.compute(scheduler="sync")
    except NotImplementedError as ex:
        ctx.unsupported("merge: %s" % ex)
        return
    except Exception as ex:  # noqa: BLE001
        f = _merge_features(case, L, R, lddf, rddf, plan, kw)
        ctx.exception(_root(ex), prefix="merge:%s" % _merge_pred(case, f)("exception", _root(ex)), features=f, kw=repr(kw), extra=extra)
        return
    f = _merge_features(case, L, R, lddf, rddf, plan, kw)
    both_index = bool(kw.get("left_index") and kw.get("right_index")) or form == "oi"
    ordered = "sorted-by-index" if (both_index and f["known-l"] and f["known-r"] and how in ("left", "right", "outer")
                                    and f["many-to-many"] is False) else False
    ctx.count("merge_compared")
    ctx.count("merge_how_" + how)
    if f["broadcast-join"]:
        ctx.count("plan_broadcast_join")
    elif f["shuffle"]:
        ctx.count("plan_hash_join_" + f["shuffle"])
    elif f["repartition"]:
        ctx.count("plan_indexed_repartition")
    else:
        ctx.count("plan_blockwise_only")
    if f["na-keys-l"] or f["na-keys-r"]:
        ctx.count("merge_na_keys")
    if f["many-to-many"]:
        ctx.count("merge_many_to_many")
    if f["empty-partition-l"] or f["empty-partition-r"]:
        ctx.count("merge_empty_partition")
    if not (f["known-l"] and f["known-r"]):
        ctx.count("merge_unknown_divisions")
    if case["kd"] in ("intfloat", "floatint"):
        ctx.count("merge_int_float_keys")
    if f["nullable-or-bool-key"]:
        ctx.count("merge_nullable_or_bool_key")
        bj = case.get("_bj")
        if f["broadcast-join"] and how != "inner" and bj and (bj[0] if bj[2] == "left" else bj[1]) >= 2:
            ctx.count("broadcast-join&nullable-or-bool-key")
    if case["kd"] == "int32int64":
        ctx.count("merge_int32_int64_keys")
    if form in ("on2", "lr2") and case.get("k2", "str") != "str":
        ctx.count("merge_mixed_multi_key")
    if case["indicator"]:
        ctx.count("merge_indicator")
    if case.get("chain"):
        ctx.count("merge_chained")
    ctx.distinct("merge_plans", plan)
    ctx.distinct("merge_programs", (form, how, case["kd"], api, case["suffixes"], bool(case["indicator"]),
                                    case["broadcast"], case["shuffle"], case["npart"]))
    ctx.nontrivial = len(L) >= 2 and len(R) >= 2 and len(expected) >= 1 and max(f["nl"], f["nr"]) >= 2
    ctx.sig = {k: v for k, v in case.items() if k not in ("space", "_bj")}
    _judge(ctx, "merge", _merge_pred(case, f), result, expected, check_index=both_index, ordered=ordered,
           detail={"features": f, "kw": repr(kw), "extra": extra})
    ctx.sample = {"facet": "merge", "form": form, "how": how, "kd": case["kd"], "rows": [len(L), len(R), len(expected)],
                  "npartitions": [f["nl"], f["nr"]], "plan": [p for p in plan if "Join" in p or "Shuffle" in p or "Merge" in p],
                  "ordered": bool(ordered)}


# ---------------------------------------------------------------------------
# merge_asof


def _asof_frames(case):
    import numpy as np
    import pandas as pd

    kd = case["kd"]
    out = {}
    for side, n, seed in (("l", case["nl"], case["lseed"]), ("r", case["nr"], case["rseed"])):
        r = np.random.default_rng(seed)
        hi = max(2, case["span"] * max(case["nl"], case["nr"]))
        if case["dups"]:
            codes = np.sort(r.integers(0, hi, n))
        else:
            codes = np.sort(r.choice(np.arange(hi + n), n, replace=False)) if n else np.array([], dtype="int64")
        if kd == "int":
            key = codes.astype("int64")
        elif kd == "float":
            key = codes.astype("float64") * 0.5
        else:
            key = pd.to_datetime("2021-01-01") + pd.to_timedelta(codes, unit="s")
        data = {"t": key, "g": r.integers(0, 3, n).astype("int64"),
                "h": pd.array(r.choice(["u", "w"], n) if n else [], dtype="str"),
                "v": np.round(r.normal(size=n), 2)}
        data["x" if side == "l" else "y"] = np.arange(n, dtype="int64") + (0 if side == "l" else 100)
        out[side] = pd.DataFrame(data)
    L, R = out["l"], out["r"]
    form = case["form"]
    kw = {}
    if form == "on":
        kw["on"] = "t"
    elif form == "lr":
        R = R.rename(columns={"t": "rt"})
        kw.update(left_on="t", right_on="rt")
    elif form == "index":
        L, R = L.set_index("t"), R.set_index("t")
        kw.update(left_index=True, right_index=True)
    elif form == "on+rindex":
        R = R.set_index("t")
        kw.update(left_on="t", right_index=True)
    if case["by"] is not None:
        kw["by"] = case["by"]
    tol = case["tolerance"]
    if tol is not None:
        kw["tolerance"] = pd.Timedelta(seconds=tol) if kd == "dt" else tol
    kw["allow_exact_matches"] = case["allow_exact"]
    kw["direction"] = case["direction"]
    kw["suffixes"] = tuple(case["suffixes"])
    return L, R, kw


def _asof_pred(case, f):
    def pred(symptom, exc=None, result=None, expected=None):
        return "other"
    return pred


def _run_asof(case, ctx):
    import pandas as pd

    from vf.gen import frames

    dd = frames.setup()
    L, R, kw = _asof_frames(case)
    ctx.op("asof:direction=" + case["direction"])
    ctx.op("asof:form=" + case["form"])
    try:
        expected = pd.merge_asof(L, R, **kw)
    except Exception as ex:  # noqa: BLE001
        ctx.reject("pandas: %s: %s" % (type(ex).__name__, ex))
        return
    plan = []
    try:
        lddf = frames.partition(L, case["lpart"])
        rddf = frames.partition(R, case["rpart"])
        coll = dd.merge_asof(lddf, rddf, **kw)
        plan = _plan(coll)
        result = coll.compute(scheduler="sync")
    except NotImplementedError as ex:
        ctx.unsupported("merge_asof: %s" % ex)
        return
    except Exception as ex:  # noqa: BLE001
        ctx.exception(_root(ex), prefix="asof:%s" % _asof_pred(case, {})("exception"), kw=repr(kw), case_=case)
        return
    f = {"form": case["form"], "kd": case["kd"], "by": case["by"], "direction": case["direction"], "tolerance": case["tolerance"],
         "allow_exact": case["allow_exact"], "nl": lddf.npartitions, "nr": rddf.npartitions, "plan": plan,
         "dup-keys-l": bool(_keycol(L).duplicated().any()), "dup-keys-r": bool(_keycol(R).duplicated().any()), "rows": (len(L), len(R))}
    ctx.count("asof_compared")
    ctx.count("asof_" + case["direction"])
    if case["tolerance"] is not None:
        ctx.count("asof_tolerance")
    if case["by"] is not None:
        ctx.count("asof_by")
    if f["nl"] > 1 and f["nr"] > 1:
        ctx.count("asof_both_multi_partition")
    ctx.distinct("asof_programs", (case["form"], case["kd"], case["by"], case["direction"], case["tolerance"], case["allow_exact"]))
    ctx.nontrivial = len(L) >= 2 and len(R) >= 2 and max(f["nl"], f["nr"]) >= 2
    ctx.sig = case
    index_form = case["form"] in ("index", "on+rindex")
    _judge(ctx, "asof", _asof_pred(case, f), result, expected, check_index=index_form, ordered=True,
           detail={"features": f, "kw": repr(kw)})
    ctx.sample = {"facet": "asof", "form": case["form"], "direction": case["direction"], "rows": [len(L), len(R)],
                  "npartitions": [f["nl"], f["nr"]], "matched": int(expected["y"].notna().sum()) if "y" in expected else None}


def _keycol(df):
    import pandas as pd

    for c in ("t", "rt"):
        if c in df.columns:
            return df[c]
    return pd.Series(df.index)


# ---------------------------------------------------------------------------
# concat


def _concat0_inputs(case):
    import pandas as pd

    from vf.gen import frames

    objs = []
    offset = None
    for fd in case["frames"]:
        cols = tuple(fd["cols"])
        df = frames.rand_frame(fd["seed"], nrows=fd["nrows"], index=fd["index"], cols=cols)
        if case["stacked"] and len(df):
            if offset is not None:
                df.index = _shift_index(df.index, offset)
            offset = df.index.max()
        elif case["stacked"]:
            pass
        obj = df
        if fd["kind"] == "series":
            obj = df[cols[0]]
            if fd["sname"] != "keep":
                obj = obj.rename(fd["sname"])
        objs.append(obj)
    return objs


def _shift_index(idx, last):
    """move an index strictly above ``last`` (same type)."""
    import pandas as pd

    if len(idx) == 0:
        return idx
    lo = idx.min()
    if isinstance(idx, pd.DatetimeIndex):
        return idx + ((last - lo) + pd.Timedelta(minutes=1))
    if str(idx.dtype) in ("str", "string", "object"):
        return pd.Index(["%s~%s" % (last, v) for v in idx], dtype=idx.dtype, name=idx.name)
    out = idx + ((last - lo) + 1)
    out.name = idx.name
    return out


def _concat_pred(case, f):
    fds = case["frames"]

    def pred(symptom, exc=None, result=None, expected=None):
        if case["facet"] == "concat0":
            cat = [fd["kind"] == "frame" and "k" in fd["cols"] for fd in fds]
            if any(cat) and any(fd["kind"] == "series" for fd in fds) and not all(fd["kind"] == "series" for fd in fds):
                return "categorical-column&series-input"
            if cat[0] and any(set(fd["cols"]) != set(fds[0]["cols"]) for fd in fds[1:]):
                return "first-frame-has-categorical-column&inputs-have-different-columns"
            if symptom in ("name", "index-name") and 0 in f.get("rows", ()) and len(set(f.get("names" if symptom == "name" else "index-names", ()))) > 1:
                return "an-input-is-empty&names-differ"
            if symptom == "dtype" and 0 in f.get("rows", ()) and all(k == "series" for k in f.get("kinds", ())) \
                    and len(set(f.get("series-dtypes", ()))) > 1:
                return "an-input-is-empty&series-dtypes-differ"
        return "other"
    return pred


def _run_concat0(case, ctx):
    import pandas as pd

    from vf.gen import frames

    dd = frames.setup()
    objs = _concat0_inputs(case)
    ctx.op("concat0:join=" + case["join"])
    ctx.op("concat0:interleave=%s" % case["interleave"])
    try:
        expected = pd.concat(objs, axis=0, join=case["join"])
    except Exception as ex:  # noqa: BLE001
        ctx.reject("pandas: %s: %s" % (type(ex).__name__, ex))
        return
    plan = []
    kw = {"join": case["join"]}
    if case["interleave"]:
        kw["interleave_partitions"] = True
    if case["ignore_unknown"]:
        kw["ignore_unknown_divisions"] = True
    try:
        dobjs = [frames.partition(o, p) for o, p in zip(objs, case["parts"])]
        coll = dd.concat(dobjs, axis=0, **kw)
        plan = _plan(coll)
        known_out = bool(coll.known_divisions)
        result = coll.compute(scheduler="sync")
    except NotImplementedError as ex:
        ctx.unsupported("concat: %s" % ex)
        return
    except Exception as ex:  # noqa: BLE001
        ctx.exception(_root(ex), prefix="concat0:%s" % _concat_pred(case, {})("exception"), kw=kw, case_=case)
        return
    interleaved = "StackPartitionInterleaved" in plan
    f = {"join": case["join"], "interleave": case["interleave"], "interleaved-plan": interleaved, "stacked": case["stacked"],
         "kinds": [fd["kind"] for fd in case["frames"]], "cols": [fd["cols"] for fd in case["frames"]],
         "known": [bool(d.known_divisions) for d in dobjs], "npartitions": [d.npartitions for d in dobjs],
         "rows": [len(o) for o in objs], "known-out": known_out, "plan": plan, "fam": case["fam"],
         "names": [repr(getattr(o, "name", "<frame>")) for o in objs], "index-names": [repr(o.index.name) for o in objs],
         "series-dtypes": [str(getattr(o, "dtype", "<frame>")) for o in objs]}
    ctx.count("concat0_compared")
    ctx.count("concat0_interleaved_plan" if interleaved else "concat0_stacked_plan")
    if known_out:
        ctx.count("concat0_known_divisions_out")
    if "series" in f["kinds"]:
        ctx.count("concat_series_inputs")
    if len({tuple(c) for c in f["cols"]}) > 1:
        ctx.count("concat0_different_columns")
    ctx.distinct("concat_programs", ("0", case["join"], case["interleave"], f["kinds"], f["cols"], f["known"]))
    ctx.nontrivial = sum(1 for o in objs if len(o)) >= 2 and sum(f["npartitions"]) >= 3
    ctx.sig = case
    _judge(ctx, "concat0", _concat_pred(case, f), result, expected, check_index=True, ordered=not interleaved,
           detail={"features": f, "kw": kw})
    ctx.sample = {"facet": "concat0", "rows": f["rows"], "npartitions": f["npartitions"], "known": f["known"],
                  "interleaved": interleaved, "join": case["join"]}


def _concat1_inputs(case):
    import numpy as np

    from vf.gen import frames

    base = frames.rand_frame(case["seed"], nrows=case["nrows"], index=case["index"], cols="wide")
    objs = []
    for i, fd in enumerate(case["frames"]):
        df = base[list(fd["cols"])]
        if fd["rowsel"] is not None and len(df):
            r = np.random.default_rng(fd["rowsel"])
            df = df[r.random(len(df)) < 0.7]
        df = df.rename(columns={c: "%s%d" % (c, i) for c in df.columns})
        objs.append(df if fd["kind"] == "frame" else df.iloc[:, 0])
    return objs


def _run_concat1(case, ctx):
    import pandas as pd

    from vf.gen import frames

    dd = frames.setup()
    objs = _concat1_inputs(case)
    ctx.op("concat1:mode=" + case["mode"])
    ctx.op("concat1:join=" + case["join"])
    try:
        expected = pd.concat(objs, axis=1, join=case["join"])
    except Exception as ex:  # noqa: BLE001
        ctx.reject("pandas: %s: %s" % (type(ex).__name__, ex))
        return
    kw = {"join": case["join"]}
    if case["ignore_unknown"]:
        kw["ignore_unknown_divisions"] = True
    plan = []
    try:
        dobjs = [frames.partition(o, p) for o, p in zip(objs, case["parts"])]
        if case["mode"] == "known" and not all(d.known_divisions for d in dobjs):
            ctx.reject("index not sorted: divisions unknown")
            return
        with warnings.catch_warnings(record=True) as wlist:
            warnings.simplefilter("always")
            coll = dd.concat(dobjs, axis=1, **kw)
            plan = _plan(coll)
            known_out = bool(coll.known_divisions)
            result = coll.compute(scheduler="sync")
    except NotImplementedError as ex:
        ctx.unsupported("concat: %s" % ex)
        return
    except Exception as ex:  # noqa: BLE001
        ctx.exception(_root(ex), prefix="concat1:%s" % _concat_pred(case, {})("exception"), kw=kw, case_=case)
        return
    same = all(o.index.equals(objs[0].index) for o in objs)
    f = {"join": case["join"], "mode": case["mode"], "kinds": [fd["kind"] for fd in case["frames"]], "same-index": same,
         "known": [bool(d.known_divisions) for d in dobjs], "npartitions": [d.npartitions for d in dobjs],
         "rows": [len(o) for o in objs], "plan": plan, "index": case["index"], "known-out": known_out,
         "unique-index": bool(objs[0].index.is_unique)}
    ctx.count("concat1_compared")
    ctx.count("concat1_" + case["mode"].replace("-", "_"))
    if any("Repartition" in p for p in plan):
        ctx.count("concat1_repartitioned")
    if case["mode"] != "known" and any("unknown divisions" in str(w.message) for w in wlist):
        ctx.count("concat1_unknown_divisions_warning")
    if "series" in f["kinds"]:
        ctx.count("concat_series_inputs")
    ctx.distinct("concat_programs", ("1", case["join"], case["mode"], f["kinds"], [fd["cols"] for fd in case["frames"]], same))
    ctx.nontrivial = len(expected) >= 2 and max(f["npartitions"]) >= 2
    ctx.sig = case
    _judge(ctx, "concat1", _concat_pred(case, f), result, expected, check_index=True, ordered=same,
           detail={"features": f, "kw": kw})
    ctx.sample = {"facet": "concat1", "rows": f["rows"], "npartitions": f["npartitions"], "mode": case["mode"], "same_index": same}


# ---------------------------------------------------------------------------


def run_case(case, ctx):
    from vf.gen import frames

    frames.setup()
    warnings.simplefilter("ignore")
    facet = case["facet"]
    ctx.op("facet:" + facet)
    nv = len(ctx.violations)
    try:
        if facet == "merge":
            _run_merge(case, ctx)
        elif facet == "asof":
            _run_asof(case, ctx)
        elif facet == "concat0":
            _run_concat0(case, ctx)
        else:
            _run_concat1(case, ctx)
    except Exception as ex:  # noqa: BLE001
        from vf.core.ctx import dask_frame

        if dask_frame(ex) is not None:
            raise
        # a comparison step that cannot be carried out is reported as a mismatch of its own, never as a harness error
        if len(ctx.violations) == nv:
            ctx.violation("%s:other:uncomparable" % facet, "%s: %s" % (type(ex).__name__, ex))


RULE = ("cases = one description per program: merge (frame seeds/rows, key dtype int/str/float/categorical/datetime/"
        "int-vs-float, key universe and shift [duplicates, keys missing on either side], NA keys, key form [on 1-2 columns, "
        "left_on/right_on, both indexes, column-index, on=<index name>, default keys], bool / nullable Int64, UInt8, "
        "Float64, boolean keys with pd.NA, int32-vs-int64 and Int64-vs-int64 keys, two-key lists with a str/bool/Int64/"
        "boolean second key, how incl. leftsemi, suffixes, "
        "indicator, api dd.merge/DataFrame.merge/DataFrame.join, broadcast None/True/False/float, shuffle_method "
        "None/tasks/disk, npartitions=, partitioning of both sides incl. empty partitions and unknown divisions, optional "
        "pandas right operand, optional second merge on the same key), merge_asof (key dtype, on/left_on+right_on/"
        "indexes/left_on+right_index, by, direction, tolerance, allow_exact_matches, duplicates, 1-6 partitions per side "
        "with known divisions), concat axis=0 (2-3 DataFrames/Series, column subsets, index family, stacked or overlapping "
        "divisions, join, interleave_partitions, ignore_unknown_divisions), concat axis=1 (known divisions with any "
        "partitioning, or unknown divisions with identical partitioning). First the complete product how x key form x "
        "{broadcast, hash-tasks, hash-disk} x partition counts x indicator on one fixed pair of frames and the complete "
        "product B (broadcast joins with a multi-partition broadcast side on bool/nullable keys), then seeded random "
        "cases. non-trivial = both inputs >= 2 rows, >= 1 result row, some input with >= 2 partitions; distinct = distinct "
        "description")
ASSUMPTIONS = [
    "pandas 3.0.5 on the same frames is the reference; its refusal (exception) removes the case",
    "how='leftsemi' has no pandas counterpart: reference = rows of left whose key tuple occurs in right (NA matches NA, as "
    "in every pandas merge), left columns only, written in the harness",
    "dask.dataframe is imported through the pyarrow import stub (pandas-backed strings, convert-string=False)",
    "scheduler='sync'; the distributed/p2p shuffle is not reachable in this environment (shuffle_method='p2p' excluded)",
    "how='cross', MultiIndex keys, DataFrame.join with a list of frames, Series/array-valued on= are not generated",
]
BUDGET = {"quick": 90, "thorough": 600}
_QF = {"merge_compared": 950, "plan_broadcast_join": 110, "plan_hash_join_disk": 400, "plan_hash_join_tasks": 220,
       "plan_indexed_repartition": 55, "plan_blockwise_only": 150, "merge_how_leftsemi": 80, "merge_how_outer": 220,
       "merge_na_keys": 85, "merge_many_to_many": 600, "merge_int_float_keys": 170, "merge_indicator": 400,
       "merge_empty_partition": 230, "merge_unknown_divisions": 600, "merge_chained": 70,
       "merge_nullable_or_bool_key": 360, "broadcast-join&nullable-or-bool-key": 150, "merge_mixed_multi_key": 150,
       "merge_int32_int64_keys": 45,
       "asof_compared": 200, "asof_tolerance": 90, "asof_by": 120, "asof_both_multi_partition": 150, "asof_nearest": 65,
       "asof_forward": 60, "asof_backward": 60,
       "concat0_compared": 240, "concat0_interleaved_plan": 18, "concat0_different_columns": 170,
       "concat1_compared": 130, "concat1_repartitioned": 95, "concat1_unknown_aligned": 30, "concat_series_inputs": 140,
       "cmp_ordered": 550}
FLOORS = {
    "quick": {"evaluations": 1600, "distinct_nontrivial": 1400, "counters": dict(_QF),
              "sets": {"merge_programs": 780, "merge_plans": 140, "asof_programs": 135, "concat_programs": 290},
              "max_skipped_fraction": 0.15},
    # thorough = the quick stream x 23 (+ a larger complete block); floors at ~8x the quick floors
    "thorough": {"evaluations": 13000, "distinct_nontrivial": 11000, "counters": {k: 8 * v for k, v in _QF.items()},
                 "sets": {"merge_programs": 5000, "merge_plans": 400, "asof_programs": 300, "concat_programs": 2000},
                 "max_skipped_fraction": 0.15},
}
EXHAUSTIVE_SPACE = {
    "quick": "fixed pair of frames (14 x 11 rows, int keys with duplicates and keys missing on both sides) x how in "
             "{inner,left,right,outer,leftsemi} x key form {on, index-index, column-index, index-column} x "
             "{broadcast=True, hash join tasks, hash join disk} x partition counts {(1,3),(3,1),(2,3),(3,2),(3,3)} x "
             "indicator {False,True} (leftsemi: forms on and index-column only, no indicator; index-column is "
             "NotImplementedError = unsupported once fixes_ready/C39_05 is applied); plus block B: fixed pair (30 x 24 rows) x key dtype {bool, Int64+NA, boolean+NA, Float64+NA, UInt8, Int64-vs-int64+NA} x how {left,right,leftsemi} x keys {on 1 column, on [key, bool flag], left_on/right_on [key, Int64 flag]} x 3 partition-count pairs that make the broadcast side multi-partition, broadcast=True",
    "thorough": "the same product with key forms {on, on 2 columns, left_on/right_on, index-index, column-index, "
                "index-column} and partition counts {(1,1),(1,3),(3,1),(2,3),(3,2),(3,3),(2,5)}; plus block B as in quick",
}
CASE_TIMEOUT = 90
CLAIM = ("Every generated merge / join / merge_asof / concat program was executed on the real dask.dataframe API "
         "(scheduler='sync') and on pandas, and the computed frame was compared with the pandas frame: column names and "
         "order, dtypes, and the rows as a multiset (index included for index joins, merge_asof on indexes and concat); row "
         "order where both promise it. Which join algorithm ran (BroadcastJoin, hash join over a task or disk shuffle, "
         "repartition of aligned divisions, single-partition blockwise) is read from the lowered expression and counted. "
         "Held means: no difference among the executions observed, apart from the mechanisms listed as known findings.")
LEVEL_NOTE = "trusts pandas as the reference, the harness' leftsemi reference and the shared comparison discipline of vf.gen.frames"
TECHNIQUE = "runtime monitoring: differential oracle against pandas (row multiset, dtypes, order where promised) on every computed join / concatenation; lowered plan observed"
PENDING = {
    # labels that remain after the proposed fixes (fixes_ready/C39_01..05): listed in known_findings.d/C39.json
    "merge:broadcast-join&how!=inner&non-broadcast-side-joined-on-index:ValueError@dataframe/backends.py:hash_object_pandas":
        "BroadcastJoin splits the non-broadcast side on left_on/right_on, which is None for left_index/right_index",
    "merge:broadcast-join&npartitions-arg&repartition-announces-more-partitions-than-it-makes:AssertionError@dataframe/dask_expr/_repartition.py:_partitions_boundaries":
        "Repartition(new_partitions=n) on known divisions with few distinct values lowers to fewer partitions than announced; "
        "compute() of the broadcast join asserts (repartition defect reached through merge(npartitions=))",
    "merge:right-operand-is-pandas&left_index&right_on:rows":
        "pandas right operand is turned into an index join: right_on column of left-only rows is NaN, pandas fills the key",
    "merge:null-fill-upcast-decided-per-partition:dtype":
        "int->float64 / bool->object upcast for holes is decided per partition; pandas decides on the whole frame",
    "concat0:first-frame-has-categorical-column&inputs-have-different-columns:columns":
        "concat_pandas takes cat_mask from the first frame only: columns of later frames dropped (outer) / categorical kept (inner)",
    "concat0:categorical-column&series-input:AttributeError@dataframe/backends.py:concat_pandas":
        "same branch assumes DataFrames: Series input next to a categorical column raises (at meta or compute time)",
    "concat0:an-input-is-empty&names-differ:name":
        "result assembly drops empty partitions: Series name of the non-empty inputs survives, pandas/_meta say None",
    "concat0:an-input-is-empty&names-differ:index-name":
        "same for the index name",
    "concat0:an-input-is-empty&series-dtypes-differ:dtype":
        "same assembly step: concat of Series only, the empty one has the wider dtype (float64 + int64): result keeps int64, "
        "pandas 3 / _meta say float64",
}
# fixed by fixes_ready/C39_01..05 (labels the predicates of _merge_pred still name, so that a regression is recognisable):
#   merge:broadcast-join-then-merge-on-same-key:rows / :ValueError@local.py:start_state_from_dask            (01)
#   merge:broadcast-join&npartitions-arg-flips-broadcast-side:rows                                          (02)
#   merge:leftsemi&broadcast-join&left-side-broadcast:rows                                                  (03)
#   merge:column-index&datetime-key&how-keeps-index-side-rows:TypeError@dataframe/multi.py:merge_chunk      (04)
#   merge:leftsemi&left_index:TypeError@dataframe/dask_expr/_collection.py:merge                            (05; now NotImplementedError -> unsupported)
