"""C30 — the array expression engine (array.query-planning) preserves array semantics.

Every shard process runs with DASK_ARRAY__QUERY_PLANNING=True (child_env below; shard_setup verifies that
`da.ones(2)` is a dask.array._array_expr._collection.Array, otherwise the run is a harness error -> inconclusive).
A case is a pipeline description in the JSON language of vf/gen/c30_pipeline.py, restricted to what the statement
lists: creation (from_array, ones, zeros, arange, linspace), elementwise (unary, scalar, array with broadcasting),
basic slicing (slices, integers, None), reductions (sum mean min max any all prod std var; axis, keepdims,
split_every), rechunk, concatenate/stack, map_blocks, transpose/T.  Each description is evaluated

1. by NumPy in-process (reference; NumPy raising -> rejected),
2. by the expression engine in-process, three ways: `x.compute()`, `x.optimize().compute()` and the UN-OPTIMISED lowered
   graph (`x.expr.lower_completely()` without simplify -> `__dask_graph__()`/`__dask_keys__()` -> dask.get ->
   blocks assembled with concatenate3),
3. by the CLASSIC engine in ONE helper subprocess per group of <= 200 cases of the shard
   (`python -m vf.props.c30_classic`, environment without DASK_ARRAY__QUERY_PLANNING; it refuses to run unless
   da.ones(2) is a dask.array.core.Array), which returns value, dtype, shape and chunks.

Compared: expression engine vs NumPy: values, dtype, shape (for all three evaluation routes) and the lazy
shape/dtype/chunks against the computed value; expression engine vs classic engine: values, dtype, shape and CHUNKS.
Values are compared exactly unless the pipeline contains an inexact floating step (linspace, mean/std/var, floating
prod), then with the reassociation tolerance 8*eps*n scaled by the largest intermediate magnitude; such pipelines never
contain comparisons or any/all afterwards (the generator tracks exactness).

On a mismatch the shortest failing prefix of the pipeline is searched (NumPy/expr in-process, classic through one more
helper call) and the label names the operation at the end of that prefix with the input features that select code
paths: `<pair>:<op>&<features>:<symptom>`, pair in expr-vs-numpy | expr-lazy | expr (exception) |
expr-optimize-vs-numpy | expr-lowered-unoptimized-vs-numpy | expr-lowered-blocks | expr-vs-classic.  The classic
comparison is made only when the expression engine agrees with NumPy (one mechanism, one label).  Every block of the
un-optimised lowered graph must have the shape `.chunks` declares.

Evidence: expression classes seen in the original, optimised and lowered expressions (distinct set `expr_classes`),
`rewritten_by_optimizer` = cases whose optimised expression differs from the original one (by _name).  FLOOR on
rewritten_by_optimizer: a run in which the optimiser never rewrote anything is inconclusive.

The rechunk-plan family (round 2, gen_rcplan_case in vf/gen/c30_pipeline.py): a multi-pass rechunk is what the engine's
own _compute_rechunk is for, and random chunk pairs of tiny arrays almost never need one.  Candidates (transposing
long-thin -> thin-long chunkings of 6..24 x 6..24 arrays, 2-d and 3-d, irregular chunkings, small block_size_limit,
threshold 1..4 given as rechunk(threshold=, block_size_limit=) or through the config keys array.rechunk.threshold /
array.chunk-size) are run through the pure planner dask.array.rechunk.plan_rechunk and selected by their plan: 60 % of the
family must have >= 2 passes that CUT blocks (some block boundary of the pass's output is not a boundary of its input; each
such pass emits split tasks), 30 % >= 2 passes, 10 % anything.  The rechunk is preceded by 0-1 and followed by 0-2 other
steps (elementwise, map_blocks, T, reductions, slices, rechunk back to the old chunks).  Monitors: at EVERY rechunk node of
every case the lazy result must have the chunks that were requested (tuple / int / -1 / None / dict entries; "auto" and
balance are compared with the classic engine only) -> `rechunk_requested_chunks_checked`; the plan of the node is
recomputed from the lazy chunks, the step's keywords and the case's configuration -> `rechunk_multi_pass_plans`,
`rechunk_plans_with_two_splitting_passes`, `rechunk_plan_cases_with_neighbour_steps` (all floored).  Labels of a failing
multi-pass rechunk: `rechunk&multi-step-plan[&two-cutting-passes]`.

Keyword audit (round 2): the KEYWORDS table in vf/gen/c30_pipeline.py lists, per step kind, every keyword the engine
implements and how the generator makes it non-default (from_array lock/inline_array/fancy/asarray; arange/linspace
dtype/endpoint; ufunc dtype=; Ellipsis; reduction dtype= and split_every as dict and as config; rechunk threshold /
block_size_limit / method / "auto" / None / -1 / dict with several and negative axes; concatenate axis=None,
allow_unknown_chunksizes, parts of other dtypes, empty parts; map_blocks without dtype, with meta=, extra arguments,
drop_axis, new_axis, chunks=, block_info, enforce_ndim; transpose()).  Keyword features enter the label only when the
keyword-free label is not a known mechanism (_label).  A case may carry "config": it is applied around construction and
computation in both engines.

Note on the pinned tree: its optimiser has only three rewrite rules for arrays — Blockwise._lower (inserts
rechunks to unify operand chunks), Rechunk._lower (drops no-op rechunks, picks TasksRechunk) and
FinalizeComputeArray._simplify_down (final rechunk to one block); there is no slice/reduction pushdown to exercise.

Calibration
* std/var are not implemented by the pinned engine (NotImplementedError from __array_function__): generated rarely.
* An elementwise operation between two DIFFERENTLY chunked arrays raises NotImplementedError at compute time in the
  pinned engine (Blockwise._lower rebuilds Elemwise with blockwise-style arguments; the resulting TypeError is turned
  into NotImplementedError by Elemwise._info): counted as unsupported as prescribed, reported in findings_proposed/C30.md;
  70 % of the second operands are therefore chunked like the first ("chunks": "match").
* Negative-step slices with a start below -n are mis-normalised by dask.array.slicing.normalize_index, shared by both
  engines (C20's finding): negative-step bounds are generated inside [-n, n-1].
* Pipelines with an inexact floating step are compared with a tolerance and contain no later comparison / any / all
  (a rounding difference would flip booleans; that would be the oracle's fault).
* Mismatches against NumPy are not reported a second time against the classic engine.
* (round 2) A binary ufunc called with dtype= gets a second operand chunked like the first ("match"): with differently
  chunked operands the unsupported chunk unification above shows as TypeError (multiply() takes from 2 to 3 positional
  arguments) instead of NotImplementedError; fixes_ready/C30_03 repairs the unification.
* (round 2) An exception of the expression engine that the CLASSIC engine raises too, with the same type and message, on
  the same pipeline is code the two engines share (seen: min/max over a >= 2-d array one of whose chunks is empty after
  a slice, ValueError in _concatenate2): rejected, counted as `raised_alike_in_both_engines`, not a finding of this
  property.
* (round 2) An exception is attributed to the first node that is wrong in ANY way on its own prefix: if that is a mismatch
  (shape, dtype, values) the finding is that mismatch with its own label, and the exception is kept as detail `later`
  (before, the operation of the first mismatch and the exception type of an unrelated later failure were combined into
  one label).
* (round 2) An exception that only the optimize() / un-optimised-lowered routes raise (every prefix is right under
  compute()) is attributed to the first prefix that fails on those routes (seen: x[:, int, slice, None] with an empty
  chunk, the known slice&None&int block layout, surfaced one step later in concatenate3 of the lowered graph).
* (round 2) A pipeline with an inexact floating step whose NumPy reference contains inf/NaN is rejected
  (`reference_overflowed`): the sources hold no special values, so a float32 product overflowed in NumPy's evaluation
  order and met a zero afterwards (nan); every other grouping of the same product gives 0 (seen: prod over 150 float32
  values, both engines 0, NumPy nan).
* (round 2) Auxiliary sources (second operands, parts of concatenate/stack) pass their dtype keyword as numpy.dtype; only
  the source of the spine passes it as str (known finding: the str is kept as the lazy dtype), so that mechanism is
  reported at one place.
* (round 2) The rechunk-plan family keeps python-scalar elementwise steps away from int32/float32 arrays (known dtype
  finding, it would end the case before the rechunk).
"""
from __future__ import annotations

import json
import os
import pickle
import random
import subprocess
import sys
import tempfile
import warnings

import numpy as np

from ..core.ctx import VERIF, jdump, sighash
from ..gen import arrays as A
from ..gen import c30_pipeline as P
from ..mon.compare import compare_arrays, float_tol, lazy_meta_mismatch

PROP = "C30"
RULE = ("cases = pipeline descriptions: one source (from_array/ones/zeros/arange/linspace, 1-3 d, lengths 1-6, 5 dtypes, "
        "random chunks) followed by 1-5 steps out of elementwise (unary, scalar, second array with broadcasting and its own "
        "chunking, ufunc with dtype=), basic slicing (slices, integers, None, Ellipsis), reductions (axis, keepdims, dtype, "
        "split_every int/dict/config), rechunk (tuple/int/dict/-1/auto/mixed, balance, threshold, block_size_limit, method), "
        "concatenate/stack with further sources (axis incl. None, other dtypes, empty parts), map_blocks (dtype/inferred/meta, "
        "extra arguments, drop_axis, new_axis, chunks, block_info), T/transpose; every keyword the engine implements is "
        "non-default in some cases. Rechunk-plan family: transposing / irregular / block-size-limited rechunks of 6..24 x 6..24 "
        "arrays selected by dask.array.rechunk.plan_rechunk for plans with >= 2 passes (60 % with >= 2 block-cutting passes), "
        "threshold and block size limit by keyword or config, with 0-1 steps before and 0-2 after. Complete part: every "
        "chunking of a (3,2) array x every target chunking under rechunk->sum(axis=0) and under "
        "rechunk->[1:, ::-1]->(+ y chunked alike). non-trivial = some source or rechunk target has an axis split into >= 2 "
        "chunks; distinct = distinct description.")
ASSUMPTIONS = ["NumPy 2.x defines the expected values, dtype and shape",
               "the classic engine is evaluated in a helper subprocess with the same evaluator and the same descriptions",
               "sync scheduler in all three evaluations"]
BUDGET = {"quick": 240, "thorough": 1500}
FLOORS = {"quick": {"evaluations": 670, "distinct_nontrivial": 590,
                    "counters": {"compared_with_numpy": 610, "compared_with_classic": 590, "rewritten_by_optimizer": 400,
                                 "compared_stage_optimize": 610, "compared_stage_lowered-unoptimized": 610,
                                 "block_shapes_checked": 610, "classic_helper_calls": 1,
                                 "rechunk_requested_chunks_checked": 420, "rechunk_multi_pass_plans": 165,
                                 "rechunk_plans_with_two_splitting_passes": 120,
                                 "rechunk_plan_cases_with_neighbour_steps": 160},
                    "sets": {"expr_classes": 8}, "max_skipped_fraction": 0.25},
          "thorough": {"evaluations": 7000, "distinct_nontrivial": 6100,
                       "counters": {"compared_with_numpy": 6500, "compared_with_classic": 6300, "rewritten_by_optimizer": 4000,
                                    "compared_stage_optimize": 6500, "compared_stage_lowered-unoptimized": 6500,
                                    "block_shapes_checked": 6500, "classic_helper_calls": 1,
                                    "rechunk_requested_chunks_checked": 4100, "rechunk_multi_pass_plans": 1650,
                                    "rechunk_plans_with_two_splitting_passes": 1250,
                                    "rechunk_plan_cases_with_neighbour_steps": 1600},
                       "sets": {"expr_classes": 8}, "max_skipped_fraction": 0.25}}
EXHAUSTIVE_SPACE = ("all 8x8 (source chunking, target chunking) pairs of a (3,2) array under rechunk->sum(axis=0) and under "
                    "rechunk->[1:, ::-1]->(+ y)")
CLAIM = ("Every generated pipeline was evaluated by NumPy, by the expression engine (compute, optimize().compute and the "
         "un-optimised lowered graph) and by the classic engine in a separate interpreter; values, dtype, shape were compared "
         "pairwise and chunks between the two engines; every rechunk node was checked against the requested chunks, and a "
         "counted number of rechunks had plans with >= 2 passes / >= 2 block-cutting passes. held = no mismatch and no expression-engine exception inside the "
         "domain on the executions observed, with the optimiser having rewritten a counted number of the pipelines.")
LEVEL_NOTE = ("NumPy and the classic engine are the references; only the operations the statement lists; the pinned "
              "optimiser has three array rewrite rules (chunk unification, rechunk lowering, final rechunk)")
TECHNIQUE = "runtime monitoring: three-way differential (NumPy / expression engine at three optimiser stages / classic engine in a subprocess)"
PENDING = {
    "expr-vs-numpy:elemwise:python-scalar&sub-64-bit-input:dtype":
        "int32/float32 array <op> Python scalar gives int64/float64 (elemwise() turns the scalar into an array before dtype inference)",
    "expr-lazy:red:min-max&bool-or-sub-64-bit-input&0-d-result:lazy-dtype":
        "min/max reduced to 0-d: lazy dtype int64 for bool/int32 input (PartialReduce._meta does meta.sum())",
    "expr-vs-numpy:slice&None&int:shape":
        "x[int, None, ...]: None inserted at the position shifted by the preceding integers (SlicesWrapNone uses the shifted where_none for the block indexer)",
    "expr:slice&None&int:ValueError":
        "same mechanism with several blocks: wrongly shaped blocks cannot be assembled (concatenate3) / sliced (getitem)",
    "expr:any-op-on-input-without-meta:ValueError":
        "stack() meta has a non-zero dimension -> elementwise with another array has _meta None -> the next operation raises",
    "expr:any-op-on-input-without-meta:AttributeError": "same mechanism, other raise site ('NoneType' object has no attribute 'dtype')",
    # round 2 (known_findings.d/C30_b.json)
    "expr-lazy:source:arange&dtype-keyword:dtype-is-str-not-numpy-dtype":
        "arange(dtype='float32').dtype is the str passed in; a following rechunk / the final rechunk of compute raises AttributeError",
    "expr-lazy:source:linspace&dtype-keyword:dtype-is-str-not-numpy-dtype": "same mechanism for linspace(dtype=...)",
    "expr-lazy:elemwise:array&ufunc-dtype-keyword:dtype-is-str-not-numpy-dtype": "same mechanism for da.add(x, y, dtype='float32')",
    "expr:concat&axis-None:AttributeError@array/_array_expr/_collection.py:concatenate":
        "concatenate(axis=None) calls Array.flatten, which the expression-engine Array does not have",
    "expr:map_blocks&binfo:result-without-meta&later-op-fails":
        "map_blocks(f, dtype=...) with an f taking block_info has _meta None; whatever operation follows fails",
}
CASE_TIMEOUT = 900        # a case may have to wait for the helper subprocess of its whole group

GROUP = 200
_ST = {"queue": [], "results": {}, "tier": "quick", "seed": 0, "helper_calls": 0}


def child_env(env, tier, seed):
    env["DASK_ARRAY__QUERY_PLANNING"] = "True"


# ---------------------------------------------------------------------------------------------
# case stream

def cases(tier, seed):
    rng = random.Random(seed * 15485863 + 30)
    shape = (3, 2)
    allc = A.all_chunkings(shape)
    for c1 in allc:
        for c2 in allc:
            src = {"k": "from_array", "shape": list(shape), "dtype": "int64", "seed": 7, "chunks": [list(c) for c in c1]}
            yield {"space": "exhaustive", "src": src, "exact": True,
                   "steps": [{"op": "rechunk", "chunks": [list(c) for c in c2], "balance": False},
                             {"op": "red", "f": "sum", "axis": 0, "keepdims": False, "split_every": None}]}
            yield {"space": "exhaustive", "src": src, "exact": True,
                   "steps": [{"op": "rechunk", "chunks": [list(c) for c in c2], "balance": False},
                             {"op": "slice", "idx": [["s", 1, None, None], ["s", None, None, -1]]},
                             {"op": "ew2", "f": "add", "rev": False,
                              "src": {"k": "from_array", "shape": [2, 2], "dtype": "float64", "seed": 8, "chunks": "match"}}]}
    n = 1000 if tier == "quick" else 12000
    nrc = 360 if tier == "quick" else 3600
    rrc = random.Random(seed * 32452843 + 3030)
    every = n // nrc if nrc else n + 1
    for i in range(n):
        yield P.gen_case(rng)
        if i % every == 0 and nrc > 0:
            # the rechunk-plan family, interleaved so that a truncated run still sees it
            nrc -= 1
            yield P.gen_rcplan_case(rrc, maxlen=24 if tier == "quick" else 30)


# ---------------------------------------------------------------------------------------------
# classic helper

def _key(case):
    return sighash(jdump(case))


def _run_helper(batch):
    """batch: [[key, case, uptos], ...] -> {key: {upto: result}}.  Raises RuntimeError (harness error) on failure."""
    env = {k: v for k, v in os.environ.items() if not k.startswith("DASK_ARRAY")}
    d = tempfile.mkdtemp(prefix="vf-c30-")
    bf, of = os.path.join(d, "batch.json"), os.path.join(d, "out.pkl")
    try:
        with open(bf, "w") as f:
            f.write(jdump(batch))
        p = subprocess.run([sys.executable, "-m", "vf.props.c30_classic", bf, of], cwd=VERIF, env=env,
                           stdout=subprocess.PIPE, stderr=subprocess.STDOUT, timeout=800)
        if p.returncode != 0 or not os.path.exists(of):
            raise RuntimeError("classic helper failed (rc=%s): %s" % (p.returncode, p.stdout.decode("utf8", "replace")[-1500:]))
        with open(of, "rb") as f:
            out = pickle.load(f)
    finally:
        for fn in (bf, of):
            try:
                os.unlink(fn)
            except OSError:
                pass
        try:
            os.rmdir(d)
        except OSError:
            pass
    _ST["helper_calls"] += 1
    return out["results"]


def _classic_result(case):
    k = _key(case)
    res = _ST["results"]
    while k not in res and _ST["queue"]:
        group, _ST["queue"] = _ST["queue"][:GROUP], _ST["queue"][GROUP:]
        res.update(_run_helper([[kk, cc, None] for kk, cc in group]))
    if k not in res:
        res.update(_run_helper([[k, case, None]]))
    return res.pop(k)[None]


def shard_setup(tier, seed):
    import dask

    if "dask.array" not in sys.modules and not os.environ.get("DASK_ARRAY__QUERY_PLANNING"):
        # `vf replay` does not go through child_env: select the engine before dask.array is imported
        os.environ["DASK_ARRAY__QUERY_PLANNING"] = "True"
        dask.config.set({"array.query-planning": True})
    import dask.array as da

    t = type(da.ones(2, chunks=1))
    if t.__module__ != "dask.array._array_expr._collection":
        raise RuntimeError("C30: the expression engine is not active in this process (da.ones gives %s.%s)"
                           % (t.__module__, t.__name__))
    _ST.update(tier=tier, seed=seed, results={}, queue=[])
    shard = nshards = None
    argv = sys.argv
    if "--shard" in argv and "--nshards" in argv:
        shard, nshards = int(argv[argv.index("--shard") + 1]), int(argv[argv.index("--nshards") + 1])
    if shard is not None:
        _ST["queue"] = [(_key(c), c) for i, c in enumerate(cases(tier, seed)) if i % nshards == shard]


def shard_finish():
    return {"classic_helper_calls": _ST["helper_calls"]}


# ---------------------------------------------------------------------------------------------
# evaluation

def _assemble(blocks, ndim):
    from dask.array.core import concatenate3

    if ndim == 0:
        while isinstance(blocks, (list, tuple)):
            blocks = blocks[0]
        return np.asarray(blocks)
    return np.asarray(concatenate3(blocks))


def _block_shape_mismatch(blocks, chunks):
    """Every block of the lowered graph has the shape the expression's .chunks declares: None or a message."""
    import itertools

    if not chunks:
        return None
    for idx in itertools.product(*[range(len(c)) for c in chunks]):
        b = blocks
        for i in idx:
            b = b[i]
        want = tuple(int(chunks[a][i]) for a, i in enumerate(idx))
        if tuple(np.shape(b)) != want:
            return "block %s has shape %s, .chunks declares %s" % (idx, tuple(np.shape(b)), want)
    return None


def _expr_values(x):
    """(compute, optimize().compute, un-optimised lowered graph, block-shape message) of an expression-engine array."""
    import dask

    v1 = x.compute(scheduler="sync")
    v2 = x.optimize().compute(scheduler="sync")
    low = x.expr.lower_completely()
    blocks = dask.get(low.__dask_graph__(), low.__dask_keys__())
    v3 = _assemble(blocks, x.ndim)
    return np.asarray(v1), np.asarray(v2), v3, _block_shape_mismatch(blocks, x.chunks)


def _tol_args(case, scale):
    n = int(np.prod(case["src"]["shape"])) if case["src"]["shape"] else 1
    for st in case["steps"]:
        for o in ([st["src"]] if "src" in st else []) + [o for o in st.get("others", []) if o != "self"]:
            n += int(np.prod(o["shape"])) if o["shape"] else 1
    return {"exact": bool(case.get("exact", True)), "n": max(n, 1) * 4, "scale": scale}


def _cmp(v, e, tol, check_dtype=True):
    return compare_arrays(v, e, check_dtype=check_dtype, **tol)


def _opdesc(case, k, pref, extra=True):
    """Mechanism description of the k-th node of the spine (0 = the source): operation + the input features that
    select code paths in the expression engine.  No sizes, seeds or values.  extra=False leaves out the features that
    name keywords / argument forms (used to recognise a known mechanism whatever keywords accompany it)."""
    fx = []                 # keyword / argument-form features
    if k == 0:
        src = case["src"]
        fx = (["keywords"] if src.get("kw") else []) + (["dtype-keyword"] if src.get("dt") else []) + \
            (["endpoint-false"] if src.get("endpoint") is False else [])
        return "source:" + src["k"] + ("&" + "&".join(fx) if (fx and extra) else "")
    st = case["steps"][k - 1]
    cfg = case.get("config") or {}
    op = st["op"]
    inp = pref[k - 1]
    narrow = "bool-input" if inp.dtype == bool else ("sub-64-bit-input" if inp.dtype.kind in "iuf" and inp.dtype.itemsize < 8 else "")
    fl = []
    if op == "ew1":
        name = "elemwise:unary"
    elif op == "ewk":
        name = "elemwise:python-scalar"
        fl.append(narrow)
    elif op == "ew2":
        name = "elemwise:array"
        if st["src"]["shape"] == [] or inp.ndim == 0:
            fl.append("0-d-operand")
        elif list(inp.shape) != list(st["src"]["shape"]):
            fl.append("broadcast")
        if st.get("call"):
            fx.append("ufunc-dtype-keyword")
    elif op == "slice":
        name = "slice"
        kinds = {it[0] for it in st["idx"]}
        if "n" in kinds:
            fl.append("None")
        if "i" in kinds:
            fl.append("int")
        if not ("n" in kinds and "i" in kinds):      # None together with an integer is a mechanism of its own
            if any(it[0] == "s" and (it[3] or 1) < 0 for it in st["idx"]):
                fl.append("negative-step")
            if 0 in pref[k].shape:
                fl.append("empty-result")
            if "e" in kinds:
                fx.append("Ellipsis")
    elif op == "red":
        name = "red:" + ("min-max" if st["f"] in ("min", "max") else st["f"])
        fl.append("bool-or-sub-64-bit-input" if narrow else "")
        if pref[k].ndim == 0:
            fl.append("0-d-result")
        if st.get("dtype"):
            fx.append("dtype-keyword")
        if isinstance(st.get("split_every"), dict):
            fx.append("split_every-dict")
        elif st.get("split_every") is None and "split_every" in cfg:
            fx.append("split_every-config")
    elif op == "rechunk":
        form = _rechunk_form(st["chunks"])
        name = "rechunk:" + (form if extra else {"mixed": "tuple", "auto": "int"}.get(form, form))
        if st.get("balance"):
            fl.append("balance")
        fx.extend(kw for kw in ("threshold", "block_size_limit", "method") if st.get(kw) is not None)
        fx.extend("config:" + key for key in ("array.rechunk.threshold", "array.chunk-size") if key in cfg)
        npass, ncut = _rechunk_plan(case, k)
        if npass > 1:
            # the form of the chunks argument does not matter then; whether >= 2 passes cut blocks does (each of them
            # emits split tasks)
            name, fl, fx = "rechunk", ["multi-step-plan"], (["two-cutting-passes"] if ncut >= 2 else [])
    elif op in ("concat", "stack"):
        name = op
        if inp.ndim == 0:
            fl.append("0-d-input")
        others = [o for o in st["others"] if o != "self"]
        if st["axis"] is None:
            fx.append("axis-None")         # flattening is a mechanism of its own
        else:
            if any(np.dtype(o["dtype"]) != inp.dtype for o in others):
                fx.append("mixed-dtype")
            if any(0 in o["shape"] for o in others):
                fx.append("empty-part")
    elif op == "mb":
        name = "map_blocks"
        if st["f"] not in P.MBF:
            fx.append(st["f"])
        if st.get("dt") in ("infer", "meta"):
            fx.append("dtype-inferred" if st["dt"] == "infer" else "meta-keyword")
    else:
        name = op
    fl = [f for f in fl + (fx if extra else []) if f]
    return name + ("&" + "&".join(fl) if fl else "")


def _label(pair, case, k, pref, symptom):
    """Label of a mismatch at node k.  A mechanism that is already known under its keyword-free label keeps that label
    whatever keywords accompany it; everything else is labelled with the keyword features."""
    for pr in (pair, "expr-vs-numpy"):     # a mechanism known against NumPy may show only against the classic engine
        base = "%s:%s:%s" % (pr, _opdesc(case, k, pref, extra=False), symptom)
        if base in PENDING:
            return base
    return "%s:%s:%s" % (pair, _opdesc(case, k, pref), symptom)


def run_case(case, ctx):
    with warnings.catch_warnings():
        warnings.simplefilter("ignore")
        with np.errstate(all="ignore"), P.config_ctx(case):
            _run(case, ctx)


def _nontrivial(case):
    srcs = [case["src"]]
    for st in case["steps"]:
        if "src" in st:
            srcs.append(st["src"])
        srcs.extend(o for o in st.get("others", []) if o != "self")
        if st["op"] == "rechunk":
            ch = st["chunks"]
            ent = list(ch.values()) if isinstance(ch, dict) else ch if isinstance(ch, list) else []
            if any(isinstance(e, list) and len(e) >= 2 for e in ent):
                return True
    return any(A.has_split(A.chunks_of_desc(s["chunks"])) for s in srcs if s["chunks"] != "match")


def _walk_classes(ctx, expr):
    for node in expr.walk():
        ctx.distinct("expr_classes", type(node).__name__)


def _rechunk_form(ch):
    if isinstance(ch, dict):
        return "dict"
    if isinstance(ch, list):
        return "tuple" if all(isinstance(e, list) for e in ch) else "mixed"
    return "minus1" if ch == -1 else "auto" if ch == "auto" else "int"


def _plan_of(a, b, st):
    """(passes, passes that cut blocks) of the plan for rechunking the lazy array a into b with the step's keywords
    (the configuration of the case is active in the caller)."""
    return P.plan_info(a.chunks, b.chunks, np.dtype(a.dtype).itemsize, st.get("threshold"), st.get("block_size_limit"))


def _rechunk_plan(case, k):
    """_plan_of for the k-th node (a rechunk) of the spine; (0, 0) when unknown."""
    import dask.array as da

    try:
        a, b = P.evaluate(case, da, upto=k - 1), P.evaluate(case, da, upto=k)
        return _plan_of(a, b, case["steps"][k - 1])
    except Exception:  # noqa: BLE001
        return (0, 0)


def _requested_axis(entry, n, prev):
    """Chunks an axis of length n must have after rechunk(entry); None = not determined by the request."""
    if isinstance(entry, list):
        return tuple(entry)
    if entry is None:
        return tuple(prev)
    if entry == "auto":
        return None
    if entry == -1:
        return (n,)
    c = max(1, min(int(entry), n))
    return tuple([c] * (n // c) + ([n % c] if n % c else []))


def _requested_chunks_mismatch(a, b, st):
    """The lazy result b of a.rechunk(...) has the chunks that were requested (where the request determines them)."""
    ch = st["chunks"]
    if st.get("balance") or ch == "auto":
        return None
    nd = a.ndim
    if isinstance(ch, dict):
        ent = {int(ax) % nd: e for ax, e in ch.items()}
        want = [_requested_axis(ent[i], a.shape[i], a.chunks[i]) if i in ent else tuple(a.chunks[i]) for i in range(nd)]
    elif isinstance(ch, list):
        want = [_requested_axis(e, a.shape[i], a.chunks[i]) for i, e in enumerate(ch)]
    else:
        want = [_requested_axis(ch, a.shape[i], a.chunks[i]) for i in range(nd)]
    for i, w in enumerate(want):
        if w is not None and tuple(int(q) for q in b.chunks[i]) != tuple(int(q) for q in w):
            return "axis %d: chunks %s, requested %s" % (i, tuple(b.chunks[i]), w)
    return None


def _input_meta_none(case, k):
    """True when the input expression of the k-th node has no meta (the engine lost it earlier)."""
    import dask.array as da

    if k <= 0:
        return False
    try:
        return P.evaluate(case, da, upto=k - 1)._meta is None
    except Exception:  # noqa: BLE001
        return False


def _meta_origin(case, k):
    """Index of the first node below k whose expression has no meta (`_meta is None`), or None.  The index is negated
    when an earlier node has a meta with a dimension > 1 (stack's meta: the known root cause of a lost meta)."""
    import dask.array as da

    sign = 1
    for j in range(0, k):
        try:
            m = P.evaluate(case, da, upto=j)._meta
        except Exception:  # noqa: BLE001
            return None
        if m is None:
            return sign * j
        if any(d > 1 for d in getattr(m, "shape", ())):
            sign = -1
    return None


def _raised_alike_in_classic(ex, classic):
    """The classic engine raised the same exception (type and message) on the same pipeline: the failure is in code the
    two engines share, which is not what this property is about."""
    try:
        c = classic() if classic else None
    except Exception:  # noqa: BLE001
        return False
    if not c or "error" not in c or c.get("notimpl"):
        return False
    mine = "%s: %s" % (type(ex).__name__, ex)
    return mine[:120] == c["error"][:120]


def _exc_violation(ctx, case, k, pref, ex, classic=None):
    if _raised_alike_in_classic(ex, classic):
        ctx.count("raised_alike_in_both_engines")
        ctx.reject("both engines raise %s: %s" % (type(ex).__name__, str(ex)[:100]))
        return
    origin = _meta_origin(case, k)
    if 0 < k <= len(case["steps"]) and case["steps"][k - 1]["op"] == "concat" and case["steps"][k - 1]["axis"] is None \
            and isinstance(ex, AttributeError):
        ctx.exception(ex, prefix="expr:%s" % _opdesc(case, k, pref))       # flattening is not there at all
    elif origin is not None and origin > 0 and case["steps"][origin - 1]["op"] == "mb":
        # one mechanism (the map_blocks result has _meta None), many failure sites in whatever operation comes later
        import traceback
        ctx.violation("expr:%s:result-without-meta&later-op-fails" % _opdesc(case, origin, pref), "%s: %s" % (type(ex).__name__, ex),
                      op=_opdesc(case, k, pref), traceback="".join(traceback.format_exception(type(ex), ex, ex.__traceback__))[-2500:])
    elif origin is not None:
        # one mechanism (an upstream expression has _meta None), many raise sites in whatever comes next
        import traceback
        ctx.violation("expr:any-op-on-input-without-meta:%s" % type(ex).__name__, "%s: %s" % (type(ex).__name__, ex),
                      op=_opdesc(case, k, pref), traceback="".join(traceback.format_exception(type(ex), ex, ex.__traceback__))[-2500:])
    elif _opdesc(case, k, pref, extra=False) == "slice&None&int":
        # one mechanism (None inserted at the shifted position -> wrongly shaped blocks), several raise sites
        import traceback
        ctx.violation("expr:slice&None&int:%s" % type(ex).__name__, "%s: %s" % (type(ex).__name__, ex),
                      traceback="".join(traceback.format_exception(type(ex), ex, ex.__traceback__))[-2500:])
    else:
        ctx.exception(ex, prefix="expr:%s" % _opdesc(case, k, pref))


def _dtype_is_str(ctx, case, k, dx, pref):
    """The lazy dtype of node k is what the caller passed (a str) instead of a numpy.dtype: `.dtype.itemsize` etc. fail in
    whatever comes next (rechunk, the final rechunk of compute).  Reported at the node that introduces it."""
    try:
        dt = dx.dtype
    except Exception:  # noqa: BLE001   (reported by the ordinary route)
        return False
    if isinstance(dt, np.dtype):
        return False
    origin = _meta_origin(case, k)          # strictly upstream of node k
    if origin is not None and origin > 0 and case["steps"][origin - 1]["op"] == "mb":
        ctx.violation("expr:%s:result-without-meta&later-op-fails" % _opdesc(case, origin, pref), "lazy .dtype is %r" % (dt,), prefix_len=k)
        return True
    if origin is not None:
        return False        # the known lost-meta mechanism (stack): reported if and when something actually fails
    if k == 0:
        name = "source:%s&dtype-keyword" % case["src"]["k"]
    else:
        st = case["steps"][k - 1]
        name = "elemwise:array&ufunc-dtype-keyword" if st["op"] == "ew2" else st["op"] + (":" + st["f"] if "f" in st else "")
    ctx.violation("expr-lazy:%s:dtype-is-%s-not-numpy-dtype" % (name, type(dt).__name__), "lazy .dtype is %r" % (dt,), prefix_len=k)
    return True


def _same_chunks(c1, c2):
    return tuple(tuple(int(q) for q in cs) for cs in c1) == tuple(tuple(int(q) for q in cs) for cs in c2)


def _check_expr_prefix(case, k, pref, tol):
    """None or (pair, symptom, message) for the k-th prefix evaluated by the expression engine against NumPy."""
    import dask.array as da
    from ..core.ctx import exc_label

    try:
        dx = P.evaluate(case, da, upto=k)
        v = np.asarray(dx.compute(scheduler="sync"))
    except NotImplementedError:
        return None
    except Exception as ex:  # noqa: BLE001
        return ("expr", exc_label(ex), ex)
    m = _cmp(v, pref[k], tol)
    if m:
        return ("expr-vs-numpy", m[0], m[1])
    try:
        m = lazy_meta_mismatch(dx, v)
    except Exception as ex:  # noqa: BLE001
        return ("expr", exc_label(ex), ex)
    if m:
        return ("expr-lazy", m[0], m[1])
    return None


def _localise(case, pref, tol, upto=None):
    """First node of the spine (up to node `upto`) at which the expression engine is wrong on its own prefix:
    (k, pair, symptom, msg) or None."""
    for k in range((len(case["steps"]) if upto is None else upto) + 1):
        r = _check_expr_prefix(case, k, pref, tol)
        if r:
            return (k,) + r
    return None


def _localise_routes(case, upto):
    """First node whose own prefix raises, or has wrongly shaped blocks, on one of the three evaluation routes; None."""
    import dask.array as da

    for k in range(upto + 1):
        try:
            if _expr_values(P.evaluate(case, da, upto=k))[3]:
                return k
        except NotImplementedError:
            continue
        except Exception:  # noqa: BLE001
            return k
    return None


def _report_exception(ctx, case, k, pref, tol, names, ex, classic):
    """An exception met at node k (or while the complete pipeline was evaluated).  The first node that is wrong in any way
    on its own prefix is the mechanism: an exception is often the consequence of a wrong shape / dtype / block layout
    further up, and then the finding is that mismatch, with the exception as detail."""
    loc = _localise(case, pref, tol, upto=k)
    if loc and not isinstance(loc[3], BaseException):
        ctx.violation(_label(loc[1], case, loc[0], pref, loc[2]), loc[3], prefix_len=loc[0], ops=names[:loc[0] + 1],
                      later="%s: %s" % (type(ex).__name__, str(ex)[:200]))
    elif loc:
        _exc_violation(ctx, case, loc[0], pref, loc[3], classic)
    else:
        # every prefix is right under compute(): the failure belongs to another evaluation route (optimize().compute(), the
        # un-optimised lowered graph); the first prefix that fails on those routes is the mechanism
        kk = _localise_routes(case, k)
        _exc_violation(ctx, case, k if kk is None else kk, pref, ex, classic)


def _run(case, ctx):
    box = {}

    def classic():
        if "c" not in box:
            box["c"] = _classic_result(case)
        return box["c"]

    try:
        _run2(case, ctx, classic)
    finally:
        classic()          # every case takes its result out of the helper's queue, whatever happened


def _run2(case, ctx, classic):
    import dask.array as da

    nsteps = len(case["steps"])
    names = P.op_names(case)
    for nm in names:
        ctx.op(nm)
    ctx.nontrivial = _nontrivial(case)
    # 1. NumPy, every prefix (scale of the intermediates; reference for prefix localisation)
    pref = []
    try:
        x = P.build_source(case["src"], np)
        pref.append(np.asarray(x))
        for st in case["steps"]:
            x = P.apply_step(x, st, np)
            pref.append(np.asarray(x))
    except Exception as ex:  # noqa: BLE001
        ctx.reject("numpy: %s: %s" % (type(ex).__name__, ex))
        return
    e = pref[-1]
    scale = 1.0
    for p in pref:
        if p.size and p.dtype.kind in "fiu":
            q = p.astype("float64")
            q = np.abs(q[np.isfinite(q)])
            if q.size:
                scale = max(scale, float(q.max()))
    tol = _tol_args(case, scale)
    if not tol["exact"] and any(p.dtype.kind == "f" and p.size and not np.isfinite(p).all() for p in pref):
        # the sources hold no NaN/inf: a floating product overflowed in NumPy's own evaluation order, and 0 * inf = nan
        # depends on that order (another grouping of the same product gives 0)
        ctx.count("reference_overflowed")
        ctx.reject("numpy: the reference overflows in an order-dependent (inexact) pipeline")
        return

    # 2. expression engine, step by step so that a raising step is known
    k = 0
    try:
        dx = P.build_source(case["src"], da)
        if _dtype_is_str(ctx, case, 0, dx, pref):
            return
        for k, st in enumerate(case["steps"], 1):
            prev, dx = dx, P.apply_step(dx, st, da)
            if _dtype_is_str(ctx, case, k, dx, pref):
                return
            if st["op"] == "rechunk":
                ctx.count("rechunk_requested_chunks_checked")
                msg = _requested_chunks_mismatch(prev, dx, st)
                if msg:
                    ctx.violation("expr-lazy:%s:chunks-differ-from-requested" % _opdesc(case, k, pref), msg, prefix_len=k)
                    return
                npass, ncut = _plan_of(prev, dx, st)
                if npass >= 2:
                    ctx.count("rechunk_multi_pass_plans")
                if ncut >= 2:
                    ctx.count("rechunk_plans_with_two_splitting_passes")
                if case.get("family") == "rcplan" and len(case["steps"]) > 1:
                    ctx.count("rechunk_plan_cases_with_neighbour_steps")
        if not isinstance(dx, da.Array):
            ctx.violation("expr:%s:result-not-a-dask-array" % _opdesc(case, nsteps, pref), "got %r" % (type(dx),))
            return
        k = nsteps + 1
        _walk_classes(ctx, dx.expr)
        opt = dx.expr.optimize()
        _walk_classes(ctx, opt)
        if opt._name != dx.expr._name:
            ctx.count("rewritten_by_optimizer")
        low = dx.expr.lower_completely()
        _walk_classes(ctx, low)
        v1, v2, v3, blockmsg = _expr_values(dx)
    except NotImplementedError as ex:
        ctx.unsupported("%s: %s" % (names[min(k, nsteps)], ex))
        return
    except Exception as ex:  # noqa: BLE001
        _report_exception(ctx, case, min(k, nsteps), pref, tol, names, ex, classic)
        return
    ctx.count("compared_with_numpy")
    ctx.sample = {"ops": names, "result_shape": list(v1.shape), "dtype": str(v1.dtype), "chunks": [list(c) for c in dx.chunks],
                  "rewritten": opt._name != dx.expr._name}
    try:
        wrong = _cmp(v1, e, tol) or lazy_meta_mismatch(dx, v1)
    except Exception as ex:  # noqa: BLE001  (e.g. .dtype of an expression that lost its meta)
        _report_exception(ctx, case, nsteps, pref, tol, names, ex, classic)
        return
    stage_wrong = []
    for stage, v in (("optimize", v2), ("lowered-unoptimized", v3)):
        ctx.count("compared_stage_" + stage)
        m2 = _cmp(v, e, tol)
        if m2:
            stage_wrong.append((stage, m2, v))
    ctx.count("block_shapes_checked")
    if wrong or stage_wrong or blockmsg:
        loc = _localise(case, pref, tol)
        if loc:
            kk, pair, symptom, msg = loc
            if isinstance(msg, BaseException):
                _exc_violation(ctx, case, kk, pref, msg, classic)
            else:
                ctx.violation(_label(pair, case, kk, pref, symptom), msg, prefix_len=kk, ops=names[:kk + 1])
        elif wrong:       # cannot happen unless evaluation is not deterministic
            ctx.violation("expr-vs-numpy:%s:%s:not-localised" % (_opdesc(case, nsteps, pref), wrong[0]), wrong[1])
        elif blockmsg and not stage_wrong:
            kb = _localise_blocks(case)
            ctx.violation("expr-lowered-blocks:%s:block-shape-differs-from-chunks" % _opdesc(case, kb, pref), blockmsg, prefix_len=kb)
        else:
            for stage, m2, v in stage_wrong:
                ctx.violation("expr-%s-vs-numpy:%s:%s" % (stage, _opdesc(case, nsteps, pref), m2[0]), m2[1],
                              result=repr(v)[:300], expected=repr(e)[:300])
        return

    # 3. classic engine (only when the expression engine agrees with NumPy: one mechanism, one label)
    c = classic()
    if "error" in c:
        ctx.count("classic_notimplemented" if c.get("notimpl") else "classic_raised")
        ctx.distinct("classic_errors", c["error"][:60])
        return
    ctx.count("compared_with_classic")
    if _classic_diff(dx, v1, c, tol):
        kk, sym, msg = _localise_classic(case, pref, tol)
        ctx.violation(_label("expr-vs-classic", case, kk, pref, sym), msg, prefix_len=kk, ops=names[:kk + 1])


def _localise_blocks(case):
    import dask
    import dask.array as da

    n = len(case["steps"])
    for k in range(n + 1):
        try:
            dx = P.evaluate(case, da, upto=k)
            low = dx.expr.lower_completely()
            if _block_shape_mismatch(dask.get(low.__dask_graph__(), low.__dask_keys__()), dx.chunks):
                return k
        except Exception:  # noqa: BLE001
            return k
    return n


def _classic_diff(dx, v, c, tol):
    mc = _cmp(v, c["value"], tol)
    if mc:
        return mc
    if tuple(dx.shape) != tuple(c["shape"]):
        return ("lazy-shape", "expr lazy shape %s vs classic %s" % (dx.shape, c["shape"]))
    if str(dx.dtype) != c["dtype"]:
        return ("lazy-dtype", "expr lazy dtype %s vs classic %s" % (dx.dtype, c["dtype"]))
    if not _same_chunks(dx.chunks, c["chunks"]):
        return ("chunks", "expr chunks %s vs classic %s" % (dx.chunks, c["chunks"]))
    return None


def _localise_classic(case, pref, tol):
    import dask.array as da

    n = len(case["steps"])
    res = _run_helper([[_key(case), case, list(range(n + 1))]])[_key(case)]
    last = (n, "not-localised", "no prefix differs")
    for k in range(0, n + 1):
        c = res.get(k)
        if not c or "error" in c:
            continue
        dx = P.evaluate(case, da, upto=k)
        v = np.asarray(dx.compute(scheduler="sync"))
        d = _classic_diff(dx, v, c, tol)
        if d:
            return (k, d[0], d[1])
    return last
